//! Reference grid (DESIGN 3.5): a plain model of a workbook, written from the STATEMENT of
//! C07 and not from the library's code.
//!
//! Per sheet: map position -> tagged cell {value tag, style tag, hyperlink tag}, explicitly
//! set row heights / column widths, merged rectangles, comment anchors, conditional-format
//! ranges, the auto-filter range.  No formulas: reference adjustment is C08's business.
//!
//! Semantics (each line is a clause of the statement):
//! * insert n at p on an axis: every index >= p moves by +n, everything before p stays.
//!   A rectangle is moved corner by corner, so a rectangle that straddles p
//!   (start < p <= end) grows by n — the only reading under which the cells before p stay,
//!   the cells after p move, and `remove(p,n) . insert(p,n)` is the identity.
//! * remove n at p: the band is [p, p+n-1]. Objects that lie inside the band (on the edited
//!   axis) are deleted, objects beyond the band move by -n, objects before it stay.  A
//!   rectangle with the band strictly inside it (start < p and end > p+n-1) shrinks by n
//!   (inverse of the straddling insert).  A rectangle that PARTLY overlaps the band (one
//!   end inside, the other outside) is left open by the statement: it becomes `Loose` and
//!   from then on only the weak oracle applies to it (inside the grid, start <= end).
//! * move: source rectangle empty afterwards, destination rectangle holds exactly the
//!   source cells at their translated positions (cells that were in the destination
//!   rectangle are gone).
//! * copy: source kept, every existing source cell placed at its translated position
//!   (destination cells that no source cell lands on are untouched).
//! * hyperlinks live on cells (that is where the public API keeps them), so they follow
//!   their cell under insert/remove.  The statement does not name hyperlinks for
//!   move/copy; a cell written by move/copy whose hyperlink status is not determined by the
//!   statement gets `Hl::Unspecified` (any observation accepted).
use serde::{Deserialize, Serialize};
use std::collections::{BTreeMap, BTreeSet};

pub const MAX_COL: u32 = 16384;
pub const MAX_ROW: u32 = 1_048_576;

#[derive(Clone, Copy, Debug, PartialEq, Eq, Serialize, Deserialize)]
pub enum Axis {
    Row,
    Col,
}

impl Axis {
    pub fn limit(self) -> u32 {
        match self {
            Axis::Row => MAX_ROW,
            Axis::Col => MAX_COL,
        }
    }
    pub fn name(self) -> &'static str {
        match self {
            Axis::Row => "rows",
            Axis::Col => "cols",
        }
    }
}

/// Bijective base-26 column numeral (own three-line implementation).
pub fn col_name(mut n: u32) -> String {
    let mut out = Vec::new();
    while n > 0 {
        out.push((b'A' + ((n - 1) % 26) as u8) as char);
        n = (n - 1) / 26;
    }
    out.iter().rev().collect()
}

#[derive(Clone, Copy, Debug, PartialEq, Eq, PartialOrd, Ord, Hash, Serialize, Deserialize)]
pub struct Rect {
    pub r1: u32,
    pub c1: u32,
    pub r2: u32,
    pub c2: u32,
}

impl Rect {
    pub fn new(r1: u32, c1: u32, r2: u32, c2: u32) -> Rect {
        Rect { r1, c1, r2, c2 }
    }
    pub fn contains(&self, row: u32, col: u32) -> bool {
        row >= self.r1 && row <= self.r2 && col >= self.c1 && col <= self.c2
    }
    pub fn intersects(&self, o: &Rect) -> bool {
        self.r1 <= o.r2 && o.r1 <= self.r2 && self.c1 <= o.c2 && o.c1 <= self.c2
    }
    pub fn area(&self) -> u64 {
        (self.r2 - self.r1 + 1) as u64 * (self.c2 - self.c1 + 1) as u64
    }
    pub fn is_single(&self) -> bool {
        self.r1 == self.r2 && self.c1 == self.c2
    }
    /// "B2:C3" (always two corners)
    pub fn a1(&self) -> String {
        format!("{}{}:{}{}", col_name(self.c1), self.r1, col_name(self.c2), self.r2)
    }
    /// "B2" for a single cell, else "B2:C3"
    pub fn a1_short(&self) -> String {
        if self.is_single() {
            format!("{}{}", col_name(self.c1), self.r1)
        } else {
            self.a1()
        }
    }
    pub fn translate(&self, dr: i64, dc: i64) -> Rect {
        Rect {
            r1: (self.r1 as i64 + dr) as u32,
            c1: (self.c1 as i64 + dc) as u32,
            r2: (self.r2 as i64 + dr) as u32,
            c2: (self.c2 as i64 + dc) as u32,
        }
    }
    pub fn in_grid(&self) -> bool {
        self.r1 >= 1 && self.c1 >= 1 && self.r1 <= self.r2 && self.c1 <= self.c2 && self.r2 <= MAX_ROW && self.c2 <= MAX_COL
    }
    pub fn span(&self, axis: Axis) -> (u32, u32) {
        match axis {
            Axis::Row => (self.r1, self.r2),
            Axis::Col => (self.c1, self.c2),
        }
    }
    fn with_span(&self, axis: Axis, s: u32, e: u32) -> Rect {
        match axis {
            Axis::Row => Rect { r1: s, r2: e, ..*self },
            Axis::Col => Rect { c1: s, c2: e, ..*self },
        }
    }
}

/// Relation of an interval [s,e] to a removed band [p, p+n-1].
#[derive(Clone, Copy, Debug, PartialEq, Eq)]
pub enum BandRel {
    Before,
    Beyond,
    Covered,
    Interior,
    Partial,
}

impl BandRel {
    pub fn name(self) -> &'static str {
        match self {
            BandRel::Before => "before",
            BandRel::Beyond => "beyond",
            BandRel::Covered => "covered",
            BandRel::Interior => "band-inside",
            BandRel::Partial => "partial",
        }
    }
}

pub fn band_rel(s: u32, e: u32, p: u32, n: u32) -> BandRel {
    let q = p as u64 + n as u64 - 1;
    let (s6, e6, p6) = (s as u64, e as u64, p as u64);
    if e6 < p6 {
        BandRel::Before
    } else if s6 > q {
        BandRel::Beyond
    } else if s6 >= p6 && e6 <= q {
        BandRel::Covered
    } else if s6 < p6 && e6 > q {
        BandRel::Interior
    } else {
        BandRel::Partial
    }
}

/// The surviving part of an interval that PARTLY overlaps the removed band [p, p+n-1], at
/// its position after the removal (what spreadsheet applications keep).  Informational
/// only: the statement leaves this case open.
pub fn clip_span(s: u32, e: u32, p: u32, n: u32) -> (u32, u32) {
    let q = p + (n - 1);
    let ns = if s < p {
        s
    } else if s <= q {
        p
    } else {
        s - n
    };
    let ne = if e < p {
        e
    } else if e <= q {
        p - 1
    } else {
        e - n
    };
    (ns, ne)
}

fn ins_idx(x: u32, p: u32, n: u32) -> u32 {
    if x >= p {
        x + n
    } else {
        x
    }
}

#[derive(Clone, Debug, PartialEq, Eq)]
pub enum Hl {
    None,
    Tag(u32),
    /// the statement does not determine it (after move/copy): anything is accepted
    Unspecified,
}

#[derive(Clone, Debug, PartialEq, Eq)]
pub struct MCell {
    /// value tag (>= 1); rendered as "v<tag>"
    pub value: u32,
    /// style tag, 0 = default style
    pub style: u32,
    pub hl: Hl,
}

#[derive(Clone, Debug, PartialEq, Eq)]
pub enum MRange {
    Exact(Rect),
    /// partly overlapped a removed band at some point: only the weak oracle applies.
    /// `max_r`/`max_c` bound where its far corner can possibly be (used only to keep later
    /// inserts inside the grid by construction).
    Loose { max_r: u32, max_c: u32 },
}

#[derive(Clone, Debug, PartialEq, Eq)]
pub struct MCf {
    pub tag: u32,
    pub ranges: Vec<MRange>,
}

#[derive(Clone, Debug, PartialEq, Eq)]
pub struct MDim {
    /// height / width tag (>= 1)
    pub size: u32,
    pub hidden: bool,
}

#[derive(Clone, Debug, PartialEq, Eq)]
pub struct MComment {
    pub row: u32,
    pub col: u32,
    pub tag: u32,
}

/// What an insert/remove did (for non-triviality and class labels).
#[derive(Clone, Debug, Default)]
pub struct EditSummary {
    pub moved: u32,
    pub deleted: u32,
    pub grown_or_shrunk: u32,
    pub partial: u32,
    /// object kind x relation labels, e.g. "merge:covered"
    pub labels: BTreeSet<String>,
}

impl EditSummary {
    pub fn nontrivial(&self) -> bool {
        self.moved + self.deleted + self.grown_or_shrunk + self.partial > 0
    }
}

#[derive(Clone, Debug, Default, PartialEq, Eq)]
pub struct MSheet {
    pub name: String,
    /// (row, col) -> cell
    pub cells: BTreeMap<(u32, u32), MCell>,
    pub rows: BTreeMap<u32, MDim>,
    pub cols: BTreeMap<u32, MDim>,
    pub merges: Vec<MRange>,
    pub comments: Vec<MComment>,
    pub cfs: Vec<MCf>,
    pub filter: Option<MRange>,
    /// auxiliary (not part of the projection): rows / columns for which the API created a
    /// default dimension entry as a side effect; they occupy grid space, so the
    /// "insert never pushes existing content past the grid" precondition counts them.
    pub touched_rows: BTreeSet<u32>,
    pub touched_cols: BTreeSet<u32>,
}

fn shift_set_insert(set: &BTreeSet<u32>, p: u32, n: u32) -> BTreeSet<u32> {
    set.iter().map(|&x| ins_idx(x, p, n)).collect()
}

fn shift_set_remove(set: &BTreeSet<u32>, p: u32, n: u32) -> BTreeSet<u32> {
    set.iter()
        .filter_map(|&x| match band_rel(x, x, p, n) {
            BandRel::Before => Some(x),
            BandRel::Beyond => Some(x - n),
            _ => None,
        })
        .collect()
}

impl MSheet {
    pub fn new(name: &str) -> MSheet {
        MSheet {
            name: name.to_string(),
            ..Default::default()
        }
    }

    fn touch(&mut self, row: u32, col: u32) {
        self.touched_rows.insert(row);
        self.touched_cols.insert(col);
    }

    /// `get_cell_mut((col,row)).set_value("v<tag>")`: creates the cell if absent (default
    /// style, no hyperlink), otherwise only the value changes.
    pub fn set_value(&mut self, row: u32, col: u32, tag: u32) {
        self.touch(row, col);
        let e = self.cells.entry((row, col)).or_insert(MCell {
            value: tag,
            style: 0,
            hl: Hl::None,
        });
        e.value = tag;
    }

    pub fn put_cell(&mut self, row: u32, col: u32, cell: MCell) {
        self.touch(row, col);
        self.cells.insert((row, col), cell);
    }

    pub fn remove_cell(&mut self, row: u32, col: u32) -> bool {
        self.cells.remove(&(row, col)).is_some()
    }

    /// Largest index on `axis` occupied by anything at or beyond `from` (0 if nothing).
    pub fn max_used_from(&self, axis: Axis, from: u32) -> u32 {
        let mut m = 0u32;
        let mut see = |s: u32, e: u32| {
            if e >= from && e > m {
                m = e;
            }
            let _ = s;
        };
        for (&(r, c), _) in &self.cells {
            let x = if axis == Axis::Row { r } else { c };
            see(x, x);
        }
        match axis {
            Axis::Row => {
                for (&r, _) in &self.rows {
                    see(r, r);
                }
                for &r in &self.touched_rows {
                    see(r, r);
                }
            }
            Axis::Col => {
                for (&c, _) in &self.cols {
                    see(c, c);
                }
                for &c in &self.touched_cols {
                    see(c, c);
                }
            }
        }
        for c in &self.comments {
            let x = if axis == Axis::Row { c.row } else { c.col };
            see(x, x);
        }
        for r in self.exact_rects() {
            let (s, e) = r.span(axis);
            see(s, e);
        }
        for l in self.all_ranges() {
            if let MRange::Loose { max_r, max_c } = l {
                let e = if axis == Axis::Row { *max_r } else { *max_c };
                see(1, e);
            }
        }
        m
    }

    /// true if a Loose range exists (its extent is unknown, so grid-edge preconditions
    /// cannot be established for inserts any more)
    pub fn has_loose(&self) -> bool {
        self.all_ranges().iter().any(|m| matches!(m, MRange::Loose { .. }))
    }

    pub fn all_ranges(&self) -> Vec<&MRange> {
        let mut v: Vec<&MRange> = self.merges.iter().collect();
        for c in &self.cfs {
            v.extend(c.ranges.iter());
        }
        if let Some(m) = &self.filter {
            v.push(m);
        }
        v
    }

    pub fn exact_rects(&self) -> Vec<Rect> {
        let mut v = Vec::new();
        for m in &self.merges {
            if let MRange::Exact(r) = m {
                v.push(*r);
            }
        }
        for c in &self.cfs {
            for m in &c.ranges {
                if let MRange::Exact(r) = m {
                    v.push(*r);
                }
            }
        }
        if let Some(MRange::Exact(r)) = &self.filter {
            v.push(*r);
        }
        v
    }

    /// Number of range objects that partly overlap the band [p, p+n-1] on `axis`.
    pub fn partial_overlaps(&self, axis: Axis, p: u32, n: u32) -> usize {
        self.exact_rects()
            .iter()
            .filter(|r| {
                let (s, e) = r.span(axis);
                band_rel(s, e, p, n) == BandRel::Partial
            })
            .count()
    }

    /// (object kind, clipped rectangle) for every range object that partly overlaps the band.
    pub fn partial_clips(&self, axis: Axis, p: u32, n: u32) -> Vec<(&'static str, Rect)> {
        let mut out = Vec::new();
        let mut one = |kind: &'static str, m: &MRange| {
            if let MRange::Exact(r) = m {
                let (s, e) = r.span(axis);
                if band_rel(s, e, p, n) == BandRel::Partial {
                    let (ns, ne) = clip_span(s, e, p, n);
                    out.push((kind, r.with_span(axis, ns, ne)));
                }
            }
        };
        for m in &self.merges {
            one("merge", m);
        }
        for c in &self.cfs {
            for m in &c.ranges {
                one("cf", m);
            }
        }
        if let Some(m) = &self.filter {
            one("filter", m);
        }
        out
    }

    pub fn insert(&mut self, axis: Axis, p: u32, n: u32) -> EditSummary {
        let mut sum = EditSummary::default();
        // cells (hyperlinks travel with them)
        let old = std::mem::take(&mut self.cells);
        for ((r, c), cell) in old {
            let (nr, nc) = match axis {
                Axis::Row => (ins_idx(r, p, n), c),
                Axis::Col => (r, ins_idx(c, p, n)),
            };
            if (nr, nc) != (r, c) {
                sum.moved += 1;
                sum.labels.insert("cell:beyond".into());
                if cell.hl != Hl::None {
                    sum.labels.insert("hyperlink:beyond".into());
                }
            }
            self.cells.insert((nr, nc), cell);
        }
        // dimension settings
        match axis {
            Axis::Row => {
                let old = std::mem::take(&mut self.rows);
                for (r, d) in old {
                    if r >= p {
                        sum.moved += 1;
                        sum.labels.insert("rowdim:beyond".into());
                    }
                    self.rows.insert(ins_idx(r, p, n), d);
                }
                self.touched_rows = shift_set_insert(&self.touched_rows, p, n);
            }
            Axis::Col => {
                let old = std::mem::take(&mut self.cols);
                for (c, d) in old {
                    if c >= p {
                        sum.moved += 1;
                        sum.labels.insert("coldim:beyond".into());
                    }
                    self.cols.insert(ins_idx(c, p, n), d);
                }
                self.touched_cols = shift_set_insert(&self.touched_cols, p, n);
            }
        }
        for c in &mut self.comments {
            let x = if axis == Axis::Row { &mut c.row } else { &mut c.col };
            if *x >= p {
                *x += n;
                sum.moved += 1;
                sum.labels.insert("comment:beyond".into());
            }
        }
        let ins_range = |m: &mut MRange, kind: &str, sum: &mut EditSummary| {
            if let MRange::Loose { max_r, max_c } = m {
                // unknown position: it may or may not have moved; keep the bound conservative
                let b = if axis == Axis::Row { max_r } else { max_c };
                if *b >= p {
                    *b = (*b + n).min(axis.limit());
                }
            }
            if let MRange::Exact(r) = m {
                let (s, e) = r.span(axis);
                let (ns, ne) = (ins_idx(s, p, n), ins_idx(e, p, n));
                if s >= p {
                    sum.moved += 1;
                    sum.labels.insert(format!("{}:beyond", kind));
                } else if e >= p {
                    sum.grown_or_shrunk += 1;
                    sum.labels.insert(format!("{}:straddles", kind));
                }
                *r = r.with_span(axis, ns, ne);
            }
        };
        for m in &mut self.merges {
            ins_range(m, "merge", &mut sum);
        }
        for c in &mut self.cfs {
            for m in &mut c.ranges {
                ins_range(m, "cf", &mut sum);
            }
        }
        if let Some(m) = &mut self.filter {
            ins_range(m, "filter", &mut sum);
        }
        sum
    }

    pub fn remove(&mut self, axis: Axis, p: u32, n: u32) -> EditSummary {
        let mut sum = EditSummary::default();
        let old = std::mem::take(&mut self.cells);
        for ((r, c), cell) in old {
            let x = if axis == Axis::Row { r } else { c };
            let has_hl = cell.hl != Hl::None;
            match band_rel(x, x, p, n) {
                BandRel::Before => {
                    self.cells.insert((r, c), cell);
                }
                BandRel::Beyond => {
                    sum.moved += 1;
                    sum.labels.insert("cell:beyond".into());
                    if has_hl {
                        sum.labels.insert("hyperlink:beyond".into());
                    }
                    let k = if axis == Axis::Row { (r - n, c) } else { (r, c - n) };
                    self.cells.insert(k, cell);
                }
                _ => {
                    sum.deleted += 1;
                    sum.labels.insert("cell:covered".into());
                    if has_hl {
                        sum.labels.insert("hyperlink:covered".into());
                    }
                }
            }
        }
        let dims = |map: &mut BTreeMap<u32, MDim>, kind: &str, sum: &mut EditSummary| {
            let old = std::mem::take(map);
            for (x, d) in old {
                match band_rel(x, x, p, n) {
                    BandRel::Before => {
                        map.insert(x, d);
                    }
                    BandRel::Beyond => {
                        sum.moved += 1;
                        sum.labels.insert(format!("{}:beyond", kind));
                        map.insert(x - n, d);
                    }
                    _ => {
                        sum.deleted += 1;
                        sum.labels.insert(format!("{}:covered", kind));
                    }
                }
            }
        };
        match axis {
            Axis::Row => {
                dims(&mut self.rows, "rowdim", &mut sum);
                self.touched_rows = shift_set_remove(&self.touched_rows, p, n);
            }
            Axis::Col => {
                dims(&mut self.cols, "coldim", &mut sum);
                self.touched_cols = shift_set_remove(&self.touched_cols, p, n);
            }
        }
        let old = std::mem::take(&mut self.comments);
        for mut c in old {
            let x = if axis == Axis::Row { c.row } else { c.col };
            match band_rel(x, x, p, n) {
                BandRel::Before => self.comments.push(c),
                BandRel::Beyond => {
                    sum.moved += 1;
                    sum.labels.insert("comment:beyond".into());
                    if axis == Axis::Row {
                        c.row -= n
                    } else {
                        c.col -= n
                    }
                    self.comments.push(c);
                }
                _ => {
                    sum.deleted += 1;
                    sum.labels.insert("comment:covered".into());
                }
            }
        }
        // ranges: returns None when the range is deleted
        let rem_range = |m: &MRange, kind: &str, sum: &mut EditSummary| -> Option<MRange> {
            match m {
                MRange::Loose { max_r, max_c } => Some(MRange::Loose {
                    max_r: *max_r,
                    max_c: *max_c,
                }),
                MRange::Exact(r) => {
                    let (s, e) = r.span(axis);
                    let rel = band_rel(s, e, p, n);
                    if rel != BandRel::Before {
                        sum.labels.insert(format!("{}:{}", kind, rel.name()));
                    }
                    match rel {
                        BandRel::Before => Some(MRange::Exact(*r)),
                        BandRel::Beyond => {
                            sum.moved += 1;
                            Some(MRange::Exact(r.with_span(axis, s - n, e - n)))
                        }
                        BandRel::Covered => {
                            sum.deleted += 1;
                            None
                        }
                        BandRel::Interior => {
                            sum.grown_or_shrunk += 1;
                            Some(MRange::Exact(r.with_span(axis, s, e - n)))
                        }
                        BandRel::Partial => {
                            sum.partial += 1;
                            Some(MRange::Loose { max_r: r.r2, max_c: r.c2 })
                        }
                    }
                }
            }
        };
        let old = std::mem::take(&mut self.merges);
        for m in old {
            if let Some(x) = rem_range(&m, "merge", &mut sum) {
                self.merges.push(x);
            }
        }
        let old = std::mem::take(&mut self.cfs);
        for c in old {
            let mut ranges = Vec::new();
            for m in &c.ranges {
                if let Some(x) = rem_range(m, "cf", &mut sum) {
                    ranges.push(x);
                }
            }
            // a conditional format all of whose ranges were deleted is itself deleted
            if !ranges.is_empty() {
                self.cfs.push(MCf { tag: c.tag, ranges });
            }
        }
        if let Some(m) = self.filter.take() {
            self.filter = rem_range(&m, "filter", &mut sum);
        }
        sum
    }

    /// Returns the number of source cells.
    pub fn move_range(&mut self, rect: Rect, dr: i64, dc: i64) -> usize {
        let dest = rect.translate(dr, dc);
        let src: Vec<((u32, u32), MCell)> = self
            .cells
            .iter()
            .filter(|(&(r, c), _)| rect.contains(r, c))
            .map(|(k, v)| (*k, v.clone()))
            .collect();
        self.cells.retain(|&(r, c), _| !rect.contains(r, c) && !dest.contains(r, c));
        for ((r, c), mut cell) in src.iter().cloned() {
            if cell.hl != Hl::None {
                cell.hl = Hl::Unspecified;
            }
            let (nr, nc) = ((r as i64 + dr) as u32, (c as i64 + dc) as u32);
            self.put_cell(nr, nc, cell);
        }
        src.len()
    }

    pub fn copy_range(&mut self, rect: Rect, dr: i64, dc: i64) -> usize {
        let src: Vec<((u32, u32), MCell)> = self
            .cells
            .iter()
            .filter(|(&(r, c), _)| rect.contains(r, c))
            .map(|(k, v)| (*k, v.clone()))
            .collect();
        for ((r, c), mut cell) in src.iter().cloned() {
            let (nr, nc) = ((r as i64 + dr) as u32, (c as i64 + dc) as u32);
            let dest_hl = self.cells.get(&(nr, nc)).map(|d| d.hl.clone()).unwrap_or(Hl::None);
            if cell.hl != Hl::None || dest_hl != Hl::None {
                cell.hl = Hl::Unspecified;
            }
            self.put_cell(nr, nc, cell);
        }
        src.len()
    }
}

#[derive(Clone, Debug, Default, PartialEq, Eq)]
pub struct MBook {
    pub sheets: Vec<MSheet>,
}

#[cfg(test)]
mod tests {
    use super::*;

    fn sheet() -> MSheet {
        let mut s = MSheet::new("S");
        s.set_value(2, 2, 1);
        s.set_value(5, 3, 2);
        s.merges.push(MRange::Exact(Rect::new(2, 2, 3, 3)));
        s.comments.push(MComment { row: 5, col: 1, tag: 1 });
        s.rows.insert(5, MDim { size: 3, hidden: false });
        s
    }

    #[test]
    fn remove_undoes_insert() {
        for p in 1..8 {
            for n in 1..4 {
                let s0 = sheet();
                let mut s = s0.clone();
                s.insert(Axis::Row, p, n);
                s.remove(Axis::Row, p, n);
                assert_eq!(s, s0, "p={} n={}", p, n);
                let mut s = s0.clone();
                s.insert(Axis::Col, p, n);
                s.remove(Axis::Col, p, n);
                assert_eq!(s, s0, "col p={} n={}", p, n);
            }
        }
    }

    #[test]
    fn band_relations() {
        assert_eq!(band_rel(2, 3, 2, 2), BandRel::Covered);
        assert_eq!(band_rel(2, 3, 1, 5), BandRel::Covered);
        assert_eq!(band_rel(2, 3, 3, 1), BandRel::Partial);
        assert_eq!(band_rel(2, 5, 3, 2), BandRel::Interior);
        assert_eq!(band_rel(2, 3, 4, 2), BandRel::Before);
        assert_eq!(band_rel(6, 7, 4, 2), BandRel::Beyond);
        let mut s = sheet();
        let sum = s.remove(Axis::Row, 2, 2);
        assert!(s.merges.is_empty());
        assert_eq!(s.cells.get(&(3, 3)).map(|c| c.value), Some(2));
        assert!(s.cells.get(&(2, 2)).is_none());
        assert_eq!(s.comments[0].row, 3);
        assert!(s.rows.contains_key(&3));
        assert!(sum.nontrivial());
    }

    #[test]
    fn move_and_copy() {
        let mut s = sheet();
        s.set_value(3, 3, 9);
        let n = s.move_range(Rect::new(2, 2, 2, 3), 1, 0);
        assert_eq!(n, 1);
        assert!(s.cells.get(&(2, 2)).is_none());
        assert_eq!(s.cells.get(&(3, 2)).map(|c| c.value), Some(1));
        assert!(s.cells.get(&(3, 3)).is_none()); // destination rectangle holds exactly the source cells
        let mut s = sheet();
        s.set_value(3, 3, 9);
        s.copy_range(Rect::new(2, 2, 2, 3), 1, 0);
        assert_eq!(s.cells.get(&(2, 2)).map(|c| c.value), Some(1));
        assert_eq!(s.cells.get(&(3, 2)).map(|c| c.value), Some(1));
        assert_eq!(s.cells.get(&(3, 3)).map(|c| c.value), Some(9));
    }
}
