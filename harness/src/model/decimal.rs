//! Exact decimal rounding on the digit string of the shortest round-trip representation of
//! an f64 (reference model of C19).  No floating point arithmetic is done here: the number
//! is taken apart into its shortest decimal digits and everything else is digit surgery.
//!
//! Cross-checked against Python `decimal` (ROUND_HALF_UP on `Decimal(repr(x))`) by
//! `pytools/selftest_numcsv.py`.

/// A finite decimal number `(-1)^neg * 0.d1 d2 ... dn * 10^point` (`digits` holds d1..dn as
/// values 0..=9, d1 != 0 and dn != 0; zero is the empty digit string with `point == 0`).
#[derive(Clone, Debug, PartialEq, Eq)]
pub struct Dec {
    pub neg: bool,
    pub digits: Vec<u8>,
    pub point: i32,
}

impl Dec {
    pub fn is_zero(&self) -> bool {
        self.digits.is_empty()
    }

    fn normalise(mut self) -> Dec {
        while self.digits.last() == Some(&0) {
            self.digits.pop();
        }
        let lead = self.digits.iter().take_while(|d| **d == 0).count();
        if lead > 0 {
            self.digits.drain(..lead);
            self.point -= lead as i32;
        }
        if self.digits.is_empty() {
            self.point = 0;
        }
        self
    }

    /// Shortest decimal that parses back to `x` (the digits Rust's `{:e}` prints; the same
    /// digits as Python's `repr`).  `x` must be finite.
    pub fn shortest(x: f64) -> Dec {
        assert!(x.is_finite(), "Dec::shortest needs a finite number");
        let s = format!("{:e}", x.abs());
        let (mant, exp) = s.split_once('e').expect("LowerExp prints an exponent");
        let exp: i32 = exp.parse().expect("exponent is an integer");
        let digits: Vec<u8> = mant.bytes().filter(|b| b.is_ascii_digit()).map(|b| b - b'0').collect();
        // mant = d.ddd  => value = 0.dddd * 10^(exp+1)
        Dec {
            neg: x.is_sign_negative(),
            digits,
            point: exp + 1,
        }
        .normalise()
    }

    /// Parse plain positional notation `[-]ddd[.ddd]` (what `f64::to_string` prints).
    pub fn from_plain(s: &str) -> Option<Dec> {
        let (neg, body) = match s.strip_prefix('-') {
            Some(b) => (true, b),
            None => (false, s),
        };
        let (int, frac) = body.split_once('.').unwrap_or((body, ""));
        if int.is_empty() && frac.is_empty() {
            return None;
        }
        if !int.bytes().chain(frac.bytes()).all(|b| b.is_ascii_digit()) {
            return None;
        }
        let digits: Vec<u8> = int.bytes().chain(frac.bytes()).map(|b| b - b'0').collect();
        Some(
            Dec {
                neg,
                digits,
                point: int.len() as i32,
            }
            .normalise(),
        )
    }

    /// The number times 10^k (exact).
    pub fn shift(&self, k: i32) -> Dec {
        let mut d = self.clone();
        if !d.is_zero() {
            d.point += k;
        }
        d
    }

    /// Digit at decimal position `pos`: pos >= 0 counts integer digits from the units digit
    /// upward (0 = units, 1 = tens), pos < 0 counts fraction digits (-1 = tenths).
    fn digit_at(&self, pos: i32) -> u8 {
        // digits[i] has position point-1-i
        let i = self.point - 1 - pos;
        if i < 0 || i as usize >= self.digits.len() {
            0
        } else {
            self.digits[i as usize]
        }
    }

    /// Number of fraction digits in positional notation (0 for integers).
    pub fn frac_len(&self) -> usize {
        let n = self.digits.len() as i32 - self.point;
        if n > 0 {
            n as usize
        } else {
            0
        }
    }

    /// Number of integer digits in positional notation (at least 1: "0").
    pub fn int_len(&self) -> usize {
        if self.point > 0 {
            self.point as usize
        } else {
            1
        }
    }

    /// Plain positional rendering without rounding.
    pub fn to_plain(&self) -> String {
        let r = self.round_half_away(self.frac_len());
        let mut s = String::new();
        if self.neg {
            s.push('-');
        }
        s.push_str(&r.int_digits);
        if !r.frac_digits.is_empty() {
            s.push('.');
            s.push_str(&r.frac_digits);
        }
        s
    }

    /// Round to exactly `decimals` fraction digits, half away from zero.
    pub fn round_half_away(&self, decimals: usize) -> Rounded {
        let d = decimals as i32;
        // positions kept: int_len-1 down to -d
        let top = self.int_len() as i32 - 1;
        let mut kept: Vec<u8> = (-d..=top).rev().map(|p| self.digit_at(p)).collect();
        let first_dropped = self.digit_at(-d - 1);
        // is anything non-zero below the first dropped digit?
        let lowest_pos = self.point - self.digits.len() as i32; // position of the last digit
        let tail_nonzero = !self.is_zero() && lowest_pos < -d - 1;
        let dropped_any = !self.is_zero() && lowest_pos < -d;
        let round_up = first_dropped >= 5;
        let mut carried = 0usize;
        if round_up {
            let mut i = kept.len();
            loop {
                if i == 0 {
                    kept.insert(0, 1);
                    carried += 1;
                    break;
                }
                i -= 1;
                if kept[i] == 9 {
                    kept[i] = 0;
                    carried += 1;
                } else {
                    kept[i] += 1;
                    break;
                }
            }
        }
        let split = kept.len() - decimals;
        let to_s = |v: &[u8]| v.iter().map(|d| (b'0' + d) as char).collect::<String>();
        let all_zero = kept.iter().all(|d| *d == 0);
        Rounded {
            neg: self.neg,
            int_digits: to_s(&kept[..split]),
            frac_digits: to_s(&kept[split..]),
            is_zero: all_zero,
            dropped_any,
            first_dropped,
            exact_half: first_dropped == 5 && !tail_nonzero,
            rounded_up: round_up,
            carry_len: carried,
        }
    }
}

#[derive(Clone, Debug)]
pub struct Rounded {
    pub neg: bool,
    /// integer digits, at least one, no separators
    pub int_digits: String,
    /// exactly `decimals` digits
    pub frac_digits: String,
    /// every kept digit is 0
    pub is_zero: bool,
    /// the number had non-zero digits beyond the kept ones
    pub dropped_any: bool,
    pub first_dropped: u8,
    /// dropped part is exactly one half of the last kept place
    pub exact_half: bool,
    pub rounded_up: bool,
    /// how many digits the carry ran through (0 = last digit simply incremented or no rounding up)
    pub carry_len: usize,
}

pub fn group_thousands(int_digits: &str) -> String {
    let n = int_digits.len();
    let mut out = String::with_capacity(n + n / 3);
    for (i, c) in int_digits.chars().enumerate() {
        if i > 0 && (n - i) % 3 == 0 {
            out.push(',');
        }
        out.push(c);
    }
    out
}

/// What a fixed-decimal / percentage pattern must show.
#[derive(Clone, Debug)]
pub struct Rendering {
    /// with the sign kept (also for results that are all zeros)
    pub text: String,
    /// the same without the sign (differs from `text` only for negative numbers)
    pub text_unsigned: String,
    pub rounded: Rounded,
    /// fraction length of the number that is rounded (after the x100 of a percentage)
    pub frac_len: usize,
    /// first fraction digit of that number is 0 (and there is a fraction)
    pub frac_leading_zero: bool,
}

/// `decimals` fraction digits, optional thousands separators, optional percentage (x100 and `%`).
pub fn render_fixed(x: f64, decimals: usize, thousands: bool, percent: bool) -> Rendering {
    let d0 = Dec::shortest(x);
    let d = if percent { d0.shift(2) } else { d0 };
    let r = d.round_half_away(decimals);
    let mut body = if thousands { group_thousands(&r.int_digits) } else { r.int_digits.clone() };
    if decimals > 0 {
        body.push('.');
        body.push_str(&r.frac_digits);
    }
    if percent {
        body.push('%');
    }
    let text = if r.neg { format!("-{}", body) } else { body.clone() };
    Rendering {
        text,
        text_unsigned: body,
        frac_len: d.frac_len(),
        frac_leading_zero: d.frac_len() > 0 && d.digit_at(-1) == 0,
        rounded: r,
    }
}

#[cfg(test)]
mod tests {
    use super::*;

    #[test]
    fn basics() {
        assert_eq!(render_fixed(1.5, 0, false, false).text, "2");
        assert_eq!(render_fixed(2.5, 0, false, false).text, "3");
        assert_eq!(render_fixed(1.5, 2, false, false).text, "1.50");
        assert_eq!(render_fixed(1.999, 2, false, false).text, "2.00");
        assert_eq!(render_fixed(1.005, 2, false, false).text, "1.01");
        assert_eq!(render_fixed(0.05, 1, false, false).text, "0.1");
        assert_eq!(render_fixed(0.1234, 2, false, true).text, "12.34%");
        assert_eq!(render_fixed(999999.5, 0, true, false).text, "1,000,000");
        assert_eq!(render_fixed(-1234567.891, 1, true, false).text, "-1,234,567.9");
        assert_eq!(render_fixed(1e-7, 6, false, false).text, "0.000000");
        assert_eq!(render_fixed(5e-7, 6, false, false).text, "0.000001");
        assert_eq!(render_fixed(0.0, 2, false, false).text, "0.00");
        assert_eq!(render_fixed(123456789012345.0, 2, true, false).text, "123,456,789,012,345.00");
        assert_eq!(render_fixed(0.00995, 2, false, true).text, "1.00%");
        assert_eq!(Dec::shortest(0.1 + 0.2).to_plain(), "0.30000000000000004");
        assert_eq!(Dec::shortest(1e21).to_plain(), "1000000000000000000000");
        assert_eq!(Dec::from_plain("-12.50").unwrap(), Dec::shortest(-12.5));
    }
}
