//! `verif helper numcsv-selftest [dec|csv|enc ...]`: prints what the reference models of
//! C19/C20 compute for a fixed pseudo-random set of inputs, one JSON object per line.
//! `pytools/selftest_numcsv.py` recomputes every line with Python's `decimal`, `csv` and
//! `codecs` and fails on the first disagreement (DESIGN 3.8).
use crate::engine::splitmix;
use crate::model::csv as mcsv;
use crate::model::decimal::{render_fixed, Dec};
use serde_json::json;
use std::io::Write;

pub fn main(args: &[String]) -> i32 {
    let all = args.is_empty();
    let want = |k: &str| all || args.iter().any(|a| a == k);
    let out = std::io::stdout();
    let mut out = std::io::BufWriter::new(out.lock());
    if want("dec") {
        dec_lines(&mut out);
    }
    if want("csv") {
        csv_lines(&mut out);
    }
    if want("enc") {
        if let Err(e) = enc_lines(&mut out) {
            eprintln!("HARNESS-ERROR: {}", e);
            return 2;
        }
    }
    let _ = out.flush();
    0
}

fn dec_lines(out: &mut impl Write) {
    let mut s = 0xC19_u64;
    let mut emit = |x: f64, k: u64| {
        if !x.is_finite() {
            return;
        }
        let decimals = (k % 7) as usize;
        let thousands = (k / 7) % 2 == 1;
        let percent = (k / 14) % 3 == 2;
        let r = render_fixed(x, decimals, thousands, percent);
        let line = json!({
            "t": "dec", "bits": x.to_bits().to_string(), "decimals": decimals, "thousands": thousands, "percent": percent,
            "out": r.text, "plain": Dec::shortest(x).to_plain(),
            "frac_len": r.frac_len, "exact_half": r.rounded.exact_half, "first_dropped": r.rounded.first_dropped,
        });
        let _ = writeln!(out, "{}", line);
    };
    // hand-picked
    for (i, x) in [
        0.0, -0.0, 0.5, 1.5, 2.5, -2.5, 1.005, 1.999, 0.05, 0.1234, 999.9995, 0.999999, 9.9999995, 1e-7, 5e-7, 1e15, 123456789012345.0, 0.1 + 0.2,
        f64::MAX, f64::MIN_POSITIVE, 5e-324, 1e21, 1e22, 20.275, 0.285, 1234567.891, -0.004, -0.005,
    ]
    .iter()
    .enumerate()
    {
        for k in 0..42 {
            emit(*x, k + i as u64);
        }
    }
    // random bit patterns (whole finite range)
    for k in 0..6000u64 {
        s = splitmix(s);
        emit(f64::from_bits(s), k);
    }
    // up to 15 significant digits, magnitude 1e-7..1e15, fractions near the cut
    for k in 0..14000u64 {
        s = splitmix(s);
        let ndig = 1 + (s % 15) as usize;
        let mut digits = String::new();
        let mut t = s;
        for i in 0..ndig {
            t = splitmix(t);
            let mut d = (t % 10) as u8;
            // bias to 9s, 5s and 0s
            match (t >> 8) % 6 {
                0 => d = 9,
                1 => d = 5,
                2 => d = 0,
                _ => {}
            }
            if i == 0 && d == 0 {
                d = 1;
            }
            digits.push((b'0' + d) as char);
        }
        let point = ((s >> 32) % 22) as i32 - 6; // -6..15
        let neg = (s >> 40) % 3 == 0;
        let text = format!("{}0.{}e{}", if neg { "-" } else { "" }, digits, point);
        emit(text.parse::<f64>().unwrap(), k);
    }
}

fn csv_lines(out: &mut impl Write) {
    let alphabet: Vec<&str> = vec!["a", "b", "c", ",", ",", ";", "\"", "\"", "'", "'", "\r", "\n", "\r\n", " ", "é", "\"\"", "\",\"", "','"];
    let mut s = 0xC20_u64;
    for k in 0..6000u64 {
        s = splitmix(s);
        let n = (s % 14) as usize;
        let mut text = String::new();
        let mut t = s;
        for _ in 0..n {
            t = splitmix(t);
            text.push_str(alphabet[(t % alphabet.len() as u64) as usize]);
        }
        let quote = match k % 3 {
            0 => None,
            1 => Some('"'),
            _ => Some('\''),
        };
        let p = mcsv::parse(&text, ',', quote);
        let line = json!({"t": "csv", "text": text, "quote": quote.map(|c| c.to_string()), "records": p.records});
        let _ = writeln!(out, "{}", line);
    }
}

fn enc_lines(out: &mut impl Write) -> Result<(), String> {
    for enc in mcsv::ENCODINGS {
        let mut chars = mcsv::ascii_alphabet();
        chars.extend(['\t', '\r', '\n']);
        chars.extend(mcsv::non_ascii_alphabet(enc));
        for ch in &chars {
            let s = ch.to_string();
            let bytes = mcsv::encode_for_selftest(enc, &s);
            if mcsv::decode(enc, &bytes).as_deref() != Some(s.as_str()) {
                return Err(format!("{:?} does not survive {} in the harness's own codec", ch, enc));
            }
            let hex: String = bytes.iter().map(|b| format!("{:02x}", b)).collect();
            let line = json!({"t": "enc", "enc": enc, "py": mcsv::py_codec(enc), "ch": s, "hex": hex});
            let _ = writeln!(out, "{}", line);
        }
        let whole: String = chars.iter().collect();
        let bytes = mcsv::encode_for_selftest(enc, &whole);
        if mcsv::decode(enc, &bytes).as_deref() != Some(whole.as_str()) {
            return Err(format!("alphabet of {} does not round-trip as one string", enc));
        }
    }
    Ok(())
}

/// Run the Python cross-check from inside a check (thorough tier).  Returns an error text on
/// disagreement or if the script cannot be run.
pub fn run_python_selftest(parts: &[&str]) -> Result<String, String> {
    let exe = std::env::current_exe().map_err(|e| e.to_string())?;
    let script = format!("{}/pytools/selftest_numcsv.py", crate::engine::verif_root());
    let mut cmd = std::process::Command::new("python3");
    cmd.arg(&script).arg("--bin").arg(&exe);
    for p in parts {
        cmd.arg(p);
    }
    let outp = cmd.output().map_err(|e| format!("cannot run python3 {}: {}", script, e))?;
    let text = format!("{}{}", String::from_utf8_lossy(&outp.stdout), String::from_utf8_lossy(&outp.stderr));
    if outp.status.success() {
        Ok(text.trim().to_string())
    } else {
        Err(text.trim().to_string())
    }
}
