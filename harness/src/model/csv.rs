//! Reference CSV reader (RFC 4180 grammar, parameterised by delimiter and optional quote
//! character) and per-encoding alphabets (reference model of C20).
//!
//! The reader is the lenient "standard parser": it follows the state machine of Python's
//! `csv.reader(delimiter=d, quotechar=q, doublequote=True, strict=False)` (respectively
//! `quoting=QUOTE_NONE` when there is no quote character), with one normalisation: an empty
//! line is a record with one empty field (RFC 4180: `record = field *(COMMA field)`, a field
//! may be empty), where Python returns an empty list.  Everything a strict RFC 4180 parser
//! would reject is reported in `anomalies` but never decides a verdict on its own.
//! Cross-checked against Python `csv` and `codecs` by `pytools/selftest_numcsv.py`.

#[derive(Clone, Debug, Default, PartialEq, Eq)]
pub struct Parsed {
    pub records: Vec<Vec<String>>,
    /// deviations from the strict grammar (quote inside an unquoted field, text after a
    /// closing quote, end of input inside a quoted field)
    pub anomalies: Vec<&'static str>,
}

#[derive(Clone, Copy, PartialEq, Eq, Debug)]
enum St {
    StartRecord,
    StartField,
    InField,
    InQuoted,
    QuoteInQuoted,
}

pub fn parse(text: &str, delimiter: char, quote: Option<char>) -> Parsed {
    let mut out = Parsed::default();
    let mut rec: Vec<String> = Vec::new();
    let mut field = String::new();
    let mut st = St::StartRecord;
    let mut it = text.chars().peekable();
    let is_quote = |c: char| Some(c) == quote;
    // end of a record at a line break: swallow the LF of a CRLF pair
    macro_rules! end_record {
        ($c:expr) => {{
            rec.push(std::mem::take(&mut field));
            out.records.push(std::mem::take(&mut rec));
            if $c == '\r' && it.peek() == Some(&'\n') {
                it.next();
            }
            st = St::StartRecord;
        }};
    }
    while let Some(c) = it.next() {
        match st {
            St::StartRecord | St::StartField => {
                if c == '\n' || c == '\r' {
                    // StartRecord: empty line = one empty field; StartField: trailing empty field
                    end_record!(c);
                } else if is_quote(c) {
                    st = St::InQuoted;
                } else if c == delimiter {
                    rec.push(std::mem::take(&mut field));
                    st = St::StartField;
                } else {
                    field.push(c);
                    st = St::InField;
                }
            }
            St::InField => {
                if c == '\n' || c == '\r' {
                    end_record!(c);
                } else if c == delimiter {
                    rec.push(std::mem::take(&mut field));
                    st = St::StartField;
                } else {
                    if is_quote(c) && !out.anomalies.contains(&"quote-in-unquoted-field") {
                        out.anomalies.push("quote-in-unquoted-field");
                    }
                    field.push(c);
                }
            }
            St::InQuoted => {
                if is_quote(c) {
                    st = St::QuoteInQuoted;
                } else {
                    field.push(c);
                }
            }
            St::QuoteInQuoted => {
                if is_quote(c) {
                    field.push(c);
                    st = St::InQuoted;
                } else if c == delimiter {
                    rec.push(std::mem::take(&mut field));
                    st = St::StartField;
                } else if c == '\n' || c == '\r' {
                    end_record!(c);
                } else {
                    if !out.anomalies.contains(&"text-after-closing-quote") {
                        out.anomalies.push("text-after-closing-quote");
                    }
                    field.push(c);
                    st = St::InField;
                }
            }
        }
    }
    match st {
        St::StartRecord => {}
        St::InQuoted => {
            out.anomalies.push("eof-in-quoted-field");
            rec.push(field);
            out.records.push(rec);
        }
        St::StartField | St::InField | St::QuoteInQuoted => {
            rec.push(field);
            out.records.push(rec);
        }
    }
    out
}

/// The ten encodings of `CsvEncodeValues`, in declaration order.
pub const ENCODINGS: [&str; 10] = [
    "utf_8", "shift_jis", "koi_8_u", "koi_8_r", "iso_8859_8_i", "gbk", "euc_kr", "big_5", "utf_16_le", "utf_16_be",
];

/// Python codec name of an encoding (for the self-test).
pub fn py_codec(enc: &str) -> &'static str {
    match enc {
        "utf_8" => "utf_8",
        "shift_jis" => "shift_jis",
        "koi_8_u" => "koi8_u",
        "koi_8_r" => "koi8_r",
        "iso_8859_8_i" => "iso8859_8",
        "gbk" => "gbk",
        "euc_kr" => "euc_kr",
        "big_5" => "big5",
        "utf_16_le" => "utf_16_le",
        "utf_16_be" => "utf_16_be",
        _ => panic!("unknown encoding {}", enc),
    }
}

/// Printable ASCII, in every alphabet.
pub fn ascii_alphabet() -> Vec<char> {
    (' '..='~').collect()
}

/// Non-ASCII characters the encoding represents unambiguously (same bytes in encoding_rs and
/// in Python's codec of the same name, checked by the self-test).
pub fn non_ascii_alphabet(enc: &str) -> Vec<char> {
    let s: &str = match enc {
        // hiragana, katakana (incl. ソ 0x83 0x5C), kanji (incl. 表 0x95 0x5C, 能 0x94 0x5C), full-width forms,
        // half-width katakana (single bytes 0xA1..0xDF), ideographic space
        "shift_jis" => "あいうえおかきくけこさしすせそんアイウエオソタチツテト漢字日本語東京表能予十申ＡＢＣ１２３ｱｲｳｴｵﾝﾞﾟ、。「」ー\u{3000}",
        // Russian letters, io, and the four Ukrainian pairs that separate KOI8-U from KOI8-R
        "koi_8_u" => "абвгдежзийклмнопрстуфхцчшщъыьэюяАБВГДЕЖЗИЙКЛМНОПРСТУФХЦЧШЩЪЫЬЭЮЯёЁєіїґЄІЇҐ",
        // Russian letters, io, and the eight box-drawing characters KOI8-R has where KOI8-U has Ukrainian letters
        "koi_8_r" => "абвгдежзийклмнопрстуфхцчшщъыьэюяАБВГДЕЖЗИЙКЛМНОПРСТУФХЦЧШЩЪЫЬЭЮЯёЁ╓╕╖╜╢╤╥╫═║",
        "iso_8859_8_i" => "אבגדהוזחטיךכלםמןנסעףפץצקרשת",
        "gbk" => "汉字中文简体测试数据表格你好世界龙马镕",
        "euc_kr" => "한글조선말가나다라마바사아자차카타파하국어데이터",
        "big_5" => "漢字中文繁體測試資料表格你好世界龍馬",
        "utf_8" | "utf_16_le" | "utf_16_be" => "éßΩЖєא日本語한글汉字表ｱ\u{3000}\u{a0}😀𠀋🧪e\u{301}",
        _ => panic!("unknown encoding {}", enc),
    };
    s.chars().collect()
}

/// Decode bytes in the selected encoding with a decoder that is independent of the one the
/// library uses for UTF-8/UTF-16 (std) and uses encoding_rs *decoders* for the legacy
/// encodings (the library only uses the encoders).  `None` = the bytes are not text in that
/// encoding.
pub fn decode(enc: &str, bytes: &[u8]) -> Option<String> {
    match enc {
        "utf_8" => String::from_utf8(bytes.to_vec()).ok(),
        "utf_16_le" | "utf_16_be" => {
            if bytes.len() % 2 != 0 {
                return None;
            }
            let units: Vec<u16> = bytes
                .chunks(2)
                .map(|p| if enc == "utf_16_le" { u16::from_le_bytes([p[0], p[1]]) } else { u16::from_be_bytes([p[0], p[1]]) })
                .collect();
            String::from_utf16(&units).ok()
        }
        _ => {
            let e = match enc {
                "shift_jis" => encoding_rs::SHIFT_JIS,
                "koi_8_u" => encoding_rs::KOI8_U,
                "koi_8_r" => encoding_rs::KOI8_R,
                "iso_8859_8_i" => encoding_rs::ISO_8859_8_I,
                "gbk" => encoding_rs::GBK,
                "euc_kr" => encoding_rs::EUC_KR,
                "big_5" => encoding_rs::BIG5,
                _ => panic!("unknown encoding {}", enc),
            };
            e.decode_without_bom_handling_and_without_replacement(bytes).map(|c| c.into_owned())
        }
    }
}

/// Reference encoder used only by the self-test (what bytes does the alphabet map to).
pub fn encode_for_selftest(enc: &str, s: &str) -> Vec<u8> {
    match enc {
        "utf_8" => s.as_bytes().to_vec(),
        "utf_16_le" => s.encode_utf16().flat_map(|u| u.to_le_bytes()).collect(),
        "utf_16_be" => s.encode_utf16().flat_map(|u| u.to_be_bytes()).collect(),
        _ => {
            let e = match enc {
                "shift_jis" => encoding_rs::SHIFT_JIS,
                "koi_8_u" => encoding_rs::KOI8_U,
                "koi_8_r" => encoding_rs::KOI8_R,
                "iso_8859_8_i" => encoding_rs::ISO_8859_8_I,
                "gbk" => encoding_rs::GBK,
                "euc_kr" => encoding_rs::EUC_KR,
                "big_5" => encoding_rs::BIG5,
                _ => panic!("unknown encoding {}", enc),
            };
            e.encode(s).0.into_owned()
        }
    }
}

#[cfg(test)]
mod tests {
    use super::*;
    fn p(t: &str, q: Option<char>) -> Vec<Vec<String>> {
        parse(t, ',', q).records
    }
    fn v(x: &[&[&str]]) -> Vec<Vec<String>> {
        x.iter().map(|r| r.iter().map(|s| s.to_string()).collect()).collect()
    }
    #[test]
    fn basics() {
        assert_eq!(p("a,b\r\nc,d\r\n", Some('"')), v(&[&["a", "b"], &["c", "d"]]));
        assert_eq!(p("\"a,b\",\"c\"\"d\"\r\n", Some('"')), v(&[&["a,b", "c\"d"]]));
        assert_eq!(p("\"a\r\nb\",c\r\n", Some('"')), v(&[&["a\r\nb", "c"]]));
        assert_eq!(p("\"a\",\r\n", Some('"')), v(&[&["a", ""]]));
        assert_eq!(p("\r\n", Some('"')), v(&[&[""]]));
        assert_eq!(p("", Some('"')), v(&[]));
        assert_eq!(p("a\"b,'c'\r\n", None), v(&[&["a\"b", "'c'"]]));
        assert_eq!(p("'a''b','',\r\n", Some('\'')), v(&[&["a'b", "", ""]]));
        assert_eq!(p("a\nb\rc", Some('"')), v(&[&["a"], &["b"], &["c"]]));
        assert_eq!(p(",\r\n", None), v(&[&["", ""]]));
    }
}
