//! Reference models (DESIGN 2.1): each one is written from the statement of its property,
//! not from the library's code, and cross-checked against an independent implementation.
pub mod csv;
pub mod decimal;
pub mod selftest_numcsv;
