//! Reference models.
pub mod csv;
pub mod decimal;
pub mod grid;
pub mod offcrypto;
pub mod selftest_numcsv;
