//! Reference models (independent re-implementations used as oracles).
pub mod offcrypto;
