//! Reference models.
pub mod grid;
