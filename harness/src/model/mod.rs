//! Reference models.
pub mod grid;
pub mod offcrypto;
