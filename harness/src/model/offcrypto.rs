//! Independent reference for C14/C15, written from the standards, not from the library:
//!
//! * [MS-OFFCRYPTO] 2.3.4.10-2.3.4.15 "agile encryption" (ECMA-376 document encryption):
//!   EncryptionInfo stream (version 4.4, reserved 0x40, XML descriptor), password key
//!   derivation, password verifier, encrypted package key, segment-wise package
//!   decryption, data-integrity HMAC.
//! * ECMA-376 Part 1, 18.2.29 / 18.3.1.85 (and Part 4, 14.7.1) password hash of
//!   `sheetProtection` / `workbookProtection` (`algorithmName`, `saltValue`, `spinCount`,
//!   `hashValue`).
//!
//! Shared with the library: only the primitive crates `aes` (block cipher), `sha2`, `hmac`
//! and the `cfb` container reader.  CBC chaining, base64, the XML descriptor parser, all
//! block keys and all iteration orders are written here.  The two hash iterations are
//! cross-checked against Python `hashlib`/`hmac` by `pytools/offcrypto_selftest.py`
//! through `verif helper offcrypto-vectors`.
use aes::cipher::generic_array::GenericArray;
use aes::cipher::{BlockDecrypt, BlockEncrypt, KeyInit};
use hmac::{Hmac, Mac};
use sha2::{Digest, Sha256, Sha384, Sha512};
use std::io::Read;

// ---------------------------------------------------------------------------------------
// primitives

#[derive(Clone, Copy, Debug, PartialEq, Eq)]
pub enum HashAlg {
    Sha256,
    Sha384,
    Sha512,
}

impl HashAlg {
    /// Names of the EncryptionInfo descriptor ([MS-OFFCRYPTO] 2.3.4.10: "SHA256", ...).
    pub fn from_descriptor_name(s: &str) -> Option<HashAlg> {
        match s {
            "SHA256" => Some(HashAlg::Sha256),
            "SHA384" => Some(HashAlg::Sha384),
            "SHA512" => Some(HashAlg::Sha512),
            _ => None,
        }
    }
    /// Names of the `algorithmName` attribute (ECMA-376 Part 1, 18.8 / Part 4 14.7.1: "SHA-512", ...).
    pub fn from_protection_name(s: &str) -> Option<HashAlg> {
        match s {
            "SHA-256" => Some(HashAlg::Sha256),
            "SHA-384" => Some(HashAlg::Sha384),
            "SHA-512" => Some(HashAlg::Sha512),
            _ => None,
        }
    }
    pub fn size(self) -> usize {
        match self {
            HashAlg::Sha256 => 32,
            HashAlg::Sha384 => 48,
            HashAlg::Sha512 => 64,
        }
    }
}

pub fn hash(alg: HashAlg, parts: &[&[u8]]) -> Vec<u8> {
    match alg {
        HashAlg::Sha256 => {
            let mut h = Sha256::new();
            for p in parts {
                h.update(p);
            }
            h.finalize().to_vec()
        }
        HashAlg::Sha384 => {
            let mut h = Sha384::new();
            for p in parts {
                h.update(p);
            }
            h.finalize().to_vec()
        }
        HashAlg::Sha512 => {
            let mut h = Sha512::new();
            for p in parts {
                h.update(p);
            }
            h.finalize().to_vec()
        }
    }
}

pub fn hmac(alg: HashAlg, key: &[u8], data: &[u8]) -> Vec<u8> {
    match alg {
        HashAlg::Sha256 => {
            let mut m = <Hmac<Sha256> as Mac>::new_from_slice(key).expect("hmac key");
            m.update(data);
            m.finalize().into_bytes().to_vec()
        }
        HashAlg::Sha384 => {
            let mut m = <Hmac<Sha384> as Mac>::new_from_slice(key).expect("hmac key");
            m.update(data);
            m.finalize().into_bytes().to_vec()
        }
        HashAlg::Sha512 => {
            let mut m = <Hmac<Sha512> as Mac>::new_from_slice(key).expect("hmac key");
            m.update(data);
            m.finalize().into_bytes().to_vec()
        }
    }
}

pub fn utf16le(s: &str) -> Vec<u8> {
    let mut v = Vec::with_capacity(s.len() * 2);
    for u in s.encode_utf16() {
        v.extend_from_slice(&u.to_le_bytes());
    }
    v
}

/// Truncate, or extend with 0x36, to exactly `n` bytes ([MS-OFFCRYPTO] 2.3.4.11/2.3.4.12).
pub fn fit(mut v: Vec<u8>, n: usize) -> Vec<u8> {
    v.resize(n, 0x36);
    v
}

enum AnyAes {
    A128(aes::Aes128),
    A192(aes::Aes192),
    A256(aes::Aes256),
}

impl AnyAes {
    fn new(key: &[u8]) -> Result<AnyAes, String> {
        match key.len() {
            16 => Ok(AnyAes::A128(aes::Aes128::new_from_slice(key).map_err(|e| e.to_string())?)),
            24 => Ok(AnyAes::A192(aes::Aes192::new_from_slice(key).map_err(|e| e.to_string())?)),
            32 => Ok(AnyAes::A256(aes::Aes256::new_from_slice(key).map_err(|e| e.to_string())?)),
            n => Err(format!("AES key of {} bytes", n)),
        }
    }
    fn dec(&self, b: &mut [u8; 16]) {
        let ga = GenericArray::from_mut_slice(b);
        match self {
            AnyAes::A128(c) => c.decrypt_block(ga),
            AnyAes::A192(c) => c.decrypt_block(ga),
            AnyAes::A256(c) => c.decrypt_block(ga),
        }
    }
    fn enc(&self, b: &mut [u8; 16]) {
        let ga = GenericArray::from_mut_slice(b);
        match self {
            AnyAes::A128(c) => c.encrypt_block(ga),
            AnyAes::A192(c) => c.encrypt_block(ga),
            AnyAes::A256(c) => c.encrypt_block(ga),
        }
    }
}

/// AES-CBC without padding; `data.len()` must be a multiple of 16 and `iv.len() == 16`.
pub fn aes_cbc_decrypt(key: &[u8], iv: &[u8], data: &[u8]) -> Result<Vec<u8>, String> {
    if iv.len() != 16 {
        return Err(format!("IV of {} bytes", iv.len()));
    }
    if data.len() % 16 != 0 {
        return Err(format!("ciphertext of {} bytes is not a multiple of the block size", data.len()));
    }
    let c = AnyAes::new(key)?;
    let mut prev = [0u8; 16];
    prev.copy_from_slice(iv);
    let mut out = Vec::with_capacity(data.len());
    for blk in data.chunks(16) {
        let mut b = [0u8; 16];
        b.copy_from_slice(blk);
        c.dec(&mut b);
        for i in 0..16 {
            b[i] ^= prev[i];
        }
        prev.copy_from_slice(blk);
        out.extend_from_slice(&b);
    }
    Ok(out)
}

/// AES-CBC without padding (used only by the self-test round trip of this module).
pub fn aes_cbc_encrypt(key: &[u8], iv: &[u8], data: &[u8]) -> Result<Vec<u8>, String> {
    if iv.len() != 16 || data.len() % 16 != 0 {
        return Err("bad IV or data length".into());
    }
    let c = AnyAes::new(key)?;
    let mut prev = [0u8; 16];
    prev.copy_from_slice(iv);
    let mut out = Vec::with_capacity(data.len());
    for blk in data.chunks(16) {
        let mut b = [0u8; 16];
        for i in 0..16 {
            b[i] = blk[i] ^ prev[i];
        }
        c.enc(&mut b);
        prev = b;
        out.extend_from_slice(&b);
    }
    Ok(out)
}

const B64: &[u8; 64] = b"ABCDEFGHIJKLMNOPQRSTUVWXYZabcdefghijklmnopqrstuvwxyz0123456789+/";

/// Strict RFC 4648 base64 (xsd:base64Binary without white space): canonical padding required.
pub fn b64_decode(s: &str) -> Result<Vec<u8>, String> {
    let b = s.as_bytes();
    if b.len() % 4 != 0 {
        return Err(format!("base64 length {} is not a multiple of 4", b.len()));
    }
    let mut out = Vec::with_capacity(b.len() / 4 * 3);
    let n = b.len() / 4;
    for (qi, q) in b.chunks(4).enumerate() {
        let mut v = [0u32; 4];
        let mut pad = 0;
        for i in 0..4 {
            if q[i] == b'=' {
                if qi != n - 1 || i < 2 {
                    return Err("misplaced base64 padding".into());
                }
                pad += 1;
            } else {
                if pad > 0 {
                    return Err("data after base64 padding".into());
                }
                v[i] = B64.iter().position(|&c| c == q[i]).ok_or_else(|| format!("byte {:#x} is not base64", q[i]))? as u32;
            }
        }
        let w = (v[0] << 18) | (v[1] << 12) | (v[2] << 6) | v[3];
        out.push((w >> 16) as u8);
        if pad < 2 {
            out.push((w >> 8) as u8);
        }
        if pad < 1 {
            out.push(w as u8);
        }
        if (pad == 2 && (v[1] & 0xf) != 0) || (pad == 1 && (v[2] & 0x3) != 0) {
            return Err("non-canonical base64 tail".into());
        }
    }
    Ok(out)
}

pub fn b64_encode(d: &[u8]) -> String {
    let mut s = String::with_capacity((d.len() + 2) / 3 * 4);
    for c in d.chunks(3) {
        let w = ((c[0] as u32) << 16) | ((*c.get(1).unwrap_or(&0) as u32) << 8) | (*c.get(2).unwrap_or(&0) as u32);
        s.push(B64[(w >> 18) as usize & 63] as char);
        s.push(B64[(w >> 12) as usize & 63] as char);
        s.push(if c.len() > 1 { B64[(w >> 6) as usize & 63] as char } else { '=' });
        s.push(if c.len() > 2 { B64[w as usize & 63] as char } else { '=' });
    }
    s
}

pub fn hex(d: &[u8]) -> String {
    d.iter().map(|b| format!("{:02x}", b)).collect()
}

pub fn unhex(s: &str) -> Option<Vec<u8>> {
    if s.len() % 2 != 0 {
        return None;
    }
    (0..s.len() / 2).map(|i| u8::from_str_radix(s.get(2 * i..2 * i + 2)?, 16).ok()).collect()
}

// ---------------------------------------------------------------------------------------
// the two password iterations

/// [MS-OFFCRYPTO] 2.3.4.11: H0 = H(salt || pw), Hn = H(LE32(n) || Hn-1), n = 0..spin-1.
pub fn agile_iterated_hash(alg: HashAlg, salt: &[u8], password: &str, spin: u32) -> Vec<u8> {
    let mut h = hash(alg, &[salt, &utf16le(password)]);
    for i in 0..spin {
        h = hash(alg, &[&i.to_le_bytes(), &h]);
    }
    h
}

/// [MS-OFFCRYPTO] 2.3.4.11 last step: Hfinal = H(Hn || blockKey), then cut/pad (0x36) to the key size.
pub fn agile_key_from_iterated(alg: HashAlg, iterated: &[u8], block_key: &[u8], key_bytes: usize) -> Vec<u8> {
    fit(hash(alg, &[iterated, block_key]), key_bytes)
}

/// ECMA-376 Part 1 18.2.29 (workbookProtection) / 18.3.1.85 (sheetProtection), Part 4 14.7.1:
/// H0 = H(salt || pw), Hi = H(Hi-1 || LE32(i)), i = 0..spin-1 — counter AFTER the hash.
pub fn ecma_protection_hash(alg: HashAlg, salt: &[u8], password: &str, spin: u32) -> Vec<u8> {
    let mut h = hash(alg, &[salt, &utf16le(password)]);
    for i in 0..spin {
        h = hash(alg, &[&h, &i.to_le_bytes()]);
    }
    h
}

pub const BK_VERIFIER_INPUT: [u8; 8] = [0xfe, 0xa7, 0xd2, 0x76, 0x3b, 0x4b, 0x9e, 0x79];
pub const BK_VERIFIER_VALUE: [u8; 8] = [0xd7, 0xaa, 0x0f, 0x6d, 0x30, 0x61, 0x34, 0x4e];
pub const BK_KEY_VALUE: [u8; 8] = [0x14, 0x6e, 0x0b, 0xe7, 0xab, 0xac, 0xd0, 0xd6];
pub const BK_HMAC_KEY: [u8; 8] = [0x5f, 0xb2, 0xad, 0x01, 0x0c, 0xb9, 0xe1, 0xf6];
pub const BK_HMAC_VALUE: [u8; 8] = [0xa0, 0x67, 0x7f, 0x02, 0xb2, 0x2c, 0x84, 0x33];

pub const NS_ENC: &str = "http://schemas.microsoft.com/office/2006/encryption";
pub const NS_PW: &str = "http://schemas.microsoft.com/office/2006/keyEncryptor/password";
pub const SEGMENT: usize = 4096;

// ---------------------------------------------------------------------------------------
// errors

#[derive(Clone, Debug, PartialEq, Eq)]
pub enum OffErr {
    /// not a compound file / stream missing
    Container(String),
    /// EncryptionInfo version/flags wrong
    Header(String),
    /// XML descriptor malformed or not of the agile schema
    Descriptor(String),
    /// an algorithm this reference does not implement (nothing the standard forbids)
    Unsupported(String),
    /// H(verifierHashInput) != decrypted verifierHashValue
    Verifier,
    /// data-integrity HMAC mismatch
    Hmac(String),
    /// EncryptedPackage stream shape
    Package(String),
}

impl OffErr {
    /// short, stable fragment for finding keys
    pub fn key(&self) -> &'static str {
        match self {
            OffErr::Container(_) => "container",
            OffErr::Header(_) => "info-header",
            OffErr::Descriptor(_) => "info-descriptor",
            OffErr::Unsupported(_) => "unsupported-algorithm",
            OffErr::Verifier => "verifier-mismatch",
            OffErr::Hmac(_) => "hmac-mismatch",
            OffErr::Package(_) => "package-stream",
        }
    }
}

impl std::fmt::Display for OffErr {
    fn fmt(&self, f: &mut std::fmt::Formatter<'_>) -> std::fmt::Result {
        match self {
            OffErr::Container(s) => write!(f, "compound file: {}", s),
            OffErr::Header(s) => write!(f, "EncryptionInfo header: {}", s),
            OffErr::Descriptor(s) => write!(f, "EncryptionInfo descriptor: {}", s),
            OffErr::Unsupported(s) => write!(f, "unsupported: {}", s),
            OffErr::Verifier => write!(f, "password verifier does not match"),
            OffErr::Hmac(s) => write!(f, "data integrity: {}", s),
            OffErr::Package(s) => write!(f, "EncryptedPackage: {}", s),
        }
    }
}

// ---------------------------------------------------------------------------------------
// a minimal namespace-aware XML element reader (elements + attributes; text is ignored)

#[derive(Clone, Debug, Default)]
pub struct XmlEl {
    pub ns: String,
    pub local: String,
    pub attrs: Vec<(String, String)>,
    pub children: Vec<XmlEl>,
}

impl XmlEl {
    pub fn attr(&self, name: &str) -> Option<&str> {
        self.attrs.iter().find(|(k, _)| k == name).map(|(_, v)| v.as_str())
    }
    pub fn child(&self, ns: &str, local: &str) -> Option<&XmlEl> {
        self.children.iter().find(|c| c.ns == ns && c.local == local)
    }
    pub fn children_named<'a>(&'a self, ns: &'a str, local: &'a str) -> impl Iterator<Item = &'a XmlEl> {
        self.children.iter().filter(move |c| c.ns == ns && c.local == local)
    }
}

fn xml_unescape(s: &str) -> Result<String, String> {
    let mut out = String::with_capacity(s.len());
    let mut rest = s;
    while let Some(p) = rest.find('&') {
        out.push_str(&rest[..p]);
        let tail = &rest[p + 1..];
        let semi = tail.find(';').ok_or("unterminated entity")?;
        let ent = &tail[..semi];
        match ent {
            "amp" => out.push('&'),
            "lt" => out.push('<'),
            "gt" => out.push('>'),
            "quot" => out.push('"'),
            "apos" => out.push('\''),
            _ => {
                let cp = if let Some(h) = ent.strip_prefix("#x") {
                    u32::from_str_radix(h, 16).map_err(|_| "bad character reference")?
                } else if let Some(d) = ent.strip_prefix('#') {
                    d.parse::<u32>().map_err(|_| "bad character reference")?
                } else {
                    return Err(format!("unknown entity &{};", ent));
                };
                out.push(char::from_u32(cp).ok_or("bad character reference")?);
            }
        }
        rest = &tail[semi + 1..];
    }
    out.push_str(rest);
    Ok(out)
}

fn is_name_char(c: char) -> bool {
    c.is_alphanumeric() || c == '_' || c == '-' || c == '.' || c == ':'
}

/// Parses one document and returns its root element.
pub fn parse_xml(text: &str) -> Result<XmlEl, String> {
    let text = text.strip_prefix('\u{feff}').unwrap_or(text);
    // stack of (element, namespace bindings declared on it)
    let mut stack: Vec<(XmlEl, Vec<(String, String)>, String)> = Vec::new();
    let mut root: Option<XmlEl> = None;
    let mut i = 0usize;
    let b = text.as_bytes();
    while i < b.len() {
        if b[i] != b'<' {
            // character data: only white space is allowed outside the root
            let next = text[i..].find('<').map(|p| i + p).unwrap_or(b.len());
            if stack.is_empty() && !text[i..next].trim().is_empty() {
                return Err("text outside the root element".into());
            }
            i = next;
            continue;
        }
        if text[i..].starts_with("<?") {
            let e = text[i..].find("?>").ok_or("unterminated processing instruction")?;
            i += e + 2;
            continue;
        }
        if text[i..].starts_with("<!--") {
            let e = text[i..].find("-->").ok_or("unterminated comment")?;
            i += e + 3;
            continue;
        }
        if text[i..].starts_with("<!") {
            return Err("DOCTYPE/CDATA not expected in an EncryptionInfo descriptor".into());
        }
        if text[i..].starts_with("</") {
            let e = text[i..].find('>').ok_or("unterminated end tag")?;
            let name = text[i + 2..i + e].trim();
            let (el, _, qname) = stack.pop().ok_or("end tag without start tag")?;
            if qname != name {
                return Err(format!("end tag </{}> closes <{}>", name, qname));
            }
            i += e + 1;
            match stack.last_mut() {
                Some(parent) => parent.0.children.push(el),
                None => {
                    if root.is_some() {
                        return Err("two root elements".into());
                    }
                    root = Some(el);
                }
            }
            continue;
        }
        // start tag
        if root.is_some() && stack.is_empty() {
            return Err("two root elements".into());
        }
        let mut j = i + 1;
        let name_start = j;
        while j < b.len() && is_name_char(text[j..].chars().next().unwrap()) {
            j += text[j..].chars().next().unwrap().len_utf8();
        }
        let qname = text[name_start..j].to_string();
        if qname.is_empty() {
            return Err("empty element name".into());
        }
        let mut raw_attrs: Vec<(String, String)> = Vec::new();
        let self_closing;
        loop {
            while j < b.len() && (b[j] as char).is_ascii_whitespace() {
                j += 1;
            }
            if j >= b.len() {
                return Err("unterminated start tag".into());
            }
            if b[j] == b'>' {
                self_closing = false;
                j += 1;
                break;
            }
            if text[j..].starts_with("/>") {
                self_closing = true;
                j += 2;
                break;
            }
            let an = j;
            while j < b.len() && is_name_char(text[j..].chars().next().unwrap()) {
                j += text[j..].chars().next().unwrap().len_utf8();
            }
            let aname = text[an..j].to_string();
            if aname.is_empty() {
                return Err(format!("unexpected byte {:?} in start tag", b[j] as char));
            }
            while j < b.len() && (b[j] as char).is_ascii_whitespace() {
                j += 1;
            }
            if j >= b.len() || b[j] != b'=' {
                return Err(format!("attribute {} without value", aname));
            }
            j += 1;
            while j < b.len() && (b[j] as char).is_ascii_whitespace() {
                j += 1;
            }
            if j >= b.len() || (b[j] != b'"' && b[j] != b'\'') {
                return Err(format!("attribute {} value not quoted", aname));
            }
            let q = b[j];
            j += 1;
            let vs = j;
            while j < b.len() && b[j] != q {
                if b[j] == b'<' {
                    return Err("'<' in attribute value".into());
                }
                j += 1;
            }
            if j >= b.len() {
                return Err("unterminated attribute value".into());
            }
            let val = xml_unescape(&text[vs..j])?;
            j += 1;
            if raw_attrs.iter().any(|(k, _)| *k == aname) {
                return Err(format!("duplicate attribute {}", aname));
            }
            raw_attrs.push((aname, val));
        }
        // namespace bindings
        let mut binds: Vec<(String, String)> = Vec::new();
        let mut attrs = Vec::new();
        for (k, v) in raw_attrs {
            if k == "xmlns" {
                binds.push((String::new(), v));
            } else if let Some(p) = k.strip_prefix("xmlns:") {
                binds.push((p.to_string(), v));
            } else {
                attrs.push((k, v));
            }
        }
        let (prefix, local) = match qname.split_once(':') {
            Some((p, l)) => (p.to_string(), l.to_string()),
            None => (String::new(), qname.clone()),
        };
        let mut ns: Option<String> = binds.iter().find(|(p, _)| *p == prefix).map(|(_, u)| u.clone());
        if ns.is_none() {
            for (_, bs, _) in stack.iter().rev() {
                if let Some((_, u)) = bs.iter().find(|(p, _)| *p == prefix) {
                    ns = Some(u.clone());
                    break;
                }
            }
        }
        let ns = match ns {
            Some(u) => u,
            None if prefix.is_empty() => String::new(),
            None => return Err(format!("undeclared namespace prefix {}", prefix)),
        };
        let el = XmlEl { ns, local, attrs, children: Vec::new() };
        if self_closing {
            match stack.last_mut() {
                Some(parent) => parent.0.children.push(el),
                None => root = Some(el),
            }
        } else {
            stack.push((el, binds, qname));
        }
        i = j;
    }
    if !stack.is_empty() {
        return Err("unclosed element".into());
    }
    root.ok_or_else(|| "no root element".to_string())
}

// ---------------------------------------------------------------------------------------
// EncryptionInfo (agile)

#[derive(Clone, Debug)]
pub struct CipherParams {
    pub salt_size: usize,
    pub block_size: usize,
    pub key_bits: usize,
    pub hash_size: usize,
    pub hash: HashAlg,
    pub salt: Vec<u8>,
}

#[derive(Clone, Debug)]
pub struct PasswordEncryptor {
    pub params: CipherParams,
    pub spin_count: u32,
    pub encrypted_verifier_hash_input: Vec<u8>,
    pub encrypted_verifier_hash_value: Vec<u8>,
    pub encrypted_key_value: Vec<u8>,
}

#[derive(Clone, Debug)]
pub struct AgileInfo {
    pub key_data: CipherParams,
    pub encrypted_hmac_key: Vec<u8>,
    pub encrypted_hmac_value: Vec<u8>,
    pub password: PasswordEncryptor,
}

fn req<'a>(el: &'a XmlEl, name: &str) -> Result<&'a str, OffErr> {
    el.attr(name).ok_or_else(|| OffErr::Descriptor(format!("<{}> has no attribute {}", el.local, name)))
}

fn req_num(el: &XmlEl, name: &str) -> Result<usize, OffErr> {
    let s = req(el, name)?;
    s.parse::<usize>().map_err(|_| OffErr::Descriptor(format!("{}={:?} is not an unsigned integer", name, s)))
}

fn req_b64(el: &XmlEl, name: &str) -> Result<Vec<u8>, OffErr> {
    let s = req(el, name)?;
    b64_decode(s).map_err(|e| OffErr::Descriptor(format!("{}: {}", name, e)))
}

fn cipher_params(el: &XmlEl) -> Result<CipherParams, OffErr> {
    let salt_size = req_num(el, "saltSize")?;
    let block_size = req_num(el, "blockSize")?;
    let key_bits = req_num(el, "keyBits")?;
    let hash_size = req_num(el, "hashSize")?;
    let cipher = req(el, "cipherAlgorithm")?;
    let chaining = req(el, "cipherChaining")?;
    let hash_name = req(el, "hashAlgorithm")?;
    let salt = req_b64(el, "saltValue")?;
    if cipher != "AES" {
        return Err(OffErr::Unsupported(format!("cipherAlgorithm {}", cipher)));
    }
    if chaining != "ChainingModeCBC" {
        return Err(OffErr::Unsupported(format!("cipherChaining {}", chaining)));
    }
    let hash = HashAlg::from_descriptor_name(hash_name).ok_or_else(|| OffErr::Unsupported(format!("hashAlgorithm {}", hash_name)))?;
    if block_size != 16 {
        return Err(OffErr::Descriptor(format!("blockSize {} for AES (must be 16)", block_size)));
    }
    if !matches!(key_bits, 128 | 192 | 256) {
        return Err(OffErr::Descriptor(format!("keyBits {} for AES", key_bits)));
    }
    if hash_size != hash.size() {
        return Err(OffErr::Descriptor(format!("hashSize {} for {}", hash_size, hash_name)));
    }
    if !(1..=65536).contains(&salt_size) || salt.len() != salt_size {
        return Err(OffErr::Descriptor(format!("saltSize {} but saltValue has {} bytes", salt_size, salt.len())));
    }
    Ok(CipherParams { salt_size, block_size, key_bits, hash_size, hash, salt })
}

/// Parses the EncryptionInfo stream of an agile-encrypted document.
pub fn parse_encryption_info(stream: &[u8]) -> Result<AgileInfo, OffErr> {
    if stream.len() < 8 {
        return Err(OffErr::Header(format!("stream of {} bytes", stream.len())));
    }
    let major = u16::from_le_bytes([stream[0], stream[1]]);
    let minor = u16::from_le_bytes([stream[2], stream[3]]);
    let flags = u32::from_le_bytes([stream[4], stream[5], stream[6], stream[7]]);
    if major != 4 || minor != 4 {
        return Err(OffErr::Header(format!("version {}.{} (agile is 4.4)", major, minor)));
    }
    if flags != 0x40 {
        return Err(OffErr::Header(format!("reserved field {:#x} (must be 0x40)", flags)));
    }
    let text = std::str::from_utf8(&stream[8..]).map_err(|e| OffErr::Descriptor(format!("not UTF-8: {}", e)))?;
    let root = parse_xml(text).map_err(OffErr::Descriptor)?;
    if root.ns != NS_ENC || root.local != "encryption" {
        return Err(OffErr::Descriptor(format!("root element {{{}}}{}", root.ns, root.local)));
    }
    let kd = root.child(NS_ENC, "keyData").ok_or_else(|| OffErr::Descriptor("no keyData".into()))?;
    let key_data = cipher_params(kd)?;
    let di = root.child(NS_ENC, "dataIntegrity").ok_or_else(|| OffErr::Descriptor("no dataIntegrity".into()))?;
    let encrypted_hmac_key = req_b64(di, "encryptedHmacKey")?;
    let encrypted_hmac_value = req_b64(di, "encryptedHmacValue")?;
    let kes = root.child(NS_ENC, "keyEncryptors").ok_or_else(|| OffErr::Descriptor("no keyEncryptors".into()))?;
    let mut pw: Option<PasswordEncryptor> = None;
    for ke in kes.children_named(NS_ENC, "keyEncryptor") {
        if ke.attr("uri") != Some(NS_PW) {
            continue;
        }
        let ek = ke.child(NS_PW, "encryptedKey").ok_or_else(|| OffErr::Descriptor("password keyEncryptor without p:encryptedKey".into()))?;
        let params = cipher_params(ek)?;
        let spin = req_num(ek, "spinCount")?;
        if spin > 10_000_000 {
            return Err(OffErr::Descriptor(format!("spinCount {} above the schema maximum", spin)));
        }
        pw = Some(PasswordEncryptor {
            params,
            spin_count: spin as u32,
            encrypted_verifier_hash_input: req_b64(ek, "encryptedVerifierHashInput")?,
            encrypted_verifier_hash_value: req_b64(ek, "encryptedVerifierHashValue")?,
            encrypted_key_value: req_b64(ek, "encryptedKeyValue")?,
        });
        break;
    }
    let password = pw.ok_or_else(|| OffErr::Descriptor("no password keyEncryptor".into()))?;
    Ok(AgileInfo { key_data, encrypted_hmac_key, encrypted_hmac_value, password })
}

// ---------------------------------------------------------------------------------------
// compound file

#[derive(Clone, Debug)]
pub struct Container {
    pub encryption_info: Vec<u8>,
    pub encrypted_package: Vec<u8>,
    /// every stream path of the compound file
    pub streams: Vec<String>,
    /// (path, content) of the streams under \u{6}DataSpaces
    pub dataspaces: Vec<(String, Vec<u8>)>,
}

pub fn open_container(bytes: &[u8]) -> Result<Container, OffErr> {
    let mut cf = cfb::CompoundFile::open(std::io::Cursor::new(bytes)).map_err(|e| OffErr::Container(e.to_string()))?;
    let paths: Vec<String> = cf.walk().filter(|e| e.is_stream()).map(|e| e.path().to_string_lossy().to_string()).collect();
    let mut read = |p: &str| -> Result<Vec<u8>, OffErr> {
        let mut s = cf.open_stream(p).map_err(|e| OffErr::Container(format!("stream {}: {}", p, e)))?;
        let mut v = Vec::new();
        s.read_to_end(&mut v).map_err(|e| OffErr::Container(format!("stream {}: {}", p, e)))?;
        Ok(v)
    };
    let encryption_info = read("/EncryptionInfo")?;
    let encrypted_package = read("/EncryptedPackage")?;
    let mut dataspaces = Vec::new();
    for p in paths.iter() {
        if p.starts_with("/\u{6}DataSpaces/") {
            dataspaces.push((p.clone(), read(p)?));
        }
    }
    Ok(Container { encryption_info, encrypted_package, streams: paths, dataspaces })
}

fn contains_utf16(hay: &[u8], s: &str) -> bool {
    let n = utf16le(s);
    hay.windows(n.len()).any(|w| w == &n[..])
}

/// [MS-OFFCRYPTO] 2.3.4.1-2.3.4.3 + 2.1/2.2: the \u{6}DataSpaces storage of an encrypted
/// OOXML document names the stream `EncryptedPackage`, the data space
/// `StrongEncryptionDataSpace` and the transform `StrongEncryptionTransform`.
pub fn check_dataspaces(c: &Container) -> Result<(), String> {
    let get = |p: &str| c.dataspaces.iter().find(|(q, _)| q == p).map(|(_, d)| d);
    let ver = get("/\u{6}DataSpaces/Version").ok_or("no \\x06DataSpaces/Version stream")?;
    if !contains_utf16(ver, "Microsoft.Container.DataSpaces") {
        return Err("Version stream lacks the feature identifier".into());
    }
    let map = get("/\u{6}DataSpaces/DataSpaceMap").ok_or("no \\x06DataSpaces/DataSpaceMap stream")?;
    if !contains_utf16(map, "EncryptedPackage") || !contains_utf16(map, "StrongEncryptionDataSpace") {
        return Err("DataSpaceMap does not map EncryptedPackage to StrongEncryptionDataSpace".into());
    }
    let info = get("/\u{6}DataSpaces/DataSpaceInfo/StrongEncryptionDataSpace").ok_or("no DataSpaceInfo/StrongEncryptionDataSpace stream")?;
    if !contains_utf16(info, "StrongEncryptionTransform") {
        return Err("DataSpaceInfo does not name StrongEncryptionTransform".into());
    }
    let prim = get("/\u{6}DataSpaces/TransformInfo/StrongEncryptionTransform/\u{6}Primary").ok_or("no TransformInfo/StrongEncryptionTransform/\\x06Primary stream")?;
    if !contains_utf16(prim, "{FF9A3F03-56EF-4613-BDD5-5A41C1D07246}") || !contains_utf16(prim, "Microsoft.Container.EncryptionTransform") {
        return Err("\\x06Primary lacks the transform class id / name".into());
    }
    Ok(())
}

// ---------------------------------------------------------------------------------------
// password verifier, package key, package, integrity

#[derive(Clone, Debug)]
pub struct Secrets {
    /// decrypted verifierHashInput (saltSize bytes)
    pub verifier_input: Vec<u8>,
    /// decrypted encryptedKeyValue (keyBits/8 bytes): the package key
    pub package_key: Vec<u8>,
}

/// [MS-OFFCRYPTO] 2.3.4.13: derive the three keys from the password, decrypt the verifier
/// input and value with IV = password salt, compare H(input) with the value, decrypt the
/// package key.  `Err(OffErr::Verifier)` = wrong password.
pub fn unlock(info: &AgileInfo, password: &str) -> Result<Secrets, OffErr> {
    let pe = &info.password;
    let p = &pe.params;
    let iterated = agile_iterated_hash(p.hash, &p.salt, password, pe.spin_count);
    let kb = p.key_bits / 8;
    let iv = fit(p.salt.clone(), p.block_size);
    let dec = |bk: &[u8], data: &[u8], what: &str| -> Result<Vec<u8>, OffErr> {
        let key = agile_key_from_iterated(p.hash, &iterated, bk, kb);
        aes_cbc_decrypt(&key, &iv, data).map_err(|e| OffErr::Descriptor(format!("{}: {}", what, e)))
    };
    let vin = dec(&BK_VERIFIER_INPUT, &pe.encrypted_verifier_hash_input, "encryptedVerifierHashInput")?;
    let vval = dec(&BK_VERIFIER_VALUE, &pe.encrypted_verifier_hash_value, "encryptedVerifierHashValue")?;
    if vin.len() < p.salt_size {
        return Err(OffErr::Descriptor(format!("verifier input of {} bytes, saltSize {}", vin.len(), p.salt_size)));
    }
    if vval.len() < p.hash_size {
        return Err(OffErr::Descriptor(format!("verifier value of {} bytes, hashSize {}", vval.len(), p.hash_size)));
    }
    let vin = vin[..p.salt_size].to_vec();
    if hash(p.hash, &[&vin])[..] != vval[..p.hash_size] {
        return Err(OffErr::Verifier);
    }
    let kv = dec(&BK_KEY_VALUE, &pe.encrypted_key_value, "encryptedKeyValue")?;
    if kv.len() < info.key_data.key_bits / 8 {
        return Err(OffErr::Descriptor(format!("key value of {} bytes, keyBits {}", kv.len(), info.key_data.key_bits)));
    }
    Ok(Secrets { verifier_input: vin, package_key: kv[..info.key_data.key_bits / 8].to_vec() })
}

#[derive(Clone, Debug)]
pub struct Package {
    /// StreamSize field
    pub declared_len: u64,
    /// all decrypted bytes (including the padding of the last block)
    pub padded: Vec<u8>,
}

impl Package {
    pub fn bytes(&self) -> &[u8] {
        &self.padded[..self.declared_len as usize]
    }
}

/// [MS-OFFCRYPTO] 2.3.4.15: 8-byte little-endian StreamSize, then 4096-byte segments, each
/// AES-CBC under the package key with IV = H(keyData.salt || LE32(segment)) cut/padded to
/// the block size; the last segment is padded to a multiple of the block size.
pub fn decrypt_package(info: &AgileInfo, package_key: &[u8], stream: &[u8]) -> Result<Package, OffErr> {
    if stream.len() < 8 {
        return Err(OffErr::Package(format!("stream of {} bytes has no StreamSize field", stream.len())));
    }
    let declared_len = u64::from_le_bytes(stream[..8].try_into().unwrap());
    let data = &stream[8..];
    let kd = &info.key_data;
    if data.len() % kd.block_size != 0 {
        return Err(OffErr::Package(format!("{} encrypted bytes are not a multiple of the block size", data.len())));
    }
    if declared_len > data.len() as u64 {
        return Err(OffErr::Package(format!("StreamSize {} exceeds the {} encrypted bytes", declared_len, data.len())));
    }
    let mut padded = Vec::with_capacity(data.len());
    for (seg, chunk) in data.chunks(SEGMENT).enumerate() {
        let iv = fit(hash(kd.hash, &[&kd.salt, &(seg as u32).to_le_bytes()]), kd.block_size);
        padded.extend(aes_cbc_decrypt(package_key, &iv, chunk).map_err(OffErr::Package)?);
    }
    Ok(Package { declared_len, padded })
}

/// [MS-OFFCRYPTO] 2.3.4.14: decrypt the HMAC key and value under the package key with
/// IV = H(keyData.salt || blockKey) and compare with HMAC(key, whole EncryptedPackage
/// stream including the StreamSize field).  Returns the decrypted HMAC key.
pub fn check_integrity(info: &AgileInfo, package_key: &[u8], stream: &[u8]) -> Result<Vec<u8>, OffErr> {
    let kd = &info.key_data;
    let iv_k = fit(hash(kd.hash, &[&kd.salt, &BK_HMAC_KEY]), kd.block_size);
    let iv_v = fit(hash(kd.hash, &[&kd.salt, &BK_HMAC_VALUE]), kd.block_size);
    let k = aes_cbc_decrypt(package_key, &iv_k, &info.encrypted_hmac_key).map_err(|e| OffErr::Hmac(format!("encryptedHmacKey: {}", e)))?;
    let v = aes_cbc_decrypt(package_key, &iv_v, &info.encrypted_hmac_value).map_err(|e| OffErr::Hmac(format!("encryptedHmacValue: {}", e)))?;
    if k.len() < kd.hash_size || v.len() < kd.hash_size {
        return Err(OffErr::Hmac(format!("decrypted HMAC key/value of {}/{} bytes, hashSize {}", k.len(), v.len(), kd.hash_size)));
    }
    let key = &k[..kd.hash_size];
    let want = hmac(kd.hash, key, stream);
    if want[..] != v[..kd.hash_size] {
        // diagnosis only: which wrong coverage would have matched
        let alt = if stream.len() >= 8 && hmac(kd.hash, key, &stream[8..])[..] == v[..kd.hash_size] {
            " (matches an HMAC over the stream WITHOUT its 8-byte StreamSize field)"
        } else {
            ""
        };
        return Err(OffErr::Hmac(format!("stored value {} != HMAC over the EncryptedPackage stream {}{}", hex(&v[..kd.hash_size]), hex(&want), alt)));
    }
    Ok(key.to_vec())
}

#[derive(Clone, Debug)]
pub struct Decrypted {
    pub info: AgileInfo,
    pub secrets: Secrets,
    pub hmac_key: Vec<u8>,
    pub package: Package,
    pub encrypted_len: usize,
}

/// Everything a consumer does with the right password.
pub fn decrypt_file(bytes: &[u8], password: &str) -> Result<Decrypted, OffErr> {
    let c = open_container(bytes)?;
    let info = parse_encryption_info(&c.encryption_info)?;
    let secrets = unlock(&info, password)?;
    let package = decrypt_package(&info, &secrets.package_key, &c.encrypted_package)?;
    let hmac_key = check_integrity(&info, &secrets.package_key, &c.encrypted_package)?;
    Ok(Decrypted { info, secrets, hmac_key, package, encrypted_len: c.encrypted_package.len() - 8 })
}

// ---------------------------------------------------------------------------------------
// self-test support (`verif helper offcrypto-vectors`, compared with hashlib by pytools)

/// Deterministic vectors: for each (salt, password, spin) prints both iterations, a derived
/// key, a segment IV and an HMAC, as one JSON line each.
pub fn selftest_vectors() -> Vec<serde_json::Value> {
    let pws = ["", "a", "password", "Pässwörd", "\u{1F600}\u{20BB7}x", "日本語のパスワード", "0123456789abcdef0123456789abcdef0123456789abcdef"];
    let spins = [0u32, 1, 2, 255, 256, 257, 1000, 100000];
    let mut out = Vec::new();
    let mut x = 0x0ffc_c14u64;
    for (pi, pw) in pws.iter().enumerate() {
        for (si, spin) in spins.iter().enumerate() {
            if *spin == 100000 && pi % 3 != 1 {
                continue;
            }
            let mut salt = Vec::new();
            for _ in 0..2 {
                x = crate::engine::splitmix(x);
                salt.extend_from_slice(&x.to_le_bytes());
            }
            let alg = [HashAlg::Sha512, HashAlg::Sha256, HashAlg::Sha384][(pi + si) % 3];
            let it = agile_iterated_hash(alg, &salt, pw, *spin);
            let key = agile_key_from_iterated(alg, &it, &BK_KEY_VALUE, 32);
            let key40 = agile_key_from_iterated(HashAlg::Sha256, &agile_iterated_hash(HashAlg::Sha256, &salt, pw, 3), &BK_VERIFIER_INPUT, 40);
            let iv = fit(hash(alg, &[&salt, &(si as u32 + 7).to_le_bytes()]), 16);
            let mac = hmac(alg, &key, &it);
            out.push(serde_json::json!({
                "alg": match alg { HashAlg::Sha256 => "sha256", HashAlg::Sha384 => "sha384", HashAlg::Sha512 => "sha512" },
                "salt": hex(&salt), "password": pw, "spin": spin, "segment": si as u32 + 7,
                "agile_iterated": hex(&it), "agile_key_value_key": hex(&key), "agile_key40_sha256_spin3": hex(&key40),
                "segment_iv": hex(&iv), "hmac_key_over_iterated": hex(&mac),
                "ecma_protection_hash": hex(&ecma_protection_hash(alg, &salt, pw, *spin)),
                "b64_salt": b64_encode(&salt),
            }));
        }
    }
    out
}

/// In-process consistency checks of this module (CBC round trip incl. the NIST SP 800-38A
/// F.2.5 vector, base64 round trip, XML reader).  Returns the first problem.
pub fn internal_selftest() -> Result<(), String> {
    // NIST SP 800-38A F.2.5 CBC-AES256.Encrypt, first two blocks
    let key = unhex("603deb1015ca71be2b73aef0857d77811f352c073b6108d72d9810a30914dff4").unwrap();
    let iv = unhex("000102030405060708090a0b0c0d0e0f").unwrap();
    let pt = unhex("6bc1bee22e409f96e93d7e117393172aae2d8a571e03ac9c9eb76fac45af8e51").unwrap();
    let ct = unhex("f58c4c04d6e5f1ba779eabfb5f7bfbd69cfc4e967edb808d679f777bc6702c7d").unwrap();
    if aes_cbc_encrypt(&key, &iv, &pt)? != ct {
        return Err("AES-256-CBC encrypt disagrees with NIST SP 800-38A F.2.5".into());
    }
    if aes_cbc_decrypt(&key, &iv, &ct)? != pt {
        return Err("AES-256-CBC decrypt disagrees with NIST SP 800-38A F.2.6".into());
    }
    // SHA-512("abc"), FIPS 180-4 example
    if hex(&hash(HashAlg::Sha512, &[b"abc"])) != "ddaf35a193617abacc417349ae20413112e6fa4e89a97ea20a9eeee64b55d39a2192992a274fc1a836ba3c23a3feebbd454d4423643ce80e2a9ac94fa54ca49f" {
        return Err("SHA-512(abc) wrong".into());
    }
    for n in 0..70usize {
        let d: Vec<u8> = (0..n).map(|i| (i * 37 + n) as u8).collect();
        let e = b64_encode(&d);
        if b64_decode(&e)? != d {
            return Err(format!("base64 round trip of {} bytes", n));
        }
    }
    if b64_decode("QUJD").ok() != Some(b"ABC".to_vec()) || b64_decode("QQ==").ok() != Some(b"A".to_vec()) || b64_decode("QR==").is_ok() || b64_decode("Q").is_ok() {
        return Err("base64 decoder".into());
    }
    let x = parse_xml("<?xml version=\"1.0\"?>\n<a xmlns=\"u:a\" xmlns:p=\"u:p\"><b k=\"1&amp;2\"/><p:c z='q'><b/></p:c></a>\n")?;
    if x.ns != "u:a" || x.children.len() != 2 || x.children[0].attr("k") != Some("1&2") || x.children[1].ns != "u:p" || x.children[1].children[0].ns != "u:a" {
        return Err("XML reader".into());
    }
    if parse_xml("<a><b></a>").is_ok() || parse_xml("<a/><b/>").is_ok() || parse_xml("<q:a/>").is_ok() {
        return Err("XML reader accepts malformed input".into());
    }
    // Calibration on producer-written data: tests/test_files/sheet_lock.xlsx and book_lock.xlsx
    // of the library's corpus were protected in Excel with the password "password"; the
    // stored hashes reproduce under the ECMA iteration (counter after the hash).
    for (salt, want) in [
        ("N8DvRKm4um4fiNmvLew+bg==", "oEel/MXQ7ogqdYEfdCMWm3A47Xs66hnxE2RA70nta8PLtoFSlDr3yldy42MGdjw26yKVjCTQ8sdLdCWEQRdSVw=="),
        ("xky3Pf+j0DvoGxCyoIS9Ag==", "3X2HUk+YksR10YDAQ9M/FEW6l6hq4aVO4E672ZLdTJCZCzwnsUpJfDM5mMM4hhwrGBde1f1TVW/7uZuXNTH/5A=="),
    ] {
        let h = ecma_protection_hash(HashAlg::Sha512, &b64_decode(salt)?, "password", 100000);
        if b64_encode(&h) != want {
            return Err("ECMA protection hash disagrees with an Excel-written sheetProtection/workbookProtection".into());
        }
    }
    // Agreement with the value pinned by the library's own unit test (taken over from
    // xlsx-populate, derived from an Excel-encrypted file): key for encryptedKeyValue.
    let it = agile_iterated_hash(HashAlg::Sha512, &unhex("3aa973eec73c98c4710021730ef5b513").unwrap(), "password", 100000);
    if hex(&agile_key_from_iterated(HashAlg::Sha512, &it, &BK_KEY_VALUE, 32)) != "8d5869311b1c1fdb59a1de6fe1e6f2ce7dccd4deb198a6dfb1f7fb55bc03487d"
        || hex(&agile_key_from_iterated(HashAlg::Sha512, &it, &BK_VERIFIER_INPUT, 32)) != "44e4b664c512b08e7577aa3fc7e11ad603e0877a476931fad5aa79e203304aff"
    {
        return Err("agile key derivation disagrees with the published xlsx-populate/Excel vector".into());
    }
    // own encrypt -> own decrypt of a tiny agile package (consistency of the segment logic)
    let info = AgileInfo {
        key_data: CipherParams { salt_size: 16, block_size: 16, key_bits: 256, hash_size: 64, hash: HashAlg::Sha512, salt: (0u8..16).collect() },
        encrypted_hmac_key: vec![],
        encrypted_hmac_value: vec![],
        password: PasswordEncryptor {
            params: CipherParams { salt_size: 16, block_size: 16, key_bits: 256, hash_size: 64, hash: HashAlg::Sha512, salt: (16u8..32).collect() },
            spin_count: 10,
            encrypted_verifier_hash_input: vec![],
            encrypted_verifier_hash_value: vec![],
            encrypted_key_value: vec![],
        },
    };
    let pk: Vec<u8> = (100u8..132).collect();
    let plain: Vec<u8> = (0..9000usize).map(|i| (i % 251) as u8).collect();
    let mut stream = (plain.len() as u64).to_le_bytes().to_vec();
    for (seg, chunk) in plain.chunks(SEGMENT).enumerate() {
        let mut c = chunk.to_vec();
        while c.len() % 16 != 0 {
            c.push(0);
        }
        let iv = fit(hash(HashAlg::Sha512, &[&info.key_data.salt, &(seg as u32).to_le_bytes()]), 16);
        stream.extend(aes_cbc_encrypt(&pk, &iv, &c)?);
    }
    let p = decrypt_package(&info, &pk, &stream).map_err(|e| e.to_string())?;
    if p.bytes() != &plain[..] {
        return Err("segment round trip".into());
    }
    Ok(())
}
