//! C03 — the reader agrees with an independent decoder on valid xlsx files.
//!
//! Two legs:
//!  * `corpus`  (hand-written loop): every readable file of /repo/tests/test_files is loaded
//!    eagerly by the library and decoded by `pytools/ooxml_decode.py`; the two views are
//!    compared on exactly what the statement names.
//!  * `generated` / `dirty` (proptest): files written by the grammar generator
//!    `gen::xlsxgen` (meaning first, then one of the encodings the format allows); the
//!    expectation is the generator's model; the Python decoder must agree with the model
//!    too (else exit 2: oracle bug).
//!
//! Projection compared (nothing else): sheet names in order; per sheet the set of
//! non-blank cells; per cell value (text char for char, numbers by IEEE bits), kind,
//! formula text (shared-formula children expanded), number-format code and the font /
//! fill / border / alignment / protection records reached through `cellXfs`; hyperlink
//! targets and locations; defined names (name, scope, text); table column names.
use super::Prop;
use crate::engine::*;
use crate::gen::xlsxgen;
use crate::pyworker::{self, DCell, DColor, DXf, Decoded};
use rayon::prelude::*;
use serde::{Deserialize, Serialize};
use serde_json::{json, Value};
use std::collections::{BTreeMap, BTreeSet, HashSet};
use std::sync::OnceLock;
use umya_spreadsheet::{Cell, CellRawValue, Color, EnumTrait, Spreadsheet, Style, Worksheet};

pub fn prop() -> Prop {
    Prop {
        id: "C03",
        describe,
        subs,
        extra,
        replay_extra,
        watchdog_s: (1200, 14400),
    }
}

fn describe(ctx: &Ctx) {
    ctx.rule("corpus: each readable file of tests/test_files once (library eager load vs Python decode of the same bytes); generated: xlsx files from the grammar generator (meaning chosen first, then an encoding), expectation = generator model, Python decoder cross-checked against the model. Non-trivial = the file uses >= 2 different cell encodings, or a shared-formula block with a reference above/left of its anchor, or an entity / character reference inside an attribute value; distinct by file content");
    ctx.assume("a text cell holding the empty string and a blank cell are not distinguished (ISBLANK differs, but the library has one representation for both and the statement speaks of values)");
    ctx.assume("edge blanks of a <t>/<v> without xml:space=\"preserve\" may be kept or trimmed (producers always write xml:space when they matter; the generator does too)");
    ctx.assume("style components whose applyX flag is explicitly 0 (on the xf or its cellStyleXfs record) are not compared: Excel ignores the flag, other readers honour it; the generator never writes applyX=\"0\" with a non-default id");
    ctx.assume("built-in number formats whose en-US code differs between ECMA-376 18.8.30 and Excel's behaviour (14, 22, 37-40, 47 and the locale-dependent ids) are compared by numFmtId, all others by code");
    ctx.assume("-0 and 0 are not distinguished");
    ctx.assume("valid xlsx = corpus + the generator's grammar; the generator's output is checked by the validator of DESIGN 3.6 on every case");
}

// ---------------------------------------------------------------------------------------
// discrepancy model

#[derive(Debug, Clone, PartialEq)]
pub struct Disc {
    pub key: String,
    pub detail: String,
}

fn disc(out: &mut Vec<Disc>, key: impl Into<String>, detail: impl Into<String>) {
    out.push(Disc { key: key.into(), detail: detail.into() });
}

fn has_xml_special(s: &str) -> bool {
    s.contains(|c| matches!(c, '<' | '>' | '&' | '"' | '\''))
}

/// How the expected cell is encoded in the file (input feature class of the finding key).
pub fn cell_feature(c: &DCell) -> String {
    let t = c.t.as_deref().unwrap_or("n");
    let mut f = match t {
        "s" => {
            if c.kind == "rich" {
                "sst-rich".to_string()
            } else {
                "sst".to_string()
            }
        }
        "inlineStr" => {
            if c.kind == "rich" {
                "inlineStr-rich".to_string()
            } else {
                "inlineStr".to_string()
            }
        }
        "str" => "str".to_string(),
        "b" => "bool".to_string(),
        "e" => "error".to_string(),
        "d" => "t-d".to_string(),
        "n" => "number".to_string(),
        other => format!("t-{}", other),
    };
    if !c.has_r {
        f.push_str("-no-r");
    }
    f
}

fn lib_kind(c: &Cell) -> &'static str {
    match c.get_raw_value() {
        CellRawValue::String(_) => "text",
        CellRawValue::RichText(_) => "rich",
        CellRawValue::Numeric(_) => "number",
        CellRawValue::Bool(_) => "bool",
        CellRawValue::Error(_) => "error",
        CellRawValue::Lazy(_) => "lazy",
        CellRawValue::Empty => "blank",
    }
}

/// References of a shared-formula master that lie above or left of the master cell.
pub fn master_has_ref_above_left(text: &str, anchor_col: u32, anchor_row: u32) -> bool {
    for (col, row, col_abs, row_abs) in xlsxgen::scan_refs(text) {
        if (!col_abs && col < anchor_col) || (!row_abs && row < anchor_row) {
            return true;
        }
    }
    false
}

fn formula_feature(exp: &DCell) -> String {
    match exp.f_type.as_deref() {
        Some("shared") if !exp.f_master => {
            let text = exp.formula.as_deref().unwrap_or("");
            if text.contains('\'') {
                "shared-child-quoted-sheet".into()
            } else if text.contains("\"\"") {
                "shared-child-doubled-quote".into()
            } else if text.contains('[') {
                "shared-child-bracket".into()
            } else if text.contains(' ') {
                "shared-child-blank".into()
            } else if text.contains('{') {
                "shared-child-array-const".into()
            } else {
                "shared-child".into()
            }
        }
        Some("shared") => "shared-master".into(),
        Some("array") => "array-formula".into(),
        Some("dataTable") => "data-table".into(),
        _ => "formula".into(),
    }
}

fn color_eq(exp: &Option<DColor>, got: &Color) -> Result<(), String> {
    let Some(e) = exp else { return Ok(()) };
    if let Some(rgb) = &e.rgb {
        if e.indexed.is_none() && e.theme.is_none() && !got.get_argb().eq_ignore_ascii_case(rgb) {
            return Err(format!("rgb {} vs {}", rgb, got.get_argb()));
        }
    }
    if let Some(t) = &e.theme {
        if e.rgb.is_none() && e.indexed.is_none() {
            if let Ok(t) = t.trim().parse::<u32>() {
                if *got.get_theme_index() != t {
                    return Err(format!("theme {} vs {}", t, got.get_theme_index()));
                }
            }
        }
    }
    if let Some(i) = &e.indexed {
        if e.rgb.is_none() && e.theme.is_none() {
            if let Ok(i) = i.trim().parse::<u32>() {
                if *got.get_indexed() != i {
                    return Err(format!("indexed {} vs {}", i, got.get_indexed()));
                }
            }
        }
    }
    Ok(())
}

fn parse_f(s: &Option<String>) -> Option<f64> {
    s.as_ref().and_then(|x| x.trim().parse::<f64>().ok())
}

/// built-in ids whose code is the same in ECMA-376 and in every implementation
const SAFE_BUILTIN: [u32; 22] = [0, 1, 2, 3, 4, 9, 10, 11, 12, 13, 15, 16, 17, 18, 19, 20, 21, 45, 46, 48, 49, 0];

fn flag_off(xf: &DXf, pick: fn(&crate::pyworker::DApply) -> Option<bool>) -> bool {
    pick(&xf.apply) == Some(false) || xf.style_apply.as_ref().map_or(false, |a| pick(a) == Some(false))
}

/// Compare the style of one library cell with the resolved cellXfs record.
pub fn compare_style(xf: &DXf, st: &Style, at: &str, out: &mut Vec<Disc>) {
    compare_style_impl(xf, st, at, out)
}

/// A cell without `s` uses cellXfs[0] (ECMA-376 18.3.1.4, default of `s`).
pub fn compare_style_implicit(xf: &DXf, st: &Style, at: &str, out: &mut Vec<Disc>) {
    let mut tmp = Vec::new();
    compare_style_impl(xf, st, at, &mut tmp);
    if !tmp.is_empty() {
        let what: Vec<String> = tmp.iter().map(|d| d.key.clone()).collect();
        disc(out, "implicit-xf0/style-not-applied", format!("{}: the cell has no s attribute, so cellXfs[0] applies, but: {} ({})", at, tmp[0].detail, what.join(", ")));
    }
}

fn compare_style_impl(xf: &DXf, st: &Style, at: &str, out: &mut Vec<Disc>) {
    // number format
    if !flag_off(xf, |a| a.number_format) {
        let got = st.get_number_format();
        let got_code = got.map(|n| n.get_format_code().to_string()).unwrap_or_else(|| "General".to_string());
        let got_id = got.map(|n| *n.get_number_format_id());
        if !xf.num_fmt_builtin {
            let code = xf.num_fmt_code.clone().unwrap_or_default();
            if got_code != code {
                let key = if has_xml_special(&code) { "numfmt-attr-entity/code" } else { "numfmt/code" };
                disc(out, key, format!("{}: numFmtId {} declared code {:?}, library shows {:?}", at, xf.num_fmt_id, code, got_code));
            }
        } else if SAFE_BUILTIN.contains(&xf.num_fmt_id) {
            let code = xf.num_fmt_code.clone().unwrap_or_default();
            if got_code != code {
                disc(out, "numfmt-builtin/code", format!("{}: built-in numFmtId {} is {:?}, library shows {:?}", at, xf.num_fmt_id, code, got_code));
            }
        } else if let Some(id) = got_id {
            if id != xf.num_fmt_id {
                disc(out, "numfmt-builtin/id", format!("{}: built-in numFmtId {}, library shows id {} ({:?})", at, xf.num_fmt_id, id, got_code));
            }
        }
    }
    // font
    if !flag_off(xf, |a| a.font) {
        if let (Some(ef), Some(gf)) = (&xf.font, st.get_font()) {
            let mut d = Vec::new();
            if let Some(n) = &ef.name {
                if gf.get_name() != n {
                    d.push(format!("name {:?} vs {:?}", n, gf.get_name()));
                }
            }
            if let Some(sz) = parse_f(&ef.size) {
                if *gf.get_size() != sz {
                    d.push(format!("size {} vs {}", sz, gf.get_size()));
                }
            }
            if ef.bold != *gf.get_bold() {
                d.push(format!("bold {} vs {}", ef.bold, gf.get_bold()));
            }
            if ef.italic != *gf.get_italic() {
                d.push(format!("italic {} vs {}", ef.italic, gf.get_italic()));
            }
            if ef.strike != *gf.get_strikethrough() {
                d.push(format!("strike {} vs {}", ef.strike, gf.get_strikethrough()));
            }
            let eu = ef.underline.clone().unwrap_or_else(|| "none".into());
            // Font::get_underline() answers "single" for a font without <u>; the typed getter is exact
            let gu = gf.get_font_underline().get_val().get_value_string();
            if eu != gu {
                d.push(format!("underline {} vs {}", eu, gu));
            }
            if let Err(e) = color_eq(&ef.color, gf.get_color()) {
                d.push(format!("color {}", e));
            }
            if !d.is_empty() {
                let key = if ef.name.as_deref().map_or(false, has_xml_special) { "font-attr-entity/differs" } else { "font/differs" };
                disc(out, key, format!("{}: fontId {}: {}", at, xf.font_id, d.join("; ")));
            }
        } else if xf.font.is_some() && st.get_font().is_none() && xf.font_id != 0 {
            disc(out, "font/missing", format!("{}: fontId {} but the library cell has no font", at, xf.font_id));
        }
    }
    // fill
    if !flag_off(xf, |a| a.fill) {
        if let Some(ef) = &xf.fill {
            if ef.kind == "pattern" {
                let ep = ef.pattern.clone().unwrap_or_else(|| "none".into());
                let gp = st.get_fill().and_then(|f| f.get_pattern_fill());
                let gpt = gp.map(|p| p.get_pattern_type().get_value_string().to_string()).unwrap_or_else(|| "none".into());
                let mut d = Vec::new();
                if ep != gpt {
                    d.push(format!("pattern {} vs {}", ep, gpt));
                }
                if let Some(p) = gp {
                    if let (Some(_), Some(gc)) = (&ef.fg, p.get_foreground_color()) {
                        if let Err(e) = color_eq(&ef.fg, gc) {
                            d.push(format!("fg {}", e));
                        }
                    } else if ef.fg.as_ref().map_or(false, |c| c.rgb.is_some()) && p.get_foreground_color().is_none() {
                        d.push("fg colour missing".into());
                    }
                    if let (Some(_), Some(gc)) = (&ef.bg, p.get_background_color()) {
                        if let Err(e) = color_eq(&ef.bg, gc) {
                            d.push(format!("bg {}", e));
                        }
                    }
                }
                if !d.is_empty() {
                    disc(out, "fill/differs", format!("{}: fillId {}: {}", at, xf.fill_id, d.join("; ")));
                }
            }
        }
    }
    // border
    if !flag_off(xf, |a| a.border) {
        if let Some(eb) = &xf.border {
            let gb = st.get_borders();
            let mut d = Vec::new();
            let sides = [
                ("left", &eb.left, gb.map(|b| b.get_left())),
                ("right", &eb.right, gb.map(|b| b.get_right())),
                ("top", &eb.top, gb.map(|b| b.get_top())),
                ("bottom", &eb.bottom, gb.map(|b| b.get_bottom())),
                ("diagonal", &eb.diagonal, gb.map(|b| b.get_diagonal())),
            ];
            for (name, e, g) in sides {
                let es = e.as_ref().and_then(|s| s.style.clone()).unwrap_or_else(|| "none".into());
                let gs = g.map(|b| b.get_border_style().to_string()).unwrap_or_else(|| "none".into());
                if es != gs {
                    d.push(format!("{} {} vs {}", name, es, gs));
                } else if es != "none" {
                    if let (Some(e), Some(g)) = (e, g) {
                        if let Err(x) = color_eq(&e.color, g.get_color()) {
                            d.push(format!("{} colour {}", name, x));
                        }
                    }
                }
            }
            if !d.is_empty() {
                disc(out, "border/differs", format!("{}: borderId {}: {}", at, xf.border_id, d.join("; ")));
            }
        }
    }
    // alignment: the xf's own <alignment> child is the effective record
    if !flag_off(xf, |a| a.alignment) && (xf.alignment.is_some() || xf.style_alignment.is_none()) {
        let ea = xf.alignment.clone().unwrap_or_default();
        let ga = st.get_alignment();
        let gh = ga.map(|a| a.get_horizontal().get_value_string().to_string()).unwrap_or_else(|| "general".into());
        let gv = ga.map(|a| a.get_vertical().get_value_string().to_string()).unwrap_or_else(|| "bottom".into());
        let gw = ga.map(|a| *a.get_wrap_text()).unwrap_or(false);
        let gr = ga.map(|a| *a.get_text_rotation()).unwrap_or(0);
        let mut d = Vec::new();
        let eh = ea.horizontal.clone().unwrap_or_else(|| "general".into());
        let ev = ea.vertical.clone().unwrap_or_else(|| "bottom".into());
        if eh != gh {
            d.push(format!("horizontal {} vs {}", eh, gh));
        }
        if ev != gv {
            d.push(format!("vertical {} vs {}", ev, gv));
        }
        if ea.wrap_text.unwrap_or(false) != gw {
            d.push(format!("wrapText {:?} vs {}", ea.wrap_text, gw));
        }
        let er = ea.text_rotation.as_ref().and_then(|s| s.trim().parse::<u32>().ok()).unwrap_or(0);
        if er != gr {
            d.push(format!("textRotation {} vs {}", er, gr));
        }
        if !d.is_empty() {
            disc(out, "alignment/differs", format!("{}: {}", at, d.join("; ")));
        }
    }
    // protection
    if !flag_off(xf, |a| a.protection) && (xf.protection.is_some() || xf.style_protection.is_none()) {
        let ep = xf.protection.clone().unwrap_or_default();
        let (gl, gh) = match st.get_protection() {
            Some(p) => {
                let mut p = p.clone();
                (*p.get_locked(), *p.get_hidden())
            }
            None => (true, false),
        };
        // the library stores "locked" as a plain bool defaulting to false inside an explicit
        // <protection> element: only the explicitly written values are compared
        let mut d = Vec::new();
        if let Some(l) = ep.locked {
            if l != gl {
                d.push(format!("locked {} vs {}", l, gl));
            }
        }
        if let Some(h) = ep.hidden {
            if h != gh {
                d.push(format!("hidden {} vs {}", h, gh));
            }
        }
        if !d.is_empty() {
            disc(out, "protection/differs", format!("{}: {}", at, d.join("; ")));
        }
    }
}

#[derive(Debug, Clone, Copy, Default)]
pub struct CmpOpt {
    /// compare styles (number format, font, ...) of every expected cell
    pub styles: bool,
    /// stop collecting after this many discrepancies per key
    pub per_key: usize,
}

/// Compare what the library loaded with the expectation (Python decode or generator model).
pub fn compare(expect: &Decoded, book: &Spreadsheet, opt: CmpOpt) -> Vec<Disc> {
    let mut out: Vec<Disc> = Vec::new();
    let sheets = book.get_sheet_collection_no_check();
    if sheets.len() != expect.sheets.len() {
        disc(&mut out, "sheets/count", format!("file has {} sheets, library shows {}", expect.sheets.len(), sheets.len()));
        return out;
    }
    let mut per_key: BTreeMap<String, usize> = BTreeMap::new();
    let limit = if opt.per_key == 0 { 3 } else { opt.per_key };
    for (i, (es, ls)) in expect.sheets.iter().zip(sheets.iter()).enumerate() {
        let mut local: Vec<Disc> = Vec::new();
        let ename = es.name.clone().unwrap_or_default();
        if ls.get_name() != ename {
            let key = if has_xml_special(&ename) { "sheet-name-attr-entity/differs" } else { "sheet-name/differs" };
            disc(&mut local, key, format!("sheet {}: name {:?}, library shows {:?}", i, ename, ls.get_name()));
        }
        if es.kind == "worksheet" {
            compare_sheet(expect, es, ls, opt, &mut local);
        }
        for d in local {
            let n = per_key.entry(d.key.clone()).or_insert(0);
            *n += 1;
            if *n <= limit {
                out.push(d);
            }
        }
    }
    compare_defined_names(expect, book, &mut out);
    out
}

fn compare_sheet(expect: &Decoded, es: &crate::pyworker::DSheet, ls: &Worksheet, opt: CmpOpt, out: &mut Vec<Disc>) {
    let sname = es.name.clone().unwrap_or_default();
    let mut expected_pos: HashSet<(u32, u32)> = HashSet::new();
    let no_r_sheet = es.cells.iter().any(|c| !c.has_r);
    // several cells of a file may claim the same position only in invalid files; cells
    // without r are positioned by the decoder
    for ec in &es.cells {
        expected_pos.insert((ec.col, ec.row));
        let at = format!("{}!{}", sname, ec.r);
        let feat = cell_feature(ec);
        let lc = ls.get_cell((ec.col, ec.row));
        let e_blank = ec.kind == "blank" || ((ec.kind == "text" || ec.kind == "rich") && ec.value.is_empty());
        match lc {
            None => {
                if !e_blank || ec.formula.as_deref().map_or(false, |f| !f.is_empty()) {
                    let key = if ec.has_r { format!("{}/missing", feat) } else { "no-r/cells-misplaced".to_string() };
                    disc(out, key, format!("{}: {} {:?} formula {:?} is not in the loaded sheet", at, ec.kind, truncate(&ec.value, 80), ec.formula));
                }
                continue;
            }
            Some(lc) => {
                if no_r_sheet && (ec.col, ec.row) == (1, 1) {
                    // cells without r all land on A1: whatever A1 shows wrong is that finding
                    let mut tmp = Vec::new();
                    compare_cell(ec, lc, &feat, &at, e_blank, &mut tmp);
                    if let Some(d) = tmp.first() {
                        disc(out, "no-r/cells-misplaced", format!("{} (A1 is where cells without r land)", d.detail));
                    }
                    continue;
                }
                compare_cell(ec, lc, &feat, &at, e_blank, out);
                if opt.styles {
                    if let Some(xf) = expect.styles.cell_xfs.get(ec.s as usize) {
                        if ec.has_s {
                            compare_style(xf, lc.get_style(), &at, out);
                        } else {
                            compare_style_implicit(xf, lc.get_style(), &at, out);
                        }
                    }
                }
            }
        }
    }
    // no phantom content
    for lc in ls.get_cell_collection() {
        let pos = (*lc.get_coordinate().get_col_num(), *lc.get_coordinate().get_row_num());
        if expected_pos.contains(&pos) {
            continue;
        }
        if lib_kind(lc) != "blank" || !lc.get_formula().is_empty() {
            // where did it come from?  cells without r are the usual source
            let no_r = es.cells.iter().any(|c| !c.has_r);
            let key = if no_r { "no-r/cells-misplaced" } else { "cell/phantom" };
            disc(out, key, format!("{}!{}: library shows {} {:?} formula {:?}, the file has no such cell", sname, lc.get_coordinate().to_string(), lib_kind(lc), truncate(&lc.get_value(), 80), lc.get_formula()));
        }
    }
    // hyperlinks
    for h in &es.hyperlinks {
        let Some(r) = &h.r else { continue };
        if r.contains(':') {
            continue; // range hyperlinks: which cell carries them is the library's choice
        }
        let Some((col, row)) = xlsxgen::parse_a1(r) else { continue };
        let got = ls.get_cell((col, row)).and_then(|c| c.get_hyperlink());
        let at = format!("{}!{}", sname, r);
        match (&h.target, &h.location) {
            (Some(t), None) => {
                let ent = if has_xml_special(t) { "-attr-entity" } else { "" };
                match got {
                    None => disc(out, format!("hyperlink{}/missing", ent), format!("{}: external hyperlink {:?} not loaded", at, t)),
                    Some(g) => {
                        if g.get_url() != t || *g.get_location() {
                            disc(out, format!("hyperlink-target{}/differs", ent), format!("{}: Target {:?}, library shows {:?} (location={})", at, t, g.get_url(), g.get_location()));
                        }
                    }
                }
            }
            (None, Some(l)) => {
                let ent = if has_xml_special(l) { "-attr-entity" } else { "" };
                match got {
                    None => disc(out, format!("hyperlink{}/missing", ent), format!("{}: internal hyperlink {:?} not loaded", at, l)),
                    Some(g) => {
                        if g.get_url() != l || !*g.get_location() {
                            disc(out, format!("hyperlink-location{}/differs", ent), format!("{}: location {:?}, library shows {:?} (location={})", at, l, g.get_url(), g.get_location()));
                        }
                    }
                }
            }
            _ => {}
        }
    }
    // table column names
    for t in &es.tables {
        let tname = t.name.clone().or(t.display_name.clone()).unwrap_or_default();
        let got = ls.get_tables().iter().find(|x| x.get_name() == tname || Some(x.get_display_name().to_string()) == t.display_name);
        let exp_cols: Vec<String> = t.columns.iter().map(|c| c.clone().unwrap_or_default()).collect();
        let any_ent = exp_cols.iter().any(|c| has_xml_special(c)) || has_xml_special(&tname);
        let ent = if any_ent { "-attr-entity" } else { "" };
        match got {
            None => disc(out, format!("table{}/missing", ent), format!("{}: table {:?} ({} columns) not loaded", sname, tname, exp_cols.len())),
            Some(g) => {
                let got_cols: Vec<String> = g.get_columns().iter().map(|c| c.get_name().to_string()).collect();
                if got_cols != exp_cols {
                    if got_cols == t.columns_decoded.iter().cloned().collect::<Vec<_>>() {
                        continue;
                    }
                    let xs = exp_cols.iter().zip(t.columns_decoded.iter()).any(|(a, b)| a != b);
                    let key = if xs && got_cols == exp_cols { continue } else { format!("table-column{}/differs", ent) };
                    disc(out, key, format!("{}: table {:?} columns {:?}, library shows {:?}", sname, tname, exp_cols, got_cols));
                }
            }
        }
    }
}

fn compare_cell(ec: &DCell, lc: &Cell, feat: &str, at: &str, e_blank: bool, out: &mut Vec<Disc>) {
    let lk = lib_kind(lc);
    let lv = lc.get_value().to_string();
    let xs = if ec.value.contains("_x") && (ec.t.as_deref() == Some("s") || ec.t.as_deref() == Some("inlineStr") || ec.t.as_deref() == Some("str")) {
        // ST_Xstring escapes are a feature of their own
        true
    } else {
        false
    };
    let _ = xs;
    if ec.kind == "invalid" {
        return;
    }
    // kind
    let ek: &str = if e_blank { "blank" } else { ec.kind.as_str() };
    let l_blank = lk == "blank" || ((lk == "text" || lk == "rich") && lv.is_empty());
    let lk_n: &str = if l_blank { "blank" } else { lk };
    let mut value_checked = false;
    if ek == "date-iso" {
        // the library has no date kind: any rendering that keeps the content is accepted
        if l_blank {
            disc(out, format!("{}/dropped", feat), format!("{}: t=\"d\" value {:?} is not loaded at all", at, ec.value));
        } else if lk == "text" && lv != ec.value {
            disc(out, format!("{}/value", feat), format!("{}: t=\"d\" value {:?}, library shows {:?}", at, ec.value, lv));
        }
        value_checked = true;
    } else if ek != lk_n {
        disc(out, format!("{}/kind:{}->{}", feat, ek, lk_n), format!("{}: the file says {} {:?}, library shows {} {:?}", at, ek, truncate(&ec.value, 80), lk_n, truncate(&lv, 80)));
        value_checked = true;
    }
    if !value_checked {
        match ek {
            "text" | "rich" => {
                let trimmed = ec.value.trim_matches(|c| c == ' ' || c == '\t' || c == '\r' || c == '\n');
                if lv != ec.value && !(ec.ws_ambiguous && lv == trimmed) {
                    if lv.replace("\r\n", "\n") == ec.value {
                        disc(out, "literal-crlf/not-normalised", format!("{}: text {:?}, library shows {:?} (XML 1.0 2.11: CR LF in a document is one LF)", at, truncate(&ec.value, 120), truncate(&lv, 120)));
                        return_formula_only(ec, lc, at, out);
                        return;
                    }
                    if lv.contains("_x") && xlsxgen::xstring_decode(&lv) == ec.value {
                        disc(out, "xstring-escape/not-decoded", format!("{}: text {:?}, library shows the escaped form {:?}", at, truncate(&ec.value, 120), truncate(&lv, 120)));
                        return_formula_only(ec, lc, at, out);
                        return;
                    }
                    let mode = if ec.phonetic && lv.len() > ec.value.len() {
                        "value-includes-phonetic"
                    } else if lv == trimmed {
                        "value-trimmed"
                    } else if ec.runs.as_ref().map_or(false, |r| r.len() > 1 && r.last().map_or(false, |x| x.text == lv)) {
                        "value-last-run-only"
                    } else {
                        "value"
                    };
                    disc(out, format!("{}/{}", feat, mode), format!("{}: text {:?}, library shows {:?}", at, truncate(&ec.value, 120), truncate(&lv, 120)));
                } else if ek == "rich" {
                    if let (Some(runs), CellRawValue::RichText(rt)) = (&ec.runs, lc.get_raw_value()) {
                        let got: Vec<String> = rt.get_rich_text_elements().iter().map(|e| e.get_text().to_string()).collect();
                        let exp: Vec<String> = runs.iter().map(|r| r.text.clone()).collect();
                        if got != exp && !ec.ws_ambiguous {
                            disc(out, format!("{}/runs", feat), format!("{}: runs {:?}, library shows {:?}", at, exp, got));
                        }
                    }
                }
            }
            "number" => {
                let e = ec.number();
                let g = lc.get_value_number();
                match (e, g) {
                    (Some(e), Some(g)) => {
                        if e.to_bits() != g.to_bits() && !(e == 0.0 && g == 0.0) {
                            disc(out, format!("{}/value", feat), format!("{}: number {:?} (= {:e}), library shows {:e}", at, ec.value, e, g));
                        }
                    }
                    _ => disc(out, format!("{}/value", feat), format!("{}: number {:?}, library shows {:?}", at, ec.value, lv)),
                }
            }
            "bool" | "error" => {
                if lv != ec.value {
                    disc(out, format!("{}/value", feat), format!("{}: {} {:?}, library shows {:?}", at, ek, ec.value, lv));
                }
            }
            _ => {}
        }
    }
    return_formula_only(ec, lc, at, out);
}

fn return_formula_only(ec: &DCell, lc: &Cell, at: &str, out: &mut Vec<Disc>) {
    // formula
    if !ec.f_uncertain {
        // blanks in front of / behind a formula carry no meaning
        let ef = ec.formula.clone().unwrap_or_default();
        let ef = ef.trim_matches(|c| c == ' ' || c == '\t' || c == '\r' || c == '\n').to_string();
        let lf = lc.get_formula().trim_matches(|c| c == ' ' || c == '\t' || c == '\r' || c == '\n');
        if ef != lf {
            let ff = formula_feature(ec);
            let mode = if lf.is_empty() {
                "formula-missing"
            } else if ef.is_empty() {
                "formula-phantom"
            } else {
                "formula"
            };
            let mut key = format!("{}/{}", ff, mode);
            if ff == "shared-child" {
                if let (Some(anchor), Some(_)) = (&ec.f_anchor, &ec.formula) {
                    if let Some((ac, ar)) = xlsxgen::parse_a1(anchor) {
                        // the master text is the child text moved back
                        let back = xlsxgen::translate(&ef, ac as i64 - ec.col as i64, ar as i64 - ec.row as i64);
                        if master_has_ref_above_left(&back, ac, ar) {
                            key = "shared-child-ref-above-left/formula".to_string();
                        }
                    }
                }
            }
            disc(out, key, format!("{}: formula {:?} (anchor {:?}), library shows {:?}", at, ef, ec.f_anchor, lf));
        }
    }
}

fn compare_defined_names(expect: &Decoded, book: &Spreadsheet, out: &mut Vec<Disc>) {
    // library: names live on the workbook or on the sheet they refer to / are scoped to
    let mut got: Vec<(String, Option<u32>, String)> = Vec::new();
    for d in book.get_defined_names() {
        got.push((d.get_name().to_string(), if d.has_local_sheet_id() { Some(*d.get_local_sheet_id()) } else { None }, d.get_address()));
    }
    for s in book.get_sheet_collection_no_check() {
        for d in s.get_defined_names() {
            got.push((d.get_name().to_string(), if d.has_local_sheet_id() { Some(*d.get_local_sheet_id()) } else { None }, d.get_address()));
        }
    }
    let mut used = vec![false; got.len()];
    for e in &expect.defined_names {
        let name = e.name.clone().unwrap_or_default();
        let ent = if has_xml_special(&name) { "-attr-entity" } else { "" };
        let hit = got.iter().enumerate().position(|(i, g)| !used[i] && g.0 == name && g.1 == e.local_sheet_id);
        match hit {
            None => {
                disc(out, format!("defined-name{}/missing", ent), format!("defined name {:?} scope {:?} text {:?}: not loaded under that name (library has {:?})", name, e.local_sheet_id, truncate(&e.text, 80), got.iter().map(|g| (&g.0, g.1)).collect::<Vec<_>>()));
            }
            Some(i) => {
                used[i] = true;
                if normalise_sheet_quotes(&got[i].2) != normalise_sheet_quotes(&e.text) {
                    let class = defined_name_text_class(&e.text);
                    disc(out, format!("defined-name-text-{}/differs", class), format!("defined name {:?}: text {:?}, library shows {:?}", name, truncate(&e.text, 120), truncate(&got[i].2, 120)));
                }
            }
        }
    }
    for (i, g) in got.iter().enumerate() {
        if !used[i] {
            disc(out, "defined-name/phantom", format!("library shows defined name {:?} scope {:?} that the file does not have", g.0, g.1));
        }
    }
}

/// `Sheet1!A1` and `'Sheet1'!A1` mean the same: put every sheet prefix into the quoted form.
pub fn normalise_sheet_quotes(text: &str) -> String {
    let chars: Vec<char> = text.chars().collect();
    let mut out = String::new();
    let mut i = 0;
    while i < chars.len() {
        let c = chars[i];
        if c == '"' || c == '\'' {
            let q = c;
            let mut j = i + 1;
            while j < chars.len() {
                if chars[j] == q {
                    if j + 1 < chars.len() && chars[j + 1] == q {
                        j += 2;
                        continue;
                    }
                    break;
                }
                j += 1;
            }
            let end = (j + 1).min(chars.len());
            out.extend(&chars[i..end]);
            i = end;
            continue;
        }
        if c.is_alphanumeric() || c == '_' || (c as u32) >= 0x80 {
            let mut j = i;
            while j < chars.len() && (chars[j].is_alphanumeric() || chars[j] == '_' || chars[j] == '.' || (chars[j] as u32) >= 0x80) {
                j += 1;
            }
            let word: String = chars[i..j].iter().collect();
            if j < chars.len() && chars[j] == '!' {
                out.push('\'');
                out.push_str(&word);
                out.push('\'');
            } else {
                out.push_str(&word);
            }
            i = j;
            continue;
        }
        out.push(c);
        i += 1;
    }
    out
}

fn defined_name_text_class(text: &str) -> &'static str {
    if text.starts_with('"') {
        "string-constant"
    } else if text.contains('\'') {
        "quoted-sheet"
    } else if text.contains(',') {
        "union"
    } else if text.contains('(') {
        "function"
    } else if text.contains('[') {
        "external"
    } else if text.contains("#REF!") {
        "ref-error"
    } else if !text.contains('!') {
        "no-sheet"
    } else {
        "plain"
    }
}

// ---------------------------------------------------------------------------------------
// known keys (so that a verdict names an unknown key first)

fn known_keys() -> &'static HashSet<String> {
    static K: OnceLock<HashSet<String>> = OnceLock::new();
    K.get_or_init(|| load_known().into_iter().filter(|k| k.property == "C03" && k.status == "open").map(|k| k.key).collect())
}

/// One verdict from a list of discrepancies: an unknown key wins over a known one.
pub fn verdict_of(discs: &[Disc]) -> Verdict {
    if discs.is_empty() {
        return Verdict::Pass;
    }
    let known = known_keys();
    let pick = discs.iter().find(|d| !known.contains(&d.key)).unwrap_or(&discs[0]);
    let mut keys: BTreeSet<&str> = BTreeSet::new();
    for d in discs {
        keys.insert(&d.key);
    }
    Verdict::fail(pick.key.clone(), format!("{} [all keys of this case: {}]", pick.detail, keys.into_iter().collect::<Vec<_>>().join(", ")))
}

// ---------------------------------------------------------------------------------------
// corpus leg

pub fn corpus_dir() -> String {
    // the library copy under test (./check may redirect it); tests/test_files is the same in all copies
    let ovr = std::env::var("VERIF_REPO_OVERRIDE").ok().filter(|s| !s.is_empty());
    let from_file = std::fs::read_to_string(format!("{}/.repo_override", verif_root())).ok().map(|s| s.trim().to_string()).filter(|s| !s.is_empty());
    let base = ovr.or(from_file).unwrap_or_else(|| "/repo".to_string());
    let p = format!("{}/tests/test_files", base);
    if std::path::Path::new(&p).is_dir() {
        p
    } else {
        "/repo/tests/test_files".to_string()
    }
}

pub fn corpus_files() -> Vec<String> {
    let mut v: Vec<String> = std::fs::read_dir(corpus_dir())
        .map(|rd| {
            rd.flatten()
                .map(|e| e.file_name().to_string_lossy().to_string())
                .filter(|n| n.ends_with(".xlsx") || n.ends_with(".xlsm"))
                .collect()
        })
        .unwrap_or_default();
    v.sort();
    v
}

#[derive(Debug, Clone, Serialize, Deserialize)]
pub struct CorpusCase {
    pub file: String,
    /// replay only the discrepancies with this key (witness of one finding)
    #[serde(default)]
    pub key: Option<String>,
}

/// Features of a decoded file that make it non-trivial for C03.
pub fn nontrivial_features(d: &Decoded) -> (usize, bool, bool) {
    let mut encodings: BTreeSet<String> = BTreeSet::new();
    let mut above_left = false;
    let mut attr_entity = false;
    for s in &d.sheets {
        if s.name.as_deref().map_or(false, has_xml_special) {
            attr_entity = true;
        }
        let mut masters: BTreeMap<u32, (u32, u32, String)> = BTreeMap::new();
        for c in &s.cells {
            if c.kind != "blank" {
                encodings.insert(cell_feature(c));
            }
            if c.f_type.as_deref() == Some("shared") {
                if c.f_master {
                    if let (Some(si), Some(f)) = (c.f_si, &c.formula) {
                        masters.insert(si, (c.col, c.row, f.clone()));
                    }
                } else if let Some(si) = c.f_si {
                    if let Some((mc, mr, text)) = masters.get(&si) {
                        if master_has_ref_above_left(text, *mc, *mr) {
                            above_left = true;
                        }
                    }
                }
            }
        }
        for h in &s.hyperlinks {
            if h.target.as_deref().map_or(false, has_xml_special) || h.location.as_deref().map_or(false, has_xml_special) {
                attr_entity = true;
            }
        }
        for t in &s.tables {
            if t.columns.iter().any(|c| c.as_deref().map_or(false, has_xml_special)) {
                attr_entity = true;
            }
        }
    }
    for n in &d.defined_names {
        if n.name.as_deref().map_or(false, has_xml_special) {
            attr_entity = true;
        }
    }
    for x in &d.styles.num_fmts {
        if has_xml_special(&x.code) {
            attr_entity = true;
        }
    }
    (encodings.len(), above_left, attr_entity)
}

/// Returns (discrepancies, decode for accounting) or a reason why the file is not a case.
pub fn check_corpus_file(file: &str) -> Result<(Vec<Disc>, Decoded), String> {
    let path = format!("{}/{}", corpus_dir(), file);
    let bytes = std::fs::read(&path).map_err(|e| format!("cannot read {}: {}", path, e))?;
    let (viol, dec) = pyworker::both_path(&path);
    let dec = dec.map_err(|e| format!("not decodable: {}", e))?;
    if !viol.is_empty() {
        return Err(format!("validator rejects the file: {:?}", viol.iter().map(|v| &v.rule).collect::<Vec<_>>()));
    }
    let book = guard(|| umya_spreadsheet::reader::xlsx::read_reader(std::io::Cursor::new(&bytes), true));
    match book {
        Err(p) => Ok((vec![Disc { key: format!("load/panic:{}", p.site()), detail: format!("{}: {}", file, p.short()) }], dec)),
        Ok(Err(e)) => Ok((vec![Disc { key: "load/error".into(), detail: format!("{}: {:?}", file, e) }], dec)),
        Ok(Ok(book)) => {
            let discs = match guard(|| compare(&dec, &book, CmpOpt { styles: true, per_key: 3 })) {
                Ok(d) => d,
                Err(p) => vec![Disc { key: format!("getter/panic:{}", p.site()), detail: format!("{}: {}", file, p.short()) }],
            };
            Ok((discs, dec))
        }
    }
}

/// Report only (C02 owns the verdict): what the validator says about corpus files after
/// the library loaded and re-saved them.  `VERIF_C03_RESAVE_REPORT=1 ./check C03 quick`.
fn resave_report() {
    for f in corpus_files() {
        let path = format!("{}/{}", corpus_dir(), f);
        let Ok(bytes) = std::fs::read(&path) else { continue };
        let r = guard(|| {
            let book = umya_spreadsheet::reader::xlsx::read_reader(std::io::Cursor::new(&bytes), true).map_err(|e| format!("{:?}", e))?;
            let mut out = std::io::Cursor::new(Vec::new());
            umya_spreadsheet::writer::xlsx::write_writer(&book, &mut out).map_err(|e| format!("{:?}", e))?;
            Ok::<Vec<u8>, String>(out.into_inner())
        });
        match r {
            Err(p) => eprintln!("RESAVE {} | panic {}", f, p.short()),
            Ok(Err(e)) => eprintln!("RESAVE {} | error {}", f, truncate(&e, 100)),
            Ok(Ok(saved)) => {
                let v = pyworker::validate(&saved);
                let mut rules: BTreeMap<String, (usize, String)> = BTreeMap::new();
                for x in &v {
                    let e = rules.entry(x.rule.clone()).or_insert((0, format!("{}: {}", x.part, truncate(&x.detail, 120))));
                    e.0 += 1;
                }
                if rules.is_empty() {
                    eprintln!("RESAVE {} | valid", f);
                } else {
                    for (k, (n, first)) in rules {
                        eprintln!("RESAVE {} | {} x{} | {}", f, k, n, first);
                    }
                }
            }
        }
    }
}

fn extra(ctx: &Ctx) {
    if std::env::var("VERIF_C03_RESAVE_REPORT").is_ok() {
        resave_report();
    }
    if !pyworker::ping() {
        eprintln!("HARNESS-ERROR: python worker does not answer");
        std::process::exit(2);
    }
    xlsxgen::self_test();
    let files = corpus_files();
    let results: Vec<(String, Result<(Vec<Disc>, Decoded), String>)> = files.par_iter().map(|f| (f.clone(), check_corpus_file(f))).collect();
    let mut skipped = Vec::new();
    for (file, r) in results {
        match r {
            Err(why) => {
                skipped.push(json!({"file": file, "why": why}));
                ctx.add_class("corpus/skipped-not-valid", 1);
            }
            Ok((discs, dec)) => {
                let (enc, above_left, attr_entity) = nontrivial_features(&dec);
                let nt = enc >= 2 || above_left || attr_entity;
                ctx.count_case(fnv(file.as_bytes()), nt);
                ctx.add_class("corpus/files", 1);
                if above_left {
                    ctx.add_class("corpus/shared-ref-above-left", 1);
                }
                if attr_entity {
                    ctx.add_class("corpus/attr-entity", 1);
                }
                if nt {
                    ctx.add_sample(json!({"sub": "corpus", "case": {"file": file}, "encodings": enc, "cells": dec.sheets.iter().map(|s| s.cells.len()).sum::<usize>()}));
                }
                if std::env::var("VERIF_C03_DUMP").is_ok() {
                    for d in &discs {
                        eprintln!("DUMP {} | {} | {}", file, d.key, truncate(&d.detail, 400));
                    }
                }
                // one judgement per key of this file
                let mut seen: BTreeSet<String> = BTreeSet::new();
                for d in discs {
                    if seen.insert(d.key.clone()) {
                        ctx.judge("corpus", &CorpusCase { file: file.clone(), key: Some(d.key.clone()) }, Verdict::fail(d.key.clone(), d.detail.clone()));
                    }
                }
            }
        }
    }
    ctx.set_extra("corpus_skipped", Value::Array(skipped));
}

fn replay_extra(_ctx: &Ctx, sub: &str, case: &Value) -> Option<Verdict> {
    match sub {
        "corpus" => {
            let c: CorpusCase = serde_json::from_value(case.clone()).ok()?;
            match check_corpus_file(&c.file) {
                Err(why) => Some(Verdict::Discard(why)),
                Ok((discs, _)) => {
                    let discs: Vec<Disc> = discs.into_iter().filter(|d| c.key.as_ref().map_or(true, |k| &d.key == k)).collect();
                    Some(verdict_of(&discs))
                }
            }
        }
        _ => None,
    }
}

// ---------------------------------------------------------------------------------------
// generated files

fn open_key(pred: impl Fn(&str) -> bool) -> bool {
    known_keys().iter().any(|k| pred(k))
}

/// The clean strata avoid exactly the features of the open findings.
pub fn steer() -> xlsxgen::Steer {
    xlsxgen::Steer {
        inline_guess: open_key(|k| k.starts_with("inlineStr/kind:")),
        inline_rich: open_key(|k| k.starts_with("inlineStr-rich/")),
        xstring: open_key(|k| k == "xstring-escape/not-decoded"),
        shared_quoted: open_key(|k| k.starts_with("shared-child-quoted-sheet/")),
        shared_above_left: open_key(|k| k == "shared-child-ref-above-left/formula"),
    }
}

fn oracle_bug(what: &str, spec: &xlsxgen::XlsxSpec) -> ! {
    eprintln!("HARNESS-ERROR: C03 oracle self-test: {}", truncate(what, 3000));
    let dir = format!("{}/scratch", verif_root());
    let _ = std::fs::create_dir_all(&dir);
    let path = format!("{}/c03-oracle-bug.json", dir);
    let _ = std::fs::write(&path, serde_json::to_string_pretty(&json!({"property":"C03","sub":"generated","key":"oracle-bug","detail":what,"case":spec})).unwrap());
    eprintln!("HARNESS-ERROR: case written to {}", path);
    println!("INCONCLUSIVE property=C03 oracle self-test failed");
    std::process::exit(2);
}

/// expected finding-key prefix of each dirty feature
fn dirty_prefix(d: xlsxgen::Dirty) -> &'static [&'static str] {
    use xlsxgen::Dirty::*;
    match d {
        None => &[],
        DateCell => &["t-d/"],
        NoR => &["no-r/"],
        InlineGuess => &["inlineStr/kind:"],
        InlineRich => &["inlineStr-rich/"],
        XString => &["xstring-escape/"],
        CrLf => &["literal-crlf/"],
        ImplicitXf0 => &["implicit-xf0/"],
        SharedBlank => &["shared-child-blank/"],
        SharedQuotedSheet => &["shared-child-quoted-sheet/"],
        SharedDoubledQuote => &["shared-child-doubled-quote/"],
        SharedAboveLeft => &["shared-child-ref-above-left/"],
        DefNameString => &["defined-name-text-string-constant/"],
    }
}

/// Render, validate, cross-check the oracle, load with the library, compare.
pub fn run_generated(spec: &xlsxgen::XlsxSpec, st: xlsxgen::Steer, obs: &mut Obs) -> Vec<Disc> {
    let r = xlsxgen::render(spec, st);
    for e in &r.excluded {
        obs.excluded(*e);
    }
    let (viol, py) = pyworker::both(&r.bytes);
    if !viol.is_empty() {
        oracle_bug(&format!("the generator wrote a file its own validator rejects: {:?}", viol), spec);
    }
    let py = match py {
        Ok(p) => p,
        Err(e) => oracle_bug(&format!("the Python decoder cannot decode a generated file: {}", e), spec),
    };
    if let Some(d) = xlsxgen::model_diff(&r.model, &py) {
        oracle_bug(&format!("Python decoder and generator model disagree: {}", d), spec);
    }
    let (enc, _, _) = nontrivial_features(&r.model);
    obs.nontrivial(enc >= 2 || r.shared_above_left || r.attr_refs > 0);
    obs.class(format!("encodings-{}", enc.min(6)));
    obs.class(format!("esc-mode-{}", spec.esc % 3));
    if r.shared_above_left {
        obs.class("shared-ref-above-left");
    }
    if r.attr_refs > 0 {
        obs.class("attr-entity");
    }
    for s in &r.model.sheets {
        let mut seen: BTreeSet<String> = BTreeSet::new();
        if s.cells.iter().any(|c| !c.has_r) && s.cells.iter().any(|c| c.kind == "blank" && c.row == 501) {
            obs.class("no-r-mixed-with-self-closing-cells");
        }
        for c in &s.cells {
            if c.kind != "blank" && seen.insert(cell_feature(c)) {
                obs.class(format!("enc/{}", cell_feature(c)));
            }
            if c.f_type.as_deref() == Some("shared") && !c.f_master && seen.insert("shared-child".into()) {
                obs.class("enc/shared-child");
            }
            if c.f_type.as_deref() == Some("shared") && !c.f_master {
                // children whose text mixes locked and relative parts ($A2, B$1): a reader that
                // swaps the lock flags or the offsets shows a different text
                let mixed = c.formula.as_deref().map_or(false, |f| xlsxgen::scan_refs(f).iter().any(|r| r.2 != r.3));
                if mixed && seen.insert("shared-child-mixed-lock".into()) {
                    obs.class("shared-child-mixed-lock-refs");
                }
            }
        }
        if !s.tables.is_empty() {
            obs.class("table");
        }
        if !s.hyperlinks.is_empty() {
            obs.class("hyperlink");
        }
    }
    if !r.model.defined_names.is_empty() {
        obs.class("defined-name");
    }
    let book = guard(|| umya_spreadsheet::reader::xlsx::read_reader(std::io::Cursor::new(&r.bytes), true));
    match book {
        Err(p) => vec![Disc { key: format!("load/panic:{}", p.site()), detail: p.short() }],
        Ok(Err(e)) => vec![Disc { key: "load/error".into(), detail: format!("{:?}", e) }],
        Ok(Ok(book)) => match guard(|| compare(&r.model, &book, CmpOpt { styles: true, per_key: 2 })) {
            Ok(d) => d,
            Err(p) => vec![Disc { key: format!("getter/panic:{}", p.site()), detail: p.short() }],
        },
    }
}

fn check_clean(spec: &xlsxgen::XlsxSpec, obs: &mut Obs) -> Verdict {
    let mut spec = spec.clone();
    spec.dirty = xlsxgen::Dirty::None;
    let mut discs = run_generated(&spec, steer(), obs);
    // the clean strata steer around every open finding: seeing one here means the finding
    // is wider than its description
    for d in discs.iter_mut() {
        if known_keys().contains(&d.key) {
            d.key = format!("clean-stratum/{}", d.key);
        }
    }
    verdict_of(&discs)
}

fn check_dirty(spec: &xlsxgen::XlsxSpec, obs: &mut Obs) -> Verdict {
    obs.class(format!("dirty/{:?}", spec.dirty));
    // everything except the one dirty feature is steered unconditionally, so that a witness
    // does not change its content when the list of known findings changes
    let all = xlsxgen::Steer { inline_guess: true, inline_rich: true, xstring: true, shared_quoted: true, shared_above_left: true };
    let mut discs = run_generated(spec, all, obs);
    let allowed = dirty_prefix(spec.dirty);
    for d in discs.iter_mut() {
        if known_keys().contains(&d.key) && !allowed.iter().any(|p| d.key.starts_with(p)) {
            d.key = format!("unexpected-in-dirty-{:?}/{}", spec.dirty, d.key);
        }
    }
    verdict_of(&discs)
}

fn subs() -> Vec<Box<dyn DynSub>> {
    vec![
        Box::new(Sub { name: "generated", strategy: xlsxgen::clean_spec, cases: (400, 6000), check: check_clean, max_shrink_iters: 600 }),
        Box::new(Sub { name: "dirty", strategy: xlsxgen::dirty_spec, cases: (16, 400), check: check_dirty, max_shrink_iters: 300 }),
    ]
}
