//! C09 — formula text survives the tokenizer; translation shifts only relative parts.
//!
//! Paths through the library (the only public ways through parse/render):
//!   * `same`      Cell::set_formula(f); Cell::set_coordinate(own coordinate)      -> identity
//!   * `far-edit`  Worksheet::{insert_new_row, insert_new_column_by_index, remove_row,
//!                 remove_column_by_index} strictly beyond every reference          -> identity
//!   * `translate` Cell::set_coordinate(other coordinate)  -> dc/dr added to non-$ parts
//! Oracle: the reference-lexed output equals the token list computed on the generator's AST.
use super::Prop;
use crate::engine::*;
use crate::gen::formula::*;
use proptest::prelude::*;
use serde::{Deserialize, Serialize};
use std::collections::BTreeSet;

pub fn prop() -> Prop {
    Prop {
        id: "C09",
        describe,
        subs,
        extra: super::no_extra,
        replay_extra: super::no_replay_extra,
        watchdog_s: (900, 14400),
    }
}

fn describe(ctx: &Ctx) {
    ctx.rule("formulas are generated as an AST (depth <= 6) over every lexical class (numbers incl. scientific, strings incl. doubled quotes, booleans, error literals, relative/absolute/mixed cells, ranges, whole rows/columns, bare/quoted/external sheet qualifiers, names, functions, unary/postfix/infix operators, unions, intersections, array constants, structured references) and rendered with optional decorative blanks; non-trivial = at least 3 distinct token classes including one of {string with doubled quote, quoted sheet, $-mixed reference, range, array constant, bracket group, percent, scientific number, intersection}; distinct by (sub-check, case JSON)");
    ctx.assume("only well-formed formulas as stored in files: upper-case references, space as the only blank, unions parenthesised, intersection operands reference-valued");
    ctx.assume("a reference that leaves the grid may be rendered `#REF!` with or without its sheet qualifier (the statement does not say which)");
    ctx.assume("termination is decided by hook H2 (iteration fuel 8*len+64 in parse_to_tokens); the fuel panic is a termination violation");
}

pub const HOST: &str = "Host";

#[derive(Debug, Clone, Copy, PartialEq, Eq, Serialize, Deserialize)]
pub enum Path {
    Same,
    FarEdit,
    Translate,
}

#[derive(Debug, Clone, Serialize, Deserialize)]
pub struct Case {
    pub path: Path,
    /// true: clean stratum (steered around open findings); false: dirty stratum
    pub clean: bool,
    pub expr: Expr,
    pub blanks: Vec<u8>,
    pub lead: u8,
    pub trail: u8,
    /// (col,row) of the formula cell
    pub at: (u32, u32),
    /// translate: the new coordinate
    pub to: (u32, u32),
    /// far-edit: 0 insert rows, 1 insert columns, 2 remove rows, 3 remove columns
    pub edit_kind: u8,
    pub gap: u16,
    pub n: u16,
}

// ---------------------------------------------------------------------------------------
// generators

fn at_axis(boundary: Vec<u32>, max: u32) -> BoxedStrategy<u32> {
    prop_oneof![4 => 1u32..=12, 3 => prop::sample::select(boundary), 1 => 1u32..=max].boxed()
}

/// (from, to) on one axis
fn move_axis(max: u32) -> BoxedStrategy<(u32, u32)> {
    let b = vec![1u32, 2, 3, max - 2, max - 1, max];
    prop_oneof![
        2 => at_axis(b.clone(), max).prop_map(|a| (a, a)),
        5 => (at_axis(b.clone(), max), -4i64..=4).prop_map(move |(a, d)| (a, (a as i64 + d).clamp(1, max as i64) as u32)),
        2 => (at_axis(b.clone(), max), -60i64..=60).prop_map(move |(a, d)| (a, (a as i64 + d).clamp(1, max as i64) as u32)),
        2 => (at_axis(b.clone(), max), at_axis(b, max)),
    ]
    .boxed()
}

fn case_strategy(path: Option<Path>, clean: bool) -> BoxedStrategy<Case> {
    let path_s = match path {
        Some(p) => Just(p).boxed(),
        None => prop::sample::select(vec![Path::Same, Path::FarEdit, Path::Translate]).boxed(),
    };
    (
        path_s,
        expr(),
        blank_plan(),
        prop_oneof![8 => Just(0u8), 1 => Just(1u8), 1 => Just(2u8)],
        prop_oneof![8 => Just(0u8), 1 => Just(1u8), 1 => Just(2u8)],
        move_axis(MAX_COL),
        move_axis(MAX_ROW),
        0u8..4,
        prop_oneof![3 => Just(0u16), 2 => 0u16..5, 1 => any::<u16>()],
        prop_oneof![3 => 1u16..4, 1 => 1u16..200],
    )
        .prop_map(move |(path, expr, blanks, lead, trail, (c0, c1), (r0, r1), edit_kind, gap, n)| {
            let (at, to) = match path {
                Path::Translate => ((c0, r0), (c1, r1)),
                Path::Same => ((c0, r0), (c0, r0)),
                Path::FarEdit => ((1 + c0 % 6, 1 + r0 % 6), (1 + c0 % 6, 1 + r0 % 6)),
            };
            Case { path, clean, expr, blanks, lead, trail, at, to, edit_kind, gap, n }
        })
        .boxed()
}

fn same_cases(_t: Tier) -> BoxedStrategy<Case> {
    case_strategy(Some(Path::Same), true)
}
fn far_cases(_t: Tier) -> BoxedStrategy<Case> {
    case_strategy(Some(Path::FarEdit), true)
}
fn translate_cases(_t: Tier) -> BoxedStrategy<Case> {
    case_strategy(Some(Path::Translate), true)
}
fn dirty_cases(_t: Tier) -> BoxedStrategy<Case> {
    case_strategy(None, false)
}

// ---------------------------------------------------------------------------------------
// steering around open findings (clean strata)

/// Rewrites the generated AST so that it avoids the lexical forms with an OPEN known finding;
/// returns the rewritten AST and one finding key per replaced node.
pub fn steer(e: &Expr, _path: Path, _dc: i64, _dr: i64) -> (Expr, Vec<String>) {
    let mut excluded: Vec<String> = Vec::new();
    let out = e.map(&mut |x| match x {
        Expr::At(inner) => {
            excluded.push("at/dropped".into());
            *inner
        }
        o => o,
    });
    (out, excluded)
}

// ---------------------------------------------------------------------------------------
// running one formula through one path

#[derive(Debug, Clone)]
pub struct Params {
    pub path: Path,
    pub at: (u32, u32),
    pub to: (u32, u32),
    pub edit_kind: u8,
    pub gap: u16,
    pub n: u16,
}

impl Params {
    pub fn delta(&self) -> (i64, i64) {
        (self.to.0 as i64 - self.at.0 as i64, self.to.1 as i64 - self.at.1 as i64)
    }
}

/// The far edit for this formula: strictly beyond every reference that belongs to the host
/// sheet and beyond the formula cell; None if no axis has room.
pub fn far_edit(e: &Expr, p: &Params) -> Option<Edit> {
    let mut max_row = p.at.1;
    let mut max_col = p.at.0;
    for r in e.refs() {
        let own = match &r.qual {
            None => true,
            Some(q) => !q.is_external() && q.sheet == HOST,
        };
        if own {
            max_row = max_row.max(r.area.max_row().unwrap_or(0));
            max_col = max_col.max(r.area.max_col().unwrap_or(0));
        }
    }
    let n = p.n.max(1) as u32;
    let row_at = max_row as u64 + 1 + p.gap as u64;
    let col_at = max_col as u64 + 1 + p.gap as u64;
    let row_ok = row_at + n as u64 <= MAX_ROW as u64;
    let col_ok = col_at + n as u64 <= MAX_COL as u64;
    // fall back to the tightest position when the gap does not fit
    let row_at2 = if row_ok { row_at } else { max_row as u64 + 1 };
    let col_at2 = if col_ok { col_at } else { max_col as u64 + 1 };
    let row_fit = row_at2 + n as u64 <= MAX_ROW as u64 + 1 && row_at2 <= MAX_ROW as u64;
    let col_fit = col_at2 + n as u64 <= MAX_COL as u64 + 1 && col_at2 <= MAX_COL as u64;
    let want_rows = p.edit_kind % 2 == 0;
    let insert = p.edit_kind < 2;
    let rows = if want_rows { row_fit || !col_fit } else { !col_fit && row_fit };
    if rows && !row_fit {
        return None;
    }
    Some(match (rows, insert) {
        (true, true) => Edit::InsertRows { at: row_at2 as u32, n },
        (true, false) => Edit::RemoveRows { at: row_at2 as u32, n },
        (false, true) => Edit::InsertCols { at: col_at2 as u32, n },
        (false, false) => Edit::RemoveCols { at: col_at2 as u32, n },
    })
}

fn run_library(e: &Expr, text: &str, p: &Params) -> Result<Result<String, String>, PanicInfo> {
    match p.path {
        Path::Same | Path::Translate => guard(|| {
            let mut cell = umya_spreadsheet::Cell::default();
            cell.set_coordinate((p.at.0, p.at.1));
            cell.set_formula(text.to_string());
            cell.set_coordinate((p.to.0, p.to.1));
            Ok(cell.get_formula().to_string())
        }),
        Path::FarEdit => {
            let Some(edit) = far_edit(e, p) else { return Ok(Err("no room for a far edit".into())) };
            guard(|| {
                let mut book = umya_spreadsheet::new_file();
                book.new_sheet(HOST).unwrap();
                let ws = book.get_sheet_by_name_mut(HOST).unwrap();
                ws.get_cell_mut((p.at.0, p.at.1)).set_formula(text.to_string());
                match edit {
                    Edit::InsertRows { at, n } => ws.insert_new_row(&at, &n),
                    Edit::InsertCols { at, n } => ws.insert_new_column_by_index(&at, &n),
                    Edit::RemoveRows { at, n } => ws.remove_row(&at, &n),
                    Edit::RemoveCols { at, n } => ws.remove_column_by_index(&at, &n),
                }
                let cells: Vec<String> = ws
                    .get_cell_collection()
                    .into_iter()
                    .filter(|c| c.is_formula())
                    .map(|c| c.get_formula().to_string())
                    .collect();
                if cells.len() == 1 {
                    Ok(cells[0].clone())
                } else {
                    Err(format!("{} formula cells after the edit", cells.len()))
                }
            })
        }
    }
}

#[derive(Debug, Clone)]
pub enum Outcome {
    Pass,
    /// generator / lexer inconsistency: a harness bug, never a finding
    Harness(String),
    NotApplicable(String),
    Fail { mode: String, tok_class: String, detail: String },
}

fn blanks_str(n: u8) -> String {
    " ".repeat(n.min(3) as usize)
}

/// Render the formula and cross-check the reference lexer against the generator.
pub fn prepare(e: &Expr, blanks: &[u8], lead: u8, trail: u8) -> Result<(String, Vec<Tok>), Outcome> {
    let input = tokens(e, &identity_map);
    let text = format!("{}{}{}", blanks_str(lead), render(e, blanks), blanks_str(trail));
    match lex(&text) {
        Ok(l) => {
            if let Some(i) = first_mismatch(&input, &l) {
                return Err(Outcome::Harness(format!("reference lexer disagrees with the generator at token {} of {:?}: {}", i, text, toks_text(&l))));
            }
        }
        Err(err) => return Err(Outcome::Harness(format!("reference lexer rejects generated {:?}: {}", text, err))),
    }
    Ok((text, input))
}

/// Judge what the library made of `text`.
pub fn judge_output(text: &str, input: &[Tok], expected: &[Tok], lib: Result<Result<String, String>, PanicInfo>) -> Outcome {
    let out = match lib {
        Err(pi) => {
            let mode = if pi.msg.contains("umya_verif: tokenizer made no progress") { "no-termination".to_string() } else { format!("panic:{}", pi.site()) };
            return Outcome::Fail { mode, tok_class: "formula".into(), detail: format!("{:?} -> {}", text, pi.short()) };
        }
        Ok(Err(why)) => return Outcome::NotApplicable(why),
        Ok(Ok(s)) => s,
    };
    let actual = match lex(&out) {
        Ok(a) => a,
        Err(err) => {
            return Outcome::Fail { mode: "unlexable-output".into(), tok_class: "formula".into(), detail: format!("{:?} -> {:?}: {}", text, out, err) };
        }
    };
    match first_mismatch(expected, &actual) {
        None => Outcome::Pass,
        Some(i) => {
            let detail = format!(
                "{:?} -> {:?}; token {}: expected {}, got {}",
                text,
                out,
                i,
                expected.get(i).map(|t| format!("{:?} {:?}{}", t.kind, t.text, if t.alts.is_empty() { String::new() } else { format!(" (or {:?})", t.alts) })).unwrap_or("end".into()),
                actual.get(i).map(|t| format!("{:?} {:?}", t.kind, t.text)).unwrap_or("end".into())
            );
            let (mode, class) = diff_mode(input, expected, &actual, i);
            Outcome::Fail { mode, tok_class: class, detail }
        }
    }
}

/// One formula through one path, judged.
pub fn attempt(e: &Expr, blanks: &[u8], lead: u8, trail: u8, p: &Params) -> Outcome {
    let (text, input) = match prepare(e, blanks, lead, trail) {
        Ok(x) => x,
        Err(o) => return o,
    };
    let (dc, dr) = p.delta();
    let tr = move |r: &RefNode| vec![translate_area(&r.area, dc, dr)];
    let expected = match p.path {
        Path::Translate => tokens(e, &tr),
        _ => input.clone(),
    };
    let lib = run_library(e, &text, p);
    judge_output(&text, &input, &expected, lib)
}

/// Failure mode and token class at the first mismatch.
pub fn diff_mode(input: &[Tok], expected: &[Tok], actual: &[Tok], i: usize) -> (String, String) {
    if i >= expected.len() {
        return ("extra-tokens".into(), expected.last().map(|t| t.class.clone()).unwrap_or("formula".into()));
    }
    let e = &expected[i];
    let class = e.class.clone();
    let Some(a) = actual.get(i) else { return ("truncated".into(), class) };
    let is_ref_err = |t: &Tok| t.kind == Kind::Err && t.text.ends_with("#REF!");
    let mode = if input[i].kind == Kind::Ref && !input[i].accepts(&expected[i]) && input[i].text == a.text {
        "not-shifted"
    } else if input[i].kind == Kind::Ref && e.kind == Kind::Err && a.kind == Kind::Ref {
        "no-ref-error"
    } else if e.kind == Kind::Ref && is_ref_err(a) {
        "spurious-ref-error"
    } else if e.kind == Kind::Ref && a.kind == Kind::Ref {
        let (eq, ea) = split_qualifier(&e.text);
        let (aq, aa) = split_qualifier(&a.text);
        if eq != aq && ea == aa {
            "qualifier-altered"
        } else {
            "wrong-shift"
        }
    } else if expected.get(i + 1).map_or(false, |n| n.accepts(a)) {
        "dropped"
    } else {
        "altered"
    };
    (mode.into(), class)
}

// ---------------------------------------------------------------------------------------
// classifier: finding key = <minimal lexical class that still fails>/<failure mode>

fn fails(o: &Outcome) -> Option<(String, String, String)> {
    match o {
        Outcome::Fail { mode, tok_class, detail } => Some((mode.clone(), tok_class.clone(), detail.clone())),
        _ => None,
    }
}

/// Minimal failing reference features: drop qualifier, make relative, reduce to one cell, as
/// long as the failure persists.  `run_ref(original, strip_qualifier, area)` runs the single
/// reference `area` with the original's qualifier, or - if `strip_qualifier` - the
/// semantically equivalent unqualified reference (C08: hosted on the target sheet).
fn minimise_ref(r: &RefNode, run_ref: &dyn Fn(&RefNode, bool, &Area, bool) -> Outcome) -> (String, String) {
    let mut area = r.area.clone();
    let mut strip = false;
    let mut lower = r.lower;
    let mut mode = fails(&run_ref(r, strip, &area, lower)).map(|f| f.0).unwrap_or("altered".into());
    let mut keep_lower = r.shows_lower();
    if keep_lower {
        if let Some(f) = fails(&run_ref(r, strip, &area, false)) {
            lower = false;
            mode = f.0;
            keep_lower = false;
        }
    }
    let mut keep_qual = r.qual.is_some();
    if keep_qual {
        if let Some(f) = fails(&run_ref(r, true, &area, lower)) {
            strip = true;
            mode = f.0;
            keep_qual = false;
        }
    }
    let mut keep_abs = area.abs_kind() != "rel";
    if keep_abs {
        let v = area.relative();
        if let Some(f) = fails(&run_ref(r, strip, &v, lower)) {
            area = v;
            mode = f.0;
            keep_abs = false;
        }
    }
    let mut keep_kind = area.kind() != "cell";
    if keep_kind {
        for v in [area.first_cell(), area.last_cell()] {
            if let Some(f) = fails(&run_ref(r, strip, &v, lower)) {
                area = v;
                mode = f.0;
                keep_kind = false;
                break;
            }
        }
    }
    let mut label = if keep_kind { area.kind().to_string() } else { "ref".to_string() };
    if keep_abs {
        label.push('.');
        label.push_str(area.abs_kind());
    }
    if keep_lower {
        label.push_str("+lc");
    }
    if keep_qual {
        label.push('@');
        label.push_str(r.qual.as_ref().unwrap().class());
    }
    (label, mode)
}

/// Generic classifier shared with C08: `run(expr, blanks, lead, trail)`.
pub fn classify(
    e: &Expr,
    blanks: &[u8],
    lead: u8,
    trail: u8,
    first: (String, String, String),
    run: &dyn Fn(&Expr, &[u8], u8, u8) -> Outcome,
    run_ref: &dyn Fn(&RefNode, bool, &Area, bool) -> Outcome,
) -> (String, String) {
    let (mode0, tok_class0, detail0) = first;
    // 0. blanks
    let (mut b, mut l, mut t) = (blanks.to_vec(), lead, trail);
    if t > 0 {
        if fails(&run(e, &b, l, 0)).is_none() {
            return (format!("trailing-blank/{}", mode0), detail0);
        }
        t = 0;
    }
    if l > 0 {
        if fails(&run(e, &b, 0, t)).is_none() {
            return (format!("leading-blank/{}", mode0), detail0);
        }
        l = 0;
    }
    if b.iter().any(|x| *x >= 3) {
        // line feed / tab / CR LF replaced by a space
        let spaces: Vec<u8> = b.iter().map(|x| if *x >= 3 { 1 } else { *x }).collect();
        if fails(&run(e, &spaces, l, t)).is_none() {
            return (format!("non-space-blank/{}", mode0), detail0);
        }
        b = spaces;
    }
    if b.iter().any(|x| *x > 0) {
        if fails(&run(e, &[], l, t)).is_none() {
            return (format!("decorative-blank/{}", mode0), detail0);
        }
        b.clear();
    }
    let _ = (l, t, b);
    // 1. smallest failing subtree
    let mut subs: Vec<(usize, usize, &Expr)> = e.subtrees().into_iter().enumerate().map(|(i, s)| (s.node_count(), i, s)).collect();
    subs.sort_by_key(|x| (x.0, x.1));
    for (_, _, s) in subs {
        if matches!(s, Expr::Missing) {
            continue;
        }
        if let Some((mode, _tc, detail)) = fails(&run(s, &[], 0, 0)) {
            let (class, mode) = match s {
                Expr::Ref(r) => minimise_ref(r, run_ref),
                Expr::Name { qual: Some(_), name } => {
                    let v = Expr::Name { qual: None, name: name.clone() };
                    match fails(&run(&v, &[], 0, 0)) {
                        Some(f) => (v.node_class(), f.0),
                        None => (s.node_class(), mode),
                    }
                }
                _ => (s.node_class(), mode),
            };
            return (format!("{}/{}", class, mode), detail);
        }
    }
    // 2. context dependent: class of the first mismatching token
    (format!("{}-in-context/{}", tok_class0, mode0), detail0)
}

pub fn coarse_classes(e: &Expr) -> BTreeSet<String> {
    let mut out = BTreeSet::new();
    for c in e.classes() {
        let c = if c.contains("+lc") {
            out.insert("case:lower".to_string());
            c.replace("+lc", "")
        } else {
            c
        };
        // reference classes are split into their dimensions to keep the table readable
        if let Some((area_abs, q)) = c.split_once('@') {
            out.insert(format!("qual:{}", q));
            if let Some((a, b)) = area_abs.split_once('.') {
                if ["cell", "range", "rows", "cols"].contains(&a) {
                    out.insert(format!("area:{}", a));
                    out.insert(format!("abs:{}", b));
                    continue;
                }
            }
            out.insert(area_abs.to_string());
        } else if let Some((a, b)) = c.split_once('.') {
            if ["cell", "range", "rows", "cols"].contains(&a) {
                out.insert(format!("area:{}", a));
                out.insert(format!("abs:{}", b));
            } else {
                out.insert(c.clone());
            }
        } else {
            out.insert(c.clone());
        }
    }
    out
}

pub fn is_nontrivial(e: &Expr) -> bool {
    let cl = e.classes();
    let special = cl.iter().any(|c| {
        c == "str-dquote"
            || c.contains("@quoted-sheet")
            || c.contains("@apos-sheet")
            || c.contains(".mixed")
            || c.starts_with("range")
            || c == "array"
            || c.starts_with("structured")
            || c.contains("@ext")
            || c == "percent"
            || c.starts_with("num-sci")
            || c == "intersect"
    });
    special && cl.len() >= 3
}

fn check(c: &Case, obs: &mut Obs) -> Verdict {
    let p = Params { path: c.path, at: c.at, to: c.to, edit_kind: c.edit_kind, gap: c.gap, n: c.n };
    let (dc, dr) = p.delta();
    let (e, excluded) = if c.clean { steer(&c.expr, c.path, dc, dr) } else { (c.expr.clone(), vec![]) };
    for x in excluded {
        obs.excluded(x);
    }
    for cl in coarse_classes(&e) {
        obs.class(cl);
    }
    if c.lead > 0 {
        obs.class("blank:leading");
    }
    if c.trail > 0 {
        obs.class("blank:trailing");
    }
    let (deco, inter) = plan_usage(&e, &c.blanks);
    if deco.iter().any(|b| *b > 0) {
        obs.class("blank:decorative");
    }
    let has = |v: &Vec<u8>, ch: char| v.iter().any(|b| blank_text(*b).contains(ch));
    if has(&deco, '\n') {
        obs.class("blank:line-feed");
    }
    if has(&deco, '\t') {
        obs.class("blank:tab");
    }
    if deco.iter().any(|b| *b >= 6) {
        obs.class("blank:mixed-run");
    }
    if inter.iter().any(|b| *b >= 2) {
        obs.class("intersect:blank-run");
    }
    if inter.iter().any(|b| blank_text(*b).chars().skip(1).any(|ch| ch != ' ')) {
        obs.class("intersect:run-with-non-space-after-first");
    }
    if c.path == Path::Translate {
        let n_dead = e.refs().iter().filter(|r| translate_area(&r.area, dc, dr).is_none()).count();
        if n_dead > 0 {
            obs.class("translate:some-ref-leaves-grid");
        }
        if dc == 0 && dr == 0 {
            obs.class("translate:zero");
        }
    }
    for sub in e.subtrees() {
        if let Expr::Binary { op, l, r } = sub {
            if op == "+" || op == "-" {
                let starts_rel = matches!(&**r, Expr::Ref(rn) if rn.area.abs_kind() != "abs");
                match &**l {
                    Expr::Name { name, .. } if sci_like_name(name).is_some() && starts_rel => obs.class("sci-like-name:before-sign+relative-ref"),
                    Expr::Num(n) if n.contains('E') && starts_rel => obs.class("sci-number:before-sign+relative-ref"),
                    _ => {}
                }
            }
        }
        if let Expr::Intersect(l, r) = sub {
            if matches!(**l, Expr::Paren(_) | Expr::Func { .. }) {
                obs.class("intersect:after-close-paren");
            }
            if matches!(**r, Expr::Paren(_)) {
                obs.class("intersect:before-open-paren");
            }
            if matches!(**r, Expr::Func { .. }) {
                obs.class("intersect:before-function");
            }
        }
    }
    if c.path == Path::Translate {
        // references that sit exactly on the last row / column and do not move on that axis
        let on_edge = e.refs().iter().any(|r| {
            (dr == 0 && r.area.max_row() == Some(MAX_ROW)) || (dc == 0 && r.area.max_col() == Some(MAX_COL))
        });
        if on_edge {
            obs.class("translate:edge-ref-zero-delta");
        }
        let lands_on_edge = e.refs().iter().any(|r| match translate_area(&r.area, dc, dr) {
            Some(a) => (dr != 0 && a.max_row() == Some(MAX_ROW)) || (dc != 0 && a.max_col() == Some(MAX_COL)),
            None => false,
        });
        if lands_on_edge {
            obs.class("translate:lands-on-last-row-or-column");
        }
    }
    obs.nontrivial(is_nontrivial(&e));
    match attempt(&e, &c.blanks, c.lead, c.trail, &p) {
        Outcome::Pass => Verdict::Pass,
        Outcome::NotApplicable(why) => Verdict::Discard(why),
        Outcome::Harness(d) => Verdict::fail("harness/generator-lexer-disagree", d),
        Outcome::Fail { mode, tok_class, detail } => {
            let run = |x: &Expr, b: &[u8], l: u8, t: u8| attempt(x, b, l, t, &p);
            let run_ref = |r: &RefNode, strip: bool, a: &Area, lower: bool| {
                let q = if strip { None } else { r.qual.clone() };
                attempt(&Expr::Ref(RefNode { qual: q, area: a.clone(), lower }), &[], 0, 0, &p)
            };
            let (key, detail) = classify(&e, &c.blanks, c.lead, c.trail, (mode, tok_class, detail), &run, &run_ref);
            Verdict::fail(key, detail)
        }
    }
}

/// Entry point of the cargo-fuzz target: run one case, return (key, detail) for a finding that
/// is not an open known finding (harness inconsistencies included).
pub fn fuzz_one(c: &Case) -> Option<(String, String)> {
    use std::sync::OnceLock;
    static KNOWN: OnceLock<Vec<KnownFinding>> = OnceLock::new();
    let known = KNOWN.get_or_init(|| {
        install_panic_hook();
        load_known().into_iter().filter(|k| k.property == "C09" && k.status == "open").collect()
    });
    let mut obs = Obs::default();
    match check(c, &mut obs) {
        Verdict::Fail { key, detail } if !known.iter().any(|k| k.key == key) => Some((key, detail)),
        _ => None,
    }
}

pub fn case_json(c: &Case) -> String {
    serde_json::to_string(&serde_json::json!({"property": "C09", "sub": "dirty", "case": c})).unwrap_or_default()
}

fn subs() -> Vec<Box<dyn DynSub>> {
    vec![
        Box::new(Sub { name: "same", strategy: same_cases, cases: (3500, 40_000), check, max_shrink_iters: 3000 }),
        Box::new(Sub { name: "far-edit", strategy: far_cases, cases: (1400, 12_000), check, max_shrink_iters: 3000 }),
        Box::new(Sub { name: "translate", strategy: translate_cases, cases: (3500, 40_000), check, max_shrink_iters: 3000 }),
        Box::new(Sub { name: "dirty", strategy: dirty_cases, cases: (500, 4_000), check, max_shrink_iters: 3000 }),
    ]
}
