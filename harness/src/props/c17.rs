//! C17 — coordinate, column, range and address codecs are exact inverses grid-wide.
use super::Prop;
use crate::engine::*;
use crate::gen::text::sheet_name;
use proptest::prelude::*;
use serde::{Deserialize, Serialize};
use serde_json::{json, Value};
use umya_spreadsheet::helper::address::{join_address, split_address};
use umya_spreadsheet::helper::coordinate::*;
use umya_spreadsheet::helper::range::{get_coordinate_list, get_start_and_end_point};
use umya_spreadsheet::{Address, Coordinate, DefinedName, Range};

pub fn prop() -> Prop {
    Prop {
        id: "C17",
        describe,
        subs,
        extra,
        replay_extra,
        watchdog_s: (900, 7200),
    }
}

fn describe(ctx: &Ctx) {
    ctx.rule("exhaustive: all columns 1..16384 and all 18278 one-to-three-letter names; coordinates = rows (quick: boundary rows + stride 257, thorough: every row 1..1048576) x columns {1,26,27,702,703,16384} x 4 lock combinations; generated: range strings of every shape and sheet-qualified addresses over the legal sheet-name alphabet. Non-trivial = column >= 27, or a $ lock, or a sheet name that needs quoting; distinct by (sub-check, input)");
    ctx.assume("reference column numerals are computed by a three-line bijective base-26 loop in the harness");
}

/// Reference: bijective base-26 numeral.
pub fn ref_col_name(mut n: u32) -> String {
    let mut out = Vec::new();
    while n > 0 {
        let r = (n - 1) % 26;
        out.push((b'A' + r as u8) as char);
        n = (n - 1) / 26;
    }
    out.iter().rev().collect()
}

pub fn ref_col_index(s: &str) -> u32 {
    let mut n = 0u32;
    for c in s.chars() {
        n = n * 26 + (c as u32 - 'A' as u32 + 1);
    }
    n
}

#[derive(Debug, Clone, Serialize, Deserialize)]
pub struct CoordCase {
    pub col: u32,
    pub row: u32,
    pub lock_col: bool,
    pub lock_row: bool,
}

pub fn check_coord(c: &CoordCase) -> Verdict {
    let expect = format!(
        "{}{}{}{}",
        if c.lock_col { "$" } else { "" },
        ref_col_name(c.col),
        if c.lock_row { "$" } else { "" },
        c.row
    );
    let r = guard(|| {
        let s = coordinate_from_index_with_lock(&c.col, &c.row, &c.lock_col, &c.lock_row);
        let back = index_from_coordinate(&s);
        let mut co = Coordinate::default();
        co.set_coordinate(&s);
        let co_vals = (*co.get_col_num(), *co.get_row_num(), *co.get_is_lock_col(), *co.get_is_lock_row());
        let co_str = co.get_coordinate();
        #[allow(clippy::to_string_in_format_args)]
        let co_display = co.to_string();
        let cc = CellCoordinates::from(s.as_str());
        let plain = coordinate_from_index(&c.col, &c.row);
        (s, back, co_vals, co_str, (cc.col, cc.row), plain, co_display)
    });
    match r {
        Err(p) => Verdict::fail(format!("coord/panic:{}", p.site()), p.short()),
        Ok((s, back, co_vals, co_str, cc, plain, co_display)) => {
            if s != expect {
                return Verdict::fail("coord/print", format!("printed {:?}, expected {:?}", s, expect));
            }
            if back != (Some(c.col), Some(c.row), Some(c.lock_col), Some(c.lock_row)) {
                return Verdict::fail("coord/parse", format!("{:?} parsed to {:?}", s, back));
            }
            if co_vals != (c.col, c.row, c.lock_col, c.lock_row) || co_str != expect {
                return Verdict::fail("coord/struct", format!("Coordinate {:?} -> {:?} {:?}", s, co_vals, co_str));
            }
            if co_display != expect {
                return Verdict::fail("coord/struct-to-string", format!("Coordinate {:?} prints (to_string) as {:?}", s, co_display));
            }
            if cc != (c.col, c.row) {
                return Verdict::fail("coord/cellcoordinates", format!("CellCoordinates {:?} -> {:?}", s, cc));
            }
            if plain != format!("{}{}", ref_col_name(c.col), c.row) {
                return Verdict::fail("coord/print-plain", format!("{:?}", plain));
            }
            Verdict::Pass
        }
    }
}

const BOUNDARY_COLS: [u32; 6] = [1, 26, 27, 702, 703, 16384];

fn extra(ctx: &Ctx) {
    // 1. all columns
    let mut prev: Option<String> = None;
    for i in 1u32..=16384 {
        let expect = ref_col_name(i);
        let r = guard(|| {
            let s = string_from_column_index(&i);
            let b = column_index_from_string(&s);
            (s, b)
        });
        let v = match r {
            Err(p) => Verdict::fail(format!("column/panic:{}", p.site()), p.short()),
            Ok((s, b)) => {
                if s != expect {
                    Verdict::fail("column/letters", format!("{} -> {:?}, expected {:?}", i, s, expect))
                } else if b != i {
                    Verdict::fail("column/inverse", format!("{} -> {:?} -> {}", i, s, b))
                } else if let Some(p) = &prev {
                    // shortlex order
                    if (p.len(), p.as_str()) >= (s.len(), s.as_str()) {
                        Verdict::fail("column/order", format!("{:?} !< {:?}", p, s))
                    } else {
                        Verdict::Pass
                    }
                } else {
                    Verdict::Pass
                }
            }
        };
        prev = Some(expect);
        ctx.count_case(fnv(format!("col{}", i).as_bytes()), i >= 27);
        if i == 703 {
            ctx.add_sample(json!({"sub":"columns","case":{"col":i,"letters":ref_col_name(i)}}));
        }
        if ctx.judge("columns", &json!({ "col": i }), v) {
            break;
        }
    }
    ctx.add_class("columns", 16384);
    // 2. all names of 1..3 letters
    let mut n_names = 0u64;
    'outer: for len in 1..=3usize {
        let total = 26u32.pow(len as u32);
        for k in 0..total {
            let mut name = String::new();
            let mut x = k;
            let mut digits = vec![0u32; len];
            for d in (0..len).rev() {
                digits[d] = x % 26;
                x /= 26;
            }
            for d in digits {
                name.push((b'A' + d as u8) as char);
            }
            let expect = ref_col_index(&name);
            let r = guard(|| {
                let i = column_index_from_string(&name);
                let lower = column_index_from_string(name.to_lowercase());
                let back = string_from_column_index(&i);
                (i, lower, back)
            });
            let v = match r {
                Err(p) => Verdict::fail(format!("name/panic:{}", p.site()), p.short()),
                Ok((i, lower, back)) => {
                    if i != expect {
                        Verdict::fail("name/index", format!("{:?} -> {}, expected {}", name, i, expect))
                    } else if lower != expect {
                        Verdict::fail("name/lowercase", format!("{:?} lower -> {}", name, lower))
                    } else if back != name {
                        Verdict::fail("name/inverse", format!("{:?} -> {} -> {:?}", name, i, back))
                    } else {
                        Verdict::Pass
                    }
                }
            };
            n_names += 1;
            ctx.count_case(fnv(format!("name{}", name).as_bytes()), len >= 2);
            if ctx.judge("names", &json!({ "name": name }), v) {
                break 'outer;
            }
        }
    }
    ctx.add_class("names", n_names);
    // 3. coordinates
    let rows: Vec<u32> = match ctx.tier {
        Tier::Thorough => (1..=1_048_576u32).collect(),
        Tier::Quick => {
            let mut v: Vec<u32> = (1..=1_048_576u32).step_by(257).collect();
            for b in [
                1u32, 2, 9, 10, 11, 99, 100, 101, 999, 1000, 1001, 9999, 10000, 65535, 65536, 65537, 99999, 100000, 999999, 1000000,
                1048575, 1048576,
            ] {
                v.push(b);
            }
            v.sort();
            v.dedup();
            v
        }
    };
    use rayon::prelude::*;
    let stop = std::sync::atomic::AtomicBool::new(false);
    rows.par_chunks(4096).for_each(|chunk| {
        let mut n = 0u64;
        let mut nts: Vec<u64> = Vec::new();
        for &row in chunk {
            if stop.load(std::sync::atomic::Ordering::Relaxed) {
                return;
            }
            for &col in BOUNDARY_COLS.iter() {
                for locks in 0..4u8 {
                    let c = CoordCase {
                        col,
                        row,
                        lock_col: locks & 1 != 0,
                        lock_row: locks & 2 != 0,
                    };
                    let v = check_coord(&c);
                    n += 1;
                    if col >= 27 || locks != 0 {
                        nts.push(((row as u64) << 20) ^ ((col as u64) << 2) ^ locks as u64 ^ 0x5555_0000_0000_0000);
                    }
                    if ctx.judge("coords", &c, v) {
                        stop.store(true, std::sync::atomic::Ordering::Relaxed);
                        return;
                    }
                }
            }
        }
        ctx.count_bulk(n);
        ctx.nontrivial.lock().unwrap().extend(nts);
    });
    ctx.add_class("coords", rows.len() as u64 * 24);
    ctx.add_sample(json!({"sub":"coords","case":CoordCase{col:703,row:1048576,lock_col:true,lock_row:false}}));
    ctx.exhaustive.store(true, std::sync::atomic::Ordering::Relaxed);
    ctx.set_extra(
        "exhaustive_domains",
        json!({"columns": 16384, "names": n_names, "coordinate_rows": rows.len(), "coordinate_rows_all": ctx.tier == Tier::Thorough}),
    );
}

fn replay_extra(_ctx: &Ctx, sub: &str, case: &Value) -> Option<Verdict> {
    match sub {
        "coords" => {
            let c: CoordCase = serde_json::from_value(case.clone()).ok()?;
            Some(check_coord(&c))
        }
        "columns" => {
            let i = case["col"].as_u64()? as u32;
            let expect = ref_col_name(i);
            Some(match guard(|| (string_from_column_index(&i), column_index_from_string(&expect))) {
                Err(p) => Verdict::fail(format!("column/panic:{}", p.site()), p.short()),
                Ok((s, b)) => {
                    if s != expect {
                        Verdict::fail("column/letters", format!("{} -> {:?}", i, s))
                    } else if b != i {
                        Verdict::fail("column/inverse", format!("{:?} -> {}", expect, b))
                    } else {
                        Verdict::Pass
                    }
                }
            })
        }
        "names" => {
            let name = case["name"].as_str()?.to_string();
            let expect = ref_col_index(&name);
            Some(match guard(|| {
                let i = column_index_from_string(&name);
                (i, string_from_column_index(&i))
            }) {
                Err(p) => Verdict::fail(format!("name/panic:{}", p.site()), p.short()),
                Ok((i, back)) => {
                    if i != expect {
                        Verdict::fail("name/index", format!("{:?} -> {}", name, i))
                    } else if back != name {
                        Verdict::fail("name/inverse", format!("{:?} -> {:?}", name, back))
                    } else {
                        Verdict::Pass
                    }
                }
            })
        }
        _ => None,
    }
}

// ---------------------------------------------------------------------------------------
// generated: ranges

#[derive(Debug, Clone, Serialize, Deserialize)]
pub struct Corner {
    pub col: u32,
    pub row: u32,
    pub lock_col: bool,
    pub lock_row: bool,
}

#[derive(Debug, Clone, Serialize, Deserialize)]
pub enum RangeCase {
    Cell(Corner),
    Cells(Corner, Corner),
    Rows(u32, bool, u32, bool),
    Cols(u32, bool, u32, bool),
}

pub fn col_strategy() -> BoxedStrategy<u32> {
    prop_oneof![
        3 => prop::sample::select(vec![1u32, 2, 25, 26, 27, 28, 52, 53, 701, 702, 703, 704, 16383, 16384]),
        2 => 1u32..=60,
        1 => 1u32..=16384,
    ]
    .boxed()
}
pub fn row_strategy() -> BoxedStrategy<u32> {
    prop_oneof![
        3 => prop::sample::select(vec![1u32, 2, 9, 10, 99, 100, 65535, 65536, 65537, 1048575, 1048576]),
        2 => 1u32..=80,
        1 => 1u32..=1048576,
    ]
    .boxed()
}
fn corner() -> BoxedStrategy<Corner> {
    (col_strategy(), row_strategy(), any::<bool>(), any::<bool>())
        .prop_map(|(col, row, lock_col, lock_row)| Corner {
            col,
            row,
            lock_col,
            lock_row,
        })
        .boxed()
}
fn range_case(_t: Tier) -> BoxedStrategy<RangeCase> {
    prop_oneof![
        2 => corner().prop_map(RangeCase::Cell),
        4 => (corner(), corner()).prop_map(|(a, b)| {
            // print from top-left / bottom-right corners
            let (c1, c2) = (a.col.min(b.col), a.col.max(b.col));
            let (r1, r2) = (a.row.min(b.row), a.row.max(b.row));
            RangeCase::Cells(
                Corner { col: c1, row: r1, lock_col: a.lock_col, lock_row: a.lock_row },
                Corner { col: c2, row: r2, lock_col: b.lock_col, lock_row: b.lock_row },
            )
        }),
        2 => (row_strategy(), any::<bool>(), row_strategy(), any::<bool>()).prop_map(|(a, la, b, lb)| RangeCase::Rows(a.min(b), la, a.max(b), lb)),
        2 => (col_strategy(), any::<bool>(), col_strategy(), any::<bool>()).prop_map(|(a, la, b, lb)| RangeCase::Cols(a.min(b), la, a.max(b), lb)),
    ]
    .boxed()
}

fn print_corner(c: &Corner) -> String {
    format!(
        "{}{}{}{}",
        if c.lock_col { "$" } else { "" },
        ref_col_name(c.col),
        if c.lock_row { "$" } else { "" },
        c.row
    )
}

pub fn print_range(r: &RangeCase) -> String {
    match r {
        RangeCase::Cell(c) => print_corner(c),
        RangeCase::Cells(a, b) => format!("{}:{}", print_corner(a), print_corner(b)),
        RangeCase::Rows(a, la, b, lb) => format!("{}{}:{}{}", if *la { "$" } else { "" }, a, if *lb { "$" } else { "" }, b),
        RangeCase::Cols(a, la, b, lb) => format!(
            "{}{}:{}{}",
            if *la { "$" } else { "" },
            ref_col_name(*a),
            if *lb { "$" } else { "" },
            ref_col_name(*b)
        ),
    }
}

type Ends = (Option<(u32, bool)>, Option<(u32, bool)>, Option<(u32, bool)>, Option<(u32, bool)>);

fn expected_ends(r: &RangeCase) -> Ends {
    match r {
        RangeCase::Cell(c) => (Some((c.col, c.lock_col)), Some((c.row, c.lock_row)), None, None),
        RangeCase::Cells(a, b) => (
            Some((a.col, a.lock_col)),
            Some((a.row, a.lock_row)),
            Some((b.col, b.lock_col)),
            Some((b.row, b.lock_row)),
        ),
        RangeCase::Rows(a, la, b, lb) => (None, Some((*a, *la)), None, Some((*b, *lb))),
        RangeCase::Cols(a, la, b, lb) => (Some((*a, *la)), None, Some((*b, *lb)), None),
    }
}

fn check_range(r: &RangeCase, obs: &mut Obs) -> Verdict {
    let s = print_range(r);
    let shape = match r {
        RangeCase::Cell(_) => "cell",
        RangeCase::Cells(..) => "cell:cell",
        RangeCase::Rows(..) => "rows",
        RangeCase::Cols(..) => "cols",
    };
    obs.class(shape);
    obs.nontrivial(s.contains('$') || matches!(r, RangeCase::Cell(c) | RangeCase::Cells(c, _) if c.col >= 27) || matches!(r, RangeCase::Cols(a, ..) if *a >= 27));
    let small = match r {
        RangeCase::Cells(a, b) => ((b.col - a.col + 1) as u64) * ((b.row - a.row + 1) as u64) <= 400,
        RangeCase::Cell(_) => true,
        _ => false,
    };
    let cells_shape = matches!(r, RangeCase::Cell(_) | RangeCase::Cells(..));
    let res = guard(|| {
        let mut rg = Range::default();
        rg.set_range(s.clone());
        let ends: Ends = (
            rg.get_coordinate_start_col().map(|v| (*v.get_num(), *v.get_is_lock())),
            rg.get_coordinate_start_row().map(|v| (*v.get_num(), *v.get_is_lock())),
            rg.get_coordinate_end_col().map(|v| (*v.get_num(), *v.get_is_lock())),
            rg.get_coordinate_end_row().map(|v| (*v.get_num(), *v.get_is_lock())),
        );
        let printed = rg.get_range();
        // get_start_and_end_point documents (assert "Non-standard range.") that it takes
        // cell and cell:cell strings only; whole rows/columns go through Range alone
        let pts = if cells_shape { get_start_and_end_point(&s) } else { (0, 0, 0, 0) };
        let list = if small { Some(get_coordinate_list(&s)) } else { None };
        (ends, printed, pts, list)
    });
    match res {
        Err(p) => Verdict::fail(format!("range/{}/panic:{}", shape, p.site()), format!("{:?}: {}", s, p.short())),
        Ok((ends, printed, pts, list)) => {
            if ends != expected_ends(r) {
                return Verdict::fail(format!("range/{}/struct-parse", shape), format!("{:?} parsed to {:?}", s, ends));
            }
            if printed != s {
                return Verdict::fail(format!("range/{}/struct-print", shape), format!("{:?} printed back as {:?}", s, printed));
            }
            let (rs, re, cs, ce) = pts;
            let ok = match r {
                RangeCase::Cell(c) => (rs, re, cs, ce) == (c.row, c.row, c.col, c.col),
                RangeCase::Cells(a, b) => (rs, re, cs, ce) == (a.row, b.row, a.col, b.col),
                RangeCase::Rows(..) | RangeCase::Cols(..) => true,
            };
            if !ok {
                return Verdict::fail(format!("range/{}/points", shape), format!("{:?} -> (rs,re,cs,ce)={:?}", s, pts));
            }
            if let Some(list) = list {
                let (a, b) = match r {
                    RangeCase::Cell(c) => (c, c),
                    RangeCase::Cells(a, b) => (a, b),
                    _ => unreachable!(),
                };
                let mut exp = Vec::new();
                for row in a.row..=b.row {
                    for col in a.col..=b.col {
                        exp.push((col, row));
                    }
                }
                if list != exp {
                    return Verdict::fail(format!("range/{}/list", shape), format!("{:?} -> {} cells, expected {}", s, list.len(), exp.len()));
                }
            }
            Verdict::Pass
        }
    }
}

// ---------------------------------------------------------------------------------------
// generated: sheet-qualified addresses

#[derive(Debug, Clone, Serialize, Deserialize)]
pub struct AddrCase {
    pub sheet: String,
    pub range: RangeCase,
}

/// Names whose first or last character is a blank that is not the ASCII space (legal in a
/// sheet name; the general alphabet keeps names blank-free at the edges).
fn edge_blank_name() -> BoxedStrategy<String> {
    (prop::sample::select(vec!["", "\u{3000}", "\u{a0}", " "]), "[A-Za-z][A-Za-z0-9]{0,6}", prop::sample::select(vec!["", "\u{3000}", "\u{a0}", " "]))
        .prop_map(|(a, b, c)| format!("{}{}{}", a, b, c))
        .boxed()
}

fn addr_case(t: Tier) -> BoxedStrategy<AddrCase> {
    (prop_oneof![9 => sheet_name(), 1 => edge_blank_name()], range_case(t))
        .prop_map(|(sheet, range)| AddrCase { sheet, range })
        .boxed()
}

/// Does Excel require quotes around this sheet name in a reference?
pub fn needs_quote(name: &str) -> bool {
    let first = name.chars().next().unwrap_or('a');
    if first.is_ascii_digit() {
        return true;
    }
    if name.chars().any(|c| !(c.is_alphanumeric() || c == '_' || c == '.')) {
        return true;
    }
    // looks like a cell reference or R1C1 / boolean
    let up = name.to_uppercase();
    let letters: String = up.chars().take_while(|c| c.is_ascii_alphabetic()).collect();
    let digits: String = up.chars().skip(letters.len()).collect();
    if !letters.is_empty() && letters.len() <= 3 && !digits.is_empty() && digits.chars().all(|c| c.is_ascii_digit()) {
        return true;
    }
    matches!(up.as_str(), "TRUE" | "FALSE" | "R" | "C" | "RC") || up.starts_with('R') && up[1..].chars().all(|c| c.is_ascii_digit() || c == 'C')
}

pub fn excel_quote(name: &str) -> String {
    format!("'{}'", name.replace('\'', "''"))
}

/// Reference parser of `sheet!range`: returns (sheet, range) or None when the qualifier is
/// not a legal rendering of any sheet name.
pub fn ref_parse_address(s: &str) -> Option<(String, String)> {
    if let Some(rest) = s.strip_prefix('\'') {
        // quoted: '' is an escaped quote
        let chars: Vec<char> = rest.chars().collect();
        let mut name = String::new();
        let mut i = 0;
        loop {
            if i >= chars.len() {
                return None;
            }
            if chars[i] == '\'' {
                if i + 1 < chars.len() && chars[i + 1] == '\'' {
                    name.push('\'');
                    i += 2;
                    continue;
                }
                i += 1;
                break;
            }
            name.push(chars[i]);
            i += 1;
        }
        if i >= chars.len() || chars[i] != '!' {
            return None;
        }
        let range: String = chars[i + 1..].iter().collect();
        Some((name, range))
    } else {
        let (name, range) = s.split_once('!')?;
        if name.is_empty() || name.chars().any(|c| c.is_whitespace() || "'!\"&<>-()+,=#$%;{}^~`@|".contains(c)) {
            return None;
        }
        Some((name.to_string(), range.to_string()))
    }
}

fn check_addr(c: &AddrCase, obs: &mut Obs) -> Verdict {
    let range = print_range(&c.range);
    let nq = needs_quote(&c.sheet);
    obs.nontrivial(nq || range.contains('$'));
    obs.class(if nq { "needs-quote" } else { "bare-name" });
    if c.sheet.contains('!') {
        obs.class("name-with-bang");
    }
    if c.sheet.contains('\'') {
        obs.class("name-with-apostrophe");
    }
    if c.sheet.contains('"') {
        obs.class("name-with-dquote");
    }
    if c.sheet.starts_with(char::is_whitespace) || c.sheet.ends_with(char::is_whitespace) {
        obs.class("name-with-edge-blank");
    }
    let feature = if c.sheet.starts_with('"') || c.sheet.ends_with('"') {
        "edge-dquote"
    } else if c.sheet.contains('\'') {
        "apostrophe"
    } else if c.sheet.contains('!') {
        "bang"
    } else if nq {
        "quoted"
    } else {
        "bare"
    };
    // (a) join then split, raw name
    let r = guard(|| {
        let j = join_address(&c.sheet, &range);
        let (s, r) = split_address(&j);
        (j.clone(), s.to_string(), r.to_string())
    });
    match r {
        Err(p) => return Verdict::fail(format!("addr/{}/join-split/panic:{}", feature, p.site()), p.short()),
        Ok((j, s, r)) => {
            if s != c.sheet || r != range {
                return Verdict::fail(
                    format!("addr/{}/join-split", feature),
                    format!("join({:?},{:?})={:?} split to ({:?},{:?})", c.sheet, range, j, s, r),
                );
            }
        }
    }
    // (b) split of the quoted rendering used in files
    let quoted = format!("{}!{}", excel_quote(&c.sheet), range);
    match guard(|| {
        let (s, r) = split_address(&quoted);
        (s.to_string(), r.to_string())
    }) {
        Err(p) => return Verdict::fail(format!("addr/{}/split-quoted/panic:{}", feature, p.site()), p.short()),
        Ok((s, r)) => {
            // split_address returns a borrowed slice and therefore cannot undo the doubling
            // of apostrophes; callers (DefinedName) undo it before calling.  The statement
            // is about losslessness, so the doubled form is accepted here and the full
            // round trip through the owning types is checked below.
            let s_ok = s == c.sheet || s == c.sheet.replace('\'', "''");
            if !s_ok || r != range {
                return Verdict::fail(
                    format!("addr/{}/split-quoted", feature),
                    format!("{:?} split to ({:?},{:?})", quoted, s, r),
                );
            }
        }
    }
    // (c) Address: set_address(join form) / get_address re-parsed by the reference parser
    let only_cells = matches!(c.range, RangeCase::Cell(_) | RangeCase::Cells(..));
    match guard(|| {
        let mut a = Address::default();
        a.set_address(join_address(&c.sheet, &range));
        (a.get_sheet_name().to_string(), a.get_range().get_range(), a.get_address())
    }) {
        Err(p) => return Verdict::fail(format!("addr/{}/address/panic:{}", feature, p.site()), p.short()),
        Ok((s, r, printed)) => {
            if s != c.sheet || r != range {
                return Verdict::fail(
                    format!("addr/{}/address-parse", feature),
                    format!("Address({:?}!{:?}) holds ({:?},{:?})", c.sheet, range, s, r),
                );
            }
            // get_address() of Address quotes only names with blanks; re-split with the
            // library's own splitter must give the pair back (join/split inverse)
            let (s2, r2) = split_address(&printed);
            if s2 != c.sheet || r2 != range {
                return Verdict::fail(
                    format!("addr/{}/address-print", feature),
                    format!("Address printed {:?} which splits to ({:?},{:?})", printed, s2, r2),
                );
            }
        }
    }
    // (e) chart series formula: what Address prints is what a chart part stores; parsing it
    // back through charts::Formula must give the same sheet and range
    if only_cells {
        match guard(|| {
            let mut a = Address::default();
            a.set_address(join_address(&c.sheet, &range));
            let printed = a.get_address();
            let mut f = umya_spreadsheet::structs::drawing::charts::Formula::default();
            f.set_address_str(printed.clone());
            (printed, f.get_address_str())
        }) {
            Err(p) => return Verdict::fail(format!("addr/{}/chart-formula/panic:{}", feature, p.site()), p.short()),
            Ok((printed, back)) => {
                let (s2, r2) = split_address(&back);
                if s2 != c.sheet || r2 != range {
                    // a name holding two consecutive apostrophes is printed quoted but not
                    // doubled by Address::get_address, and un-doubled again on parsing
                    let feature = if c.sheet.contains("''") { "doubled-apostrophe" } else { feature };
                    return Verdict::fail(
                        format!("addr/{}/chart-formula", feature),
                        format!("chart formula {:?} re-read and printed as {:?} = ({:?},{:?}), expected ({:?},{:?})", printed, back, s2, r2, c.sheet, range),
                    );
                }
            }
        }
    }
    // (d) DefinedName: set_address(excel form) -> get_address -> reference parser
    if only_cells {
        let text = if nq {
            quoted.clone()
        } else {
            format!("{}!{}", c.sheet, range)
        };
        match guard(|| {
            let mut d = DefinedName::default();
            d.set_address(text.clone());
            d.get_address()
        }) {
            Err(p) => return Verdict::fail(format!("addr/{}/defined-name/panic:{}", feature, p.site()), p.short()),
            Ok(out) => match ref_parse_address(&out) {
                Some((s, r)) if s == c.sheet && r == range => {}
                other => {
                    return Verdict::fail(
                        format!("addr/{}/defined-name", feature),
                        format!("DefinedName {:?} printed {:?} = {:?}, expected ({:?},{:?})", text, out, other, c.sheet, range),
                    )
                }
            },
        }
    }
    Verdict::Pass
}

fn subs() -> Vec<Box<dyn DynSub>> {
    vec![
        Box::new(Sub {
            name: "ranges",
            strategy: range_case,
            cases: (4000, 200_000),
            check: check_range,
            max_shrink_iters: 2000,
        }),
        Box::new(Sub {
            name: "addresses",
            strategy: addr_case,
            cases: (4000, 200_000),
            check: check_addr,
            max_shrink_iters: 2000,
        }),
    ]
}
