//! C16 — concurrent saves of a workbook or its clones equal sequential saves.
//!
//! Hook H1 (`umya_spreadsheet::verif_hooks`, cfg(umya_verif)) gives a yield point in front of
//! every shared-string-table operation of the writer.  `sched` below is a cooperative
//! token-passing scheduler: the savers are real threads, exactly one of them is runnable at
//! any time, and a generated *schedule* decides which saver performs its next step.  See
//! notes/C16.md for the guarantees.
use super::c12::{decode_package, save_to_vec, unzip_parts, DecodedSheet};
use super::Prop;
use crate::engine::*;
use proptest::prelude::*;
use rayon::prelude::*;
use serde::{Deserialize, Serialize};
use serde_json::{json, Value};
use std::collections::BTreeMap;
use std::io::Cursor;
use std::sync::atomic::{AtomicBool, AtomicU64, Ordering};
use std::sync::{Arc, Barrier};
use umya_spreadsheet::{reader, Spreadsheet};

pub fn prop() -> Prop {
    Prop {
        id: "C16",
        describe,
        subs,
        extra,
        replay_extra,
        watchdog_s: (900, 14400),
    }
}

fn describe(ctx: &Ctx) {
    ctx.rule("2..3 savers (real threads under a cooperative scheduler driven by hook H1) save the same workbook through shared references or clones of one workbook whose string sets are equal / disjoint / overlapping, 2..5 text cells each, base workbook never saved / saved once before / reloaded from a file / lazily reloaded; the schedule (which saver performs its next shared-string-table step) is generated: random (sub `random`), every interleaving of the 2-saver configurations (sub `exhaustive2`; quick: 2 text cells each, thorough: up to 5), a bounded seeded sample of 3-saver interleavings (sub `sample3`), plus free-running threads without scheduler (sub `stress`). Non-trivial = the executed trace switches to another saver directly after a string registration of a saver that has not finished (i.e. between two registrations or between the last registration and the dump); distinct by configuration + schedule");
    ctx.assume("decided at the granularity of H1's yield points: steps between two yield points are atomic (the RwLock makes each table operation atomic); the free-running leg only samples OS schedules");
    ctx.assume("a saver that does not reach its next yield point within 300 s although it is the only runnable thread ends the process with exit 2 (inconclusive), never with a violation; blocking at the hooked lock sites is recognised without a clock (try-lock probe of H1)");
    ctx.assume("content = decoded cells (independent decoder and the library's reader); unreferenced entries of sharedStrings.xml are C12's subject, not C16's");
}

// ---------------------------------------------------------------------------------------
// cooperative scheduler

pub mod sched {
    use crate::engine::{guard, pick_idx, PanicInfo};
    use std::cell::RefCell;
    use std::sync::{Arc, Condvar, Mutex};
    use std::time::{Duration, Instant};

    #[derive(Clone, Copy, PartialEq, Debug)]
    enum SState {
        Starting,
        Running,
        Parked { site: &'static str, blocked: bool },
        Done,
    }

    struct St {
        /// the saver that holds the token (set by the controller, cleared by the saver when it parks or finishes)
        turn: Option<usize>,
        savers: Vec<SState>,
        abort: bool,
    }

    pub struct Ctl {
        st: Mutex<St>,
        cv: Condvar,
    }

    thread_local! {
        static CURRENT: RefCell<Option<(Arc<Ctl>, usize)>> = RefCell::new(None);
    }

    /// The process-global H1 callback.  Routed by thread identity: only threads that were
    /// started as savers of a scheduled case have a controller; for every other thread
    /// (other cases' controllers, sequential reference saves, the stress leg) it is a no-op,
    /// so cases running in parallel on the rayon pool do not interfere.
    pub fn dispatch(site: &'static str, blocked: bool) {
        let cur = CURRENT.with(|c| c.borrow().clone());
        match cur {
            Some((ctl, id)) => ctl.park(id, site, blocked),
            None => {
                if blocked {
                    std::thread::yield_now();
                }
            }
        }
    }

    impl Ctl {
        fn park(&self, id: usize, site: &'static str, blocked: bool) {
            let mut g = self.st.lock().unwrap();
            g.savers[id] = SState::Parked { site, blocked };
            if g.turn == Some(id) {
                g.turn = None;
            }
            self.cv.notify_all();
            loop {
                if g.abort {
                    drop(g);
                    panic!("verif: scheduler aborted this saver");
                }
                if g.turn == Some(id) {
                    break;
                }
                g = self.cv.wait(g).unwrap();
            }
            g.savers[id] = SState::Running;
        }
        fn done(&self, id: usize) {
            let mut g = self.st.lock().unwrap();
            g.savers[id] = SState::Done;
            if g.turn == Some(id) {
                g.turn = None;
            }
            self.cv.notify_all();
        }
    }

    #[derive(Clone, Debug)]
    pub struct Step {
        pub saver: usize,
        /// the yield point the saver was resumed from (the step executes what follows it)
        pub site: &'static str,
        /// the resumed saver found the lock still held and reported back without progress
        pub blocked: bool,
    }

    pub struct Outcome<R> {
        pub results: Vec<Result<R, PanicInfo>>,
        /// choice steps only (automatic advances over uninteresting sites are not listed)
        pub trace: Vec<Step>,
        pub deadlock: Option<String>,
    }

    /// Yield points at which the controller makes a choice.  `start` (before the library is
    /// entered) and `make_buffer_exit` (everything shared is done) are passed automatically.
    fn interesting(site: &str) -> bool {
        !matches!(site, "start" | "make_buffer_exit")
    }

    fn raw_for(idx: usize, len: usize) -> u16 {
        (((idx << 16) + len - 1) / len) as u16
    }

    /// Schedule (raw choices) that realises `word` (sequence of saver ids) when saver i has
    /// `counts[i]` choice steps and nobody blocks.
    pub fn schedule_for_word(word: &[u8], counts: &[usize]) -> Vec<u16> {
        let mut rem = counts.to_vec();
        let mut out = Vec::with_capacity(word.len());
        for &s in word {
            let live: Vec<usize> = (0..rem.len()).filter(|i| rem[*i] > 0).collect();
            let idx = live.iter().position(|i| *i == s as usize).expect("word consistent with counts");
            out.push(raw_for(idx, live.len()));
            debug_assert_eq!(pick_idx(raw_for(idx, live.len()), live.len()), idx);
            rem[s as usize] -= 1;
        }
        out
    }

    const STEP_TIMEOUT: Duration = Duration::from_secs(300);

    /// Wait until nobody holds the token and no saver is starting or running.  The wall clock
    /// is consulted for one purpose only: if the single runnable thread does not come back
    /// within STEP_TIMEOUT the run is inconclusive (exit 2) — never a verdict.
    fn wait_quiet<'a>(ctl: &'a Ctl, mut g: std::sync::MutexGuard<'a, St>) -> std::sync::MutexGuard<'a, St> {
        let t0 = Instant::now();
        while g.turn.is_some() || g.savers.iter().any(|s| matches!(s, SState::Starting | SState::Running)) {
            let (ng, _) = ctl.cv.wait_timeout(g, Duration::from_secs(2)).unwrap();
            g = ng;
            if t0.elapsed() > STEP_TIMEOUT {
                println!(
                    "INCONCLUSIVE property=C16 the scheduled saver neither reached a yield point nor finished within {} s (states {:?}); it is blocked outside the lock sites H1 probes",
                    STEP_TIMEOUT.as_secs(),
                    g.savers
                );
                std::process::exit(2);
            }
        }
        g
    }

    /// Run the jobs as threads of which exactly one is runnable at a time.  At every point
    /// where all live savers are parked at an interesting yield point the next entry of
    /// `schedule` selects (monotonically, among the savers that can make progress) the one
    /// that runs until its next yield point; when the schedule is used up the lowest id runs.
    pub fn run_scheduled<R: Send, F: FnOnce() -> R + Send>(jobs: Vec<F>, schedule: &[u16]) -> Outcome<R> {
        let n = jobs.len();
        let ctl = Arc::new(Ctl { st: Mutex::new(St { turn: None, savers: vec![SState::Starting; n], abort: false }), cv: Condvar::new() });
        let mut trace: Vec<Step> = Vec::new();
        let mut deadlock: Option<String> = None;
        let results: Vec<Result<R, PanicInfo>> = std::thread::scope(|scope| {
            let mut handles = Vec::new();
            for (id, job) in jobs.into_iter().enumerate() {
                let ctl = ctl.clone();
                let h = std::thread::Builder::new()
                    .stack_size(16 << 20)
                    .spawn_scoped(scope, move || {
                        CURRENT.with(|c| *c.borrow_mut() = Some((ctl.clone(), id)));
                        let r = guard(|| {
                            ctl.park(id, "start", false);
                            job()
                        });
                        CURRENT.with(|c| *c.borrow_mut() = None);
                        ctl.done(id);
                        r
                    })
                    .expect("spawn saver thread");
                handles.push(h);
            }
            // controller
            let mut next = 0usize; // next schedule entry
            let mut progress = 0u64; // number of steps that did something
            let mut blocked_at: Vec<Option<u64>> = vec![None; n]; // progress value at which a saver reported "blocked"
            let mut g = wait_quiet(&ctl, ctl.st.lock().unwrap());
            loop {
                let live: Vec<usize> = (0..n).filter(|i| matches!(g.savers[*i], SState::Parked { .. })).collect();
                if live.is_empty() {
                    break;
                }
                // automatic advance over uninteresting sites (nothing shared happens there; not a choice)
                if let Some(&id) = live.iter().find(|i| matches!(g.savers[**i], SState::Parked { site, blocked: false } if !interesting(site))) {
                    g.turn = Some(id);
                    ctl.cv.notify_all();
                    g = wait_quiet(&ctl, g);
                    progress += 1;
                    continue;
                }
                let runnable: Vec<usize> = live
                    .iter()
                    .copied()
                    .filter(|i| match g.savers[*i] {
                        SState::Parked { blocked: true, .. } => blocked_at[*i].map_or(true, |p| p < progress),
                        _ => true,
                    })
                    .collect();
                if runnable.is_empty() {
                    // every live saver has probed its lock since anybody last made progress and found it
                    // held: nothing can change any more -> deadlock, decided without a clock
                    deadlock = Some(format!(
                        "all live savers are blocked: {:?}",
                        live.iter().map(|i| format!("saver {} at {:?}", i, g.savers[*i])).collect::<Vec<_>>()
                    ));
                    g.abort = true;
                    ctl.cv.notify_all();
                    break;
                }
                let raw = if next < schedule.len() { schedule[next] } else { 0 };
                next += 1;
                let id = runnable[pick_idx(raw, runnable.len())];
                let site = match g.savers[id] {
                    SState::Parked { site, .. } => site,
                    _ => unreachable!(),
                };
                g.turn = Some(id);
                ctl.cv.notify_all();
                g = wait_quiet(&ctl, g);
                if let SState::Parked { blocked: true, .. } = g.savers[id] {
                    // the saver only probed its lock and reported back: no progress
                    trace.push(Step { saver: id, site, blocked: true });
                    blocked_at[id] = Some(progress);
                } else {
                    trace.push(Step { saver: id, site, blocked: false });
                    blocked_at[id] = None;
                    progress += 1;
                }
            }
            drop(g);
            handles.into_iter().map(|h| h.join().unwrap_or_else(|_| Err(PanicInfo { msg: "saver thread died".into(), file: "?".into(), line: 0 }))).collect()
        });
        Outcome { results, trace, deadlock }
    }
}

// ---------------------------------------------------------------------------------------
// case

#[derive(Debug, Clone, Serialize, Deserialize)]
pub struct ConcCase {
    /// 0 = all savers save the same workbook through shared references; 1 = each saver saves its own clone
    pub mode: u8,
    /// history of the base workbook: 0 never saved, 1 saved once before, 2 written and read back, 3 written and read back lazily
    pub pre: u8,
    /// clones only: 0 equal string sets, 1 disjoint, 2 overlapping
    pub relation: u8,
    /// text cells per saver (2..=5); the length is the number of savers (2..=3)
    pub cells: Vec<u8>,
    /// the last text cell of a saver repeats its first string
    pub dup: bool,
    /// the workbook has a second sheet with one text cell (not edited by the savers)
    pub second_sheet: bool,
    pub schedule: Vec<u16>,
}

fn norm(c: &ConcCase) -> ConcCase {
    let mut c = c.clone();
    c.mode %= 2;
    c.pre %= 4;
    c.relation %= 3;
    if c.cells.len() < 2 {
        c.cells.resize(2, 2);
    }
    c.cells.truncate(3);
    for n in c.cells.iter_mut() {
        *n = (*n).clamp(2, 5);
    }
    if c.mode == 0 || c.relation == 0 {
        let n0 = c.cells[0];
        for n in c.cells.iter_mut() {
            *n = n0;
        }
    }
    c
}

fn feature(c: &ConcCase) -> String {
    if c.mode == 0 {
        "same-workbook".to_string()
    } else {
        format!("clones-{}", ["equal", "disjoint", "overlapping"][c.relation as usize])
    }
}

/// The string saver `i` has in text cell `j` (cell A{j+1} of the first sheet).
fn string_of(c: &ConcCase, i: usize, j: usize) -> String {
    let n = c.cells[i] as usize;
    let j = if c.dup && j + 1 == n { 0 } else { j };
    let own = c.mode == 1 && (c.relation == 1 || (c.relation == 2 && j % 2 == 1));
    if own {
        format!("saver{}cell{}", i, j)
    } else {
        format!("base{}", j)
    }
}

type Cells = BTreeMap<(u32, u32), (String, String)>;

/// What saver i's file must decode to: sheet name -> (row, col) -> (kind, text).
fn expected(c: &ConcCase, i: usize) -> Vec<(String, Cells)> {
    let mut s1 = Cells::new();
    for j in 0..c.cells[i] as usize {
        s1.insert((j as u32 + 1, 1), ("s".to_string(), string_of(c, i, j)));
    }
    s1.insert((1, 2), ("n".to_string(), "7".to_string()));
    let mut out = vec![("Sheet1".to_string(), s1)];
    if c.second_sheet {
        let mut s2 = Cells::new();
        s2.insert((1, 1), ("s".to_string(), "second0".to_string()));
        out.push(("Two".to_string(), s2));
    }
    out
}

fn fail_build(what: &str, p: PanicInfo) -> Verdict {
    Verdict::fail(format!("build/{}-panic:{}", what, p.site()), p.short())
}

/// Builds the family of workbooks to be saved (one entry per saver; in mode 0 all entries
/// are the same Arc).
fn build_family(c: &ConcCase) -> Result<Vec<Arc<Spreadsheet>>, Verdict> {
    let nsav = c.cells.len();
    let nmax = *c.cells.iter().max().unwrap() as usize;
    let base = guard(|| {
        let mut wb = umya_spreadsheet::new_file();
        {
            let ws = wb.get_sheet_mut(&0).unwrap();
            for j in 0..nmax {
                let text = if c.mode == 0 { string_of(c, 0, j) } else { format!("base{}", j) };
                ws.get_cell_mut((1u32, j as u32 + 1)).set_value_string(text);
            }
            ws.get_cell_mut((2u32, 1u32)).set_value_number(7);
        }
        if c.second_sheet {
            let ws = wb.new_sheet("Two").unwrap();
            ws.get_cell_mut((1u32, 1u32)).set_value_string("second0");
        }
        wb
    })
    .map_err(|p| fail_build("base", p))?;
    let base = match c.pre {
        0 => base,
        1 => {
            match save_to_vec(&base) {
                Ok(Ok(_)) => {}
                Ok(Err(e)) => return Err(Verdict::fail("build/pre-save-error", e)),
                Err(p) => return Err(fail_build("pre-save", p)),
            }
            base
        }
        _ => {
            let bytes = match save_to_vec(&base) {
                Ok(Ok(b)) => b,
                Ok(Err(e)) => return Err(Verdict::fail("build/pre-save-error", e)),
                Err(p) => return Err(fail_build("pre-save", p)),
            };
            match guard(|| reader::xlsx::read_reader(Cursor::new(&bytes[..]), c.pre == 2)) {
                Ok(Ok(wb)) => wb,
                Ok(Err(e)) => return Err(Verdict::fail("build/pre-load-error", format!("{:?}", e))),
                Err(p) => return Err(fail_build("pre-load", p)),
            }
        }
    };
    if c.mode == 0 {
        let shared = Arc::new(base);
        return Ok((0..nsav).map(|_| shared.clone()).collect());
    }
    let mut out = Vec::new();
    for i in 0..nsav {
        let wb = guard(|| {
            let mut wb = base.clone();
            let n = c.cells[i] as usize;
            let needs_edit = n < nmax || (0..n).any(|j| string_of(c, i, j) != format!("base{}", j));
            if needs_edit {
                let ws = wb.get_sheet_mut(&0).unwrap();
                for j in 0..nmax {
                    if j >= n {
                        ws.remove_cell((1u32, j as u32 + 1));
                    } else {
                        let s = string_of(c, i, j);
                        if s != format!("base{}", j) {
                            ws.get_cell_mut((1u32, j as u32 + 1)).set_value_string(s);
                        }
                    }
                }
            }
            wb
        })
        .map_err(|p| fail_build("clone", p))?;
        out.push(Arc::new(wb));
    }
    Ok(out)
}

fn library_view(bytes: &[u8]) -> Result<Vec<(String, Vec<(u32, u32, String, String)>)>, String> {
    match guard(|| reader::xlsx::read_reader(Cursor::new(bytes), true)) {
        Err(p) => Err(format!("panic:{}|{}", p.site(), p.short())),
        Ok(Err(e)) => Err(format!("error|{:?}", e)),
        Ok(Ok(wb)) => Ok(wb
            .get_sheet_collection_no_check()
            .iter()
            .map(|ws| {
                let mut cells: Vec<(u32, u32, String, String)> = ws
                    .get_cell_collection()
                    .iter()
                    .map(|c| (*c.get_coordinate().get_row_num(), *c.get_coordinate().get_col_num(), c.get_data_type().to_string(), c.get_value().to_string()))
                    .collect();
                cells.sort();
                (ws.get_name().to_string(), cells)
            })
            .collect()),
    }
}

fn with_values(d: &[(String, DecodedSheet)]) -> Vec<(String, Cells)> {
    d.iter().map(|(n, cells)| (n.clone(), cells.clone())).collect()
}

type SaveResult = Result<Vec<u8>, String>;

/// Judge the file a saver produced against the specification and the sequential reference.
fn judge_output(c: &ConcCase, i: usize, how: &str, res: &Result<SaveResult, PanicInfo>, reference: &[u8]) -> Result<(), Verdict> {
    let f = feature(c);
    let bytes = match res {
        Err(p) => return Err(Verdict::fail(format!("{}/{}-save-panic:{}", f, how, p.site()), format!("saver {}: {}", i, p.short()))),
        Ok(Err(e)) => return Err(Verdict::fail(format!("{}/{}-save-error", f, how), format!("saver {}: {}", i, e))),
        Ok(Ok(b)) => b,
    };
    let want = expected(c, i);
    let parts = unzip_parts(bytes).map_err(|e| Verdict::fail(format!("{}/{}-file-not-a-zip", f, how), format!("saver {}: {}", i, e)))?;
    let got = match decode_package(&parts) {
        Ok(d) => with_values(&d),
        Err(e) => return Err(Verdict::fail(format!("{}/{}-file-undecodable", f, how), format!("saver {}: {}", i, e))),
    };
    if got != want {
        return Err(Verdict::fail(
            format!("{}/{}-cell-shows-other-string", f, how),
            format!("saver {}: file decodes to {:?}, the workbook has {:?}", i, got, want),
        ));
    }
    let lib = match library_view(bytes) {
        Ok(v) => v,
        Err(e) => {
            let (kind, detail) = e.split_once('|').unwrap_or((&e, ""));
            return Err(Verdict::fail(format!("{}/{}-file-reload-{}", f, how, kind), format!("saver {}: {}", i, detail)));
        }
    };
    let lib_ref = match library_view(reference) {
        Ok(v) => v,
        Err(e) => return Err(Verdict::fail(format!("{}/sequential-file-reload-fails", f), format!("saver {}: {}", i, e))),
    };
    if lib != lib_ref {
        return Err(Verdict::fail(
            format!("{}/{}-differs-from-sequential", f, how),
            format!("saver {}: reloaded {:?}, sequential save reloads as {:?}", i, lib, lib_ref),
        ));
    }
    Ok(())
}

/// Sequential reference: a separately built, identical family saved one after the other.
fn sequential_reference(c: &ConcCase) -> Result<Vec<Vec<u8>>, Verdict> {
    let fam = build_family(c)?;
    let mut out = Vec::new();
    for (i, wb) in fam.iter().enumerate() {
        let r = save_to_vec(wb);
        // the reference must itself satisfy the specification
        let bytes = match &r {
            Ok(Ok(b)) => b.clone(),
            _ => Vec::new(),
        };
        judge_output(c, i, "sequential", &r, &bytes)?;
        out.push(bytes);
    }
    Ok(out)
}

fn trace_nontrivial(trace: &[sched::Step]) -> bool {
    let ran: Vec<&sched::Step> = trace.iter().filter(|s| !s.blocked).collect();
    ran.windows(2).any(|w| w[0].site == "cell_register" && w[1].saver != w[0].saver)
}

fn check_conc(c0: &ConcCase, obs: &mut Obs) -> Verdict {
    // (re)install the router at the start of every case; it is the same function for all
    // cases and routes by thread identity, see sched::dispatch
    umya_spreadsheet::verif_hooks::set_yield_callback(Some(sched::dispatch));
    let c = norm(c0);
    let reference = match sequential_reference(&c) {
        Ok(r) => r,
        Err(v) => return v,
    };
    let fam = match build_family(&c) {
        Ok(f) => f,
        Err(v) => return v,
    };
    let jobs: Vec<_> = fam
        .iter()
        .map(|wb| {
            let wb = wb.clone();
            move || -> SaveResult {
                let mut buf: Vec<u8> = Vec::new();
                umya_spreadsheet::writer::xlsx::write_writer(&wb, &mut buf).map(|_| buf).map_err(|e| format!("{:?}", e))
            }
        })
        .collect();
    let out = sched::run_scheduled(jobs, &c.schedule);
    let nt = trace_nontrivial(&out.trace);
    obs.nontrivial(nt);
    obs.class(feature(&c));
    obs.class(format!("pre/{}", ["never-saved", "saved-before", "reloaded", "lazily-reloaded"][c.pre as usize]));
    obs.class(format!("savers/{}", c.cells.len()));
    let switches = out.trace.windows(2).filter(|w| w[0].saver != w[1].saver).count();
    obs.class(format!("switches/{}", match switches { 0 => "0", 1 => "1", 2..=4 => "2-4", _ => "5+" }));
    if out.trace.iter().any(|s| s.blocked) {
        obs.class("trace/has-blocked-report");
    }
    let f = feature(&c);
    let trace_txt = || out.trace.iter().map(|s| format!("{}:{}{}", s.saver, s.site, if s.blocked { "(blocked)" } else { "" })).collect::<Vec<_>>().join(" ");
    if let Some(d) = &out.deadlock {
        return Verdict::fail(format!("{}/deadlock", f), format!("{}; trace: {}", d, trace_txt()));
    }
    for (i, r) in out.results.iter().enumerate() {
        if let Err(v) = judge_output(&c, i, "concurrent", r, &reference[i]) {
            return match v {
                Verdict::Fail { key, detail } => Verdict::fail(key, format!("{}; trace: {}", detail, trace_txt())),
                v => v,
            };
        }
    }
    Verdict::Pass
}

fn case_strategy(_t: Tier) -> BoxedStrategy<ConcCase> {
    (
        prop_oneof![1 => Just(0u8), 3 => Just(1u8)],
        0u8..=3,
        0u8..=2,
        prop::collection::vec(2u8..=5, 2..=3),
        any::<bool>(),
        prop::bool::weighted(0.3),
        prop::collection::vec(any::<u16>(), 0..=30),
    )
        .prop_map(|(mode, pre, relation, cells, dup, second_sheet, schedule)| ConcCase { mode, pre, relation, cells, dup, second_sheet, schedule })
        .boxed()
}

fn subs() -> Vec<Box<dyn DynSub>> {
    vec![Box::new(Sub { name: "random", strategy: case_strategy, cases: (150, 5000), check: check_conc, max_shrink_iters: 3000 })]
}

// ---------------------------------------------------------------------------------------
// exhaustive interleavings, 3-saver sample, stress

/// Choice steps per saver (from a scheduled run with the default policy = sequential).
fn step_counts(c: &ConcCase) -> Result<Vec<usize>, Verdict> {
    umya_spreadsheet::verif_hooks::set_yield_callback(Some(sched::dispatch));
    let fam = build_family(c)?;
    let jobs: Vec<_> = fam
        .iter()
        .map(|wb| {
            let wb = wb.clone();
            move || -> SaveResult {
                let mut buf: Vec<u8> = Vec::new();
                umya_spreadsheet::writer::xlsx::write_writer(&wb, &mut buf).map(|_| buf).map_err(|e| format!("{:?}", e))
            }
        })
        .collect();
    let out = sched::run_scheduled(jobs, &[]);
    let mut counts = vec![0usize; c.cells.len()];
    for s in &out.trace {
        if !s.blocked {
            counts[s.saver] += 1;
        }
    }
    Ok(counts)
}

/// All words over {0,1} with `a` zeros and `b` ones.
fn words2(a: usize, b: usize) -> Vec<Vec<u8>> {
    fn rec(a: usize, b: usize, cur: &mut Vec<u8>, out: &mut Vec<Vec<u8>>) {
        if a == 0 && b == 0 {
            out.push(cur.clone());
            return;
        }
        if a > 0 {
            cur.push(0);
            rec(a - 1, b, cur, out);
            cur.pop();
        }
        if b > 0 {
            cur.push(1);
            rec(a, b - 1, cur, out);
            cur.pop();
        }
    }
    let mut out = Vec::new();
    rec(a, b, &mut Vec::new(), &mut out);
    out
}

fn configs(cells: &[u8], second_for_eager: bool) -> Vec<ConcCase> {
    let mut v = Vec::new();
    let mk = |mode: u8, pre: u8, relation: u8, second_sheet: bool, dup: bool| ConcCase { mode, pre, relation, cells: cells.to_vec(), dup, second_sheet, schedule: vec![] };
    for pre in 0..=2u8 {
        v.push(mk(0, pre, 0, second_for_eager, false));
        for relation in 0..=2u8 {
            v.push(mk(1, pre, relation, second_for_eager, relation == 2));
        }
    }
    // lazily reloaded base: the second sheet stays unloaded while the first is edited by the clones
    for relation in 1..=2u8 {
        v.push(mk(1, 3, relation, true, false));
    }
    v
}

fn run_enumerated(ctx: &Ctx, sub: &'static str, cases: Vec<ConcCase>, stop: &AtomicBool) {
    let nts = AtomicU64::new(0);
    cases.par_iter().for_each(|c| {
        if stop.load(Ordering::Relaxed) {
            return;
        }
        let mut obs = Obs::default();
        let v = match guard(|| check_conc(c, &mut obs)) {
            Ok(v) => v,
            Err(p) => Verdict::fail(format!("harness-panic:{}", p.site()), p.short()),
        };
        let fp = fnv(serde_json::to_string(c).unwrap().as_bytes()) ^ fnv(sub.as_bytes());
        ctx.count_case(fp, obs.nontrivial);
        if obs.nontrivial && nts.fetch_add(1, Ordering::Relaxed) < 2 {
            ctx.add_sample(json!({"sub": sub, "case": c}));
        }
        for cl in &obs.classes {
            ctx.add_class(&format!("{}/{}", sub, cl), 1);
        }
        if ctx.judge(sub, c, v) {
            stop.store(true, Ordering::Relaxed);
        }
    });
}

fn stress_config(k: u64) -> ConcCase {
    let all = configs(&[5, 5, 5], k % 2 == 0);
    let mut c = all[(k as usize) % all.len()].clone();
    c.dup = k % 3 == 0;
    c
}

/// Free-running leg: the savers are plain threads released by a barrier, each saves its
/// workbook `rounds` times; no scheduler (the callback is a no-op for these threads).
fn check_stress(c0: &ConcCase, rounds: usize) -> Verdict {
    umya_spreadsheet::verif_hooks::set_yield_callback(Some(sched::dispatch));
    let c = norm(c0);
    let reference = match sequential_reference(&c) {
        Ok(r) => r,
        Err(v) => return v,
    };
    let fam = match build_family(&c) {
        Ok(f) => f,
        Err(v) => return v,
    };
    let barrier = Arc::new(Barrier::new(fam.len()));
    let results: Vec<Vec<Result<SaveResult, PanicInfo>>> = std::thread::scope(|s| {
        let hs: Vec<_> = fam
            .iter()
            .map(|wb| {
                let wb = wb.clone();
                let barrier = barrier.clone();
                s.spawn(move || {
                    barrier.wait();
                    (0..rounds).map(|_| save_to_vec(&wb)).collect::<Vec<_>>()
                })
            })
            .collect();
        hs.into_iter().map(|h| h.join().unwrap_or_default()).collect()
    });
    for (i, rs) in results.iter().enumerate() {
        if rs.len() != rounds {
            return Verdict::fail(format!("{}/free-running-saver-died", feature(&c)), format!("saver {} returned {} of {} results", i, rs.len(), rounds));
        }
        for r in rs {
            if let Err(v) = judge_output(&c, i, "free-running", r, &reference[i]) {
                return v;
            }
        }
    }
    Verdict::Pass
}

/// Self-test of the scheduler (a failure is a broken harness: exit 2, never a violation).
fn scheduler_selftest() -> Result<(), String> {
    use std::sync::{Mutex, RwLock};
    use umya_spreadsheet::verif_hooks::{yield_point, yield_point_before_lock};
    umya_spreadsheet::verif_hooks::set_yield_callback(Some(sched::dispatch));
    // 1. the executed order is exactly the scheduled word
    for word in [vec![0u8, 1, 1, 0, 1, 0], vec![1, 1, 1, 0, 0, 0], vec![0, 1, 0, 1, 0, 1], vec![2, 0, 2, 1, 1, 0, 2, 1, 0]] {
        let n = *word.iter().max().unwrap() as usize + 1;
        let counts = vec![3usize; n];
        let log: Mutex<Vec<u8>> = Mutex::new(Vec::new());
        let jobs: Vec<_> = (0..n)
            .map(|i| {
                let log = &log;
                move || {
                    for _ in 0..3 {
                        yield_point("cell_register");
                        log.lock().unwrap().push(i as u8);
                    }
                }
            })
            .collect();
        let out = sched::run_scheduled(jobs, &sched::schedule_for_word(&word, &counts));
        let got = log.lock().unwrap().clone();
        if got != word || out.deadlock.is_some() || out.results.iter().any(|r| r.is_err()) {
            return Err(format!("schedule {:?} executed as {:?} (deadlock {:?})", word, got, out.deadlock));
        }
        let traced: Vec<u8> = out.trace.iter().map(|s| s.saver as u8).collect();
        if traced != word {
            return Err(format!("schedule {:?} traced as {:?}", word, traced));
        }
    }
    // 2. a lock-order inversion deadlocks under the interleaving that exposes it, and only there
    for (word, expect_deadlock) in [(vec![0u8, 0, 1, 1], false), (vec![0u8, 1, 0, 1], true), (vec![1u8, 0, 1, 0], true), (vec![1u8, 1, 0, 0], false)] {
        let (l1, l2) = (RwLock::new(()), RwLock::new(()));
        let (a, b) = (&l1, &l2);
        fn job<'a>(first: &'a RwLock<()>, second: &'a RwLock<()>) -> Box<dyn FnOnce() + Send + 'a> {
            Box::new(move || {
                yield_point("enter");
                let _g1 = first.write().unwrap();
                yield_point_before_lock("second", second, true);
                let _g2 = second.write().unwrap();
            })
        }
        let jobs = vec![job(a, b), job(b, a)];
        let out = sched::run_scheduled(jobs, &sched::schedule_for_word(&word, &[2, 2]));
        if out.deadlock.is_some() != expect_deadlock {
            return Err(format!("lock-order inversion under {:?}: deadlock reported = {:?}, expected {}", word, out.deadlock, expect_deadlock));
        }
        if !expect_deadlock && out.results.iter().any(|r| r.is_err()) {
            return Err(format!("lock-order inversion under {:?}: a job failed without deadlock", word));
        }
    }
    // 3. a lock held across a yield point delays the other thread but is not a deadlock
    {
        let l = RwLock::new(());
        let lr = &l;
        let holder: Box<dyn FnOnce() + Send> = Box::new(move || {
            let g = lr.write().unwrap();
            yield_point("holding");
            drop(g);
        });
        let wanter: Box<dyn FnOnce() + Send> = Box::new(move || {
            yield_point_before_lock("want", lr, true);
            let _g = lr.write().unwrap();
        });
        // the schedule asks for the wanter first (index 1 of 2)
        let out = sched::run_scheduled(vec![holder, wanter], &[32768, 32768, 32768]);
        if out.deadlock.is_some() || out.results.iter().any(|r| r.is_err()) || !out.trace.iter().any(|s| s.blocked) {
            return Err(format!("lock held across a yield: deadlock {:?}, trace {:?}", out.deadlock, out.trace));
        }
    }
    Ok(())
}

fn extra(ctx: &Ctx) {
    if let Err(e) = scheduler_selftest() {
        println!("HARNESS-ERROR: C16 scheduler self-test failed: {}", e);
        std::process::exit(2);
    }
    ctx.add_class("scheduler-selftest/passed", 1);
    let stop = AtomicBool::new(false);
    // --- every interleaving of the 2-saver configurations
    let cell_sets: Vec<(Vec<u8>, bool)> = match ctx.tier {
        Tier::Quick => vec![(vec![2, 2], false)],
        Tier::Thorough => vec![(vec![2, 2], false), (vec![2, 2], true), (vec![2, 3], false), (vec![3, 3], false), (vec![3, 3], true), (vec![4, 4], false), (vec![2, 5], false), (vec![5, 5], false)],
    };
    let mut enumerated = Vec::new();
    let mut domains = Vec::new();
    for (cells, second) in &cell_sets {
        for cfg in configs(cells, *second) {
            let cfg = norm(&cfg);
            let counts = match step_counts(&cfg) {
                Ok(c) => c,
                Err(v) => {
                    ctx.judge("exhaustive2", &cfg, v);
                    continue;
                }
            };
            let words = words2(counts[0], counts[1]);
            domains.push(json!({"config": {"mode": cfg.mode, "pre": cfg.pre, "relation": cfg.relation, "cells": cfg.cells, "second_sheet": cfg.second_sheet, "dup": cfg.dup}, "steps": counts, "interleavings": words.len()}));
            for w in words {
                let mut c = cfg.clone();
                c.schedule = sched::schedule_for_word(&w, &counts);
                enumerated.push(c);
            }
        }
    }
    ctx.add_class("exhaustive2/configurations", domains.len() as u64);
    run_enumerated(ctx, "exhaustive2", enumerated, &stop);
    ctx.set_extra("exhaustive_domains", Value::Array(domains));
    ctx.exhaustive.store(true, Ordering::Relaxed);

    // --- bounded seeded sample of 3-saver interleavings
    let per_cfg = ctx.tier.pick(40usize, 1500usize);
    let mut sampled = Vec::new();
    let mut x = splitmix(ctx.seed ^ 0xC16_3);
    for cfg in configs(&[2, 2, 2], false).into_iter().chain(if ctx.tier == Tier::Thorough { configs(&[3, 2, 4], true) } else { Vec::new() }) {
        let cfg = norm(&cfg);
        let counts = match step_counts(&cfg) {
            Ok(c) => c,
            Err(v) => {
                ctx.judge("sample3", &cfg, v);
                continue;
            }
        };
        for _ in 0..per_cfg {
            // a uniformly shuffled word with the right letter counts (Fisher-Yates, seeded)
            let mut w: Vec<u8> = counts.iter().enumerate().flat_map(|(i, n)| std::iter::repeat(i as u8).take(*n)).collect();
            for k in (1..w.len()).rev() {
                x = splitmix(x);
                let j = (x % (k as u64 + 1)) as usize;
                w.swap(k, j);
            }
            let mut c = cfg.clone();
            c.schedule = sched::schedule_for_word(&w, &counts);
            sampled.push(c);
        }
    }
    run_enumerated(ctx, "sample3", sampled, &stop);

    // --- free-running stress (fixed iteration count, sequential so that the threads really contend)
    let iters = ctx.tier.pick(300u64, 6000u64);
    let rounds = 6;
    for k in 0..iters {
        if stop.load(Ordering::Relaxed) {
            break;
        }
        let c = stress_config(k.wrapping_add(ctx.seed));
        let v = match guard(|| check_stress(&c, rounds)) {
            Ok(v) => v,
            Err(p) => Verdict::fail(format!("harness-panic:{}", p.site()), p.short()),
        };
        ctx.count_case(fnv(serde_json::to_string(&c).unwrap().as_bytes()) ^ fnv(b"stress") ^ k, false);
        ctx.add_class("stress/iterations", 1);
        if ctx.judge("stress", &c, v) {
            break;
        }
    }
}

fn replay_extra(_ctx: &Ctx, sub: &str, case: &Value) -> Option<Verdict> {
    let c: ConcCase = serde_json::from_value(case.clone()).ok()?;
    match sub {
        "exhaustive2" | "sample3" => {
            let mut obs = Obs::default();
            Some(check_conc(&c, &mut obs))
        }
        "stress" => {
            // an OS schedule cannot be replayed exactly: repeat the free-running run
            for _ in 0..200 {
                let v = check_stress(&c, 6);
                if !matches!(v, Verdict::Pass) {
                    return Some(v);
                }
            }
            Some(Verdict::Pass)
        }
        _ => None,
    }
}
