//! C18 — date serial numbers and calendar dates convert exactly in both directions.
use super::Prop;
use crate::engine::*;
use chrono::{Datelike, Timelike};
use proptest::prelude::*;
use rayon::prelude::*;
use serde::{Deserialize, Serialize};
use serde_json::{json, Value};
use std::sync::atomic::{AtomicBool, Ordering};
use umya_spreadsheet::helper::date::{convert_date, excel_to_date_time_object};
use umya_spreadsheet::helper::number_format::to_formatted_string;

pub fn prop() -> Prop {
    Prop {
        id: "C18",
        describe,
        subs,
        extra,
        replay_extra,
        watchdog_s: (900, 7200),
    }
}

fn describe(ctx: &Ctx) {
    ctx.rule("exhaustive: every day 1900-01-01..9999-12-31 x 6 times of day (0:00:00, 0:00:01, 6:00:00, 11:59:59, 12:00:00, 23:59:59) through convert_date (value, strict monotonicity) and excel_to_date_time_object (inverse, serial 60 excluded); every second of k representative days (k=8 quick, 200 thorough); generated: date-formatted display of (day, second) samples for 8 date formats. Non-trivial = leap day, first/last day of a year, a day before 1900-03-01, or a non-midnight time; distinct by (day number, second)");
    ctx.assume("reference calendar = days-from-civil (proleptic Gregorian) written in the harness, cross-checked against chrono::NaiveDate and (setup) Python datetime");
    ctx.assume("serial equality is decided with tolerance 1e-7 day (8.6 ms): the statement fixes the value to the second");
}

/// days from 1970-01-01 (Howard Hinnant's algorithm)
pub fn days_from_civil(y: i64, m: i64, d: i64) -> i64 {
    let y = if m <= 2 { y - 1 } else { y };
    let era = if y >= 0 { y } else { y - 399 } / 400;
    let yoe = y - era * 400;
    let mp = (m + 9) % 12;
    let doy = (153 * mp + 2) / 5 + d - 1;
    let doe = yoe * 365 + yoe / 4 - yoe / 100 + doy;
    era * 146097 + doe - 719468
}

pub fn civil_from_days(z: i64) -> (i64, i64, i64) {
    let z = z + 719468;
    let era = if z >= 0 { z } else { z - 146096 } / 146097;
    let doe = z - era * 146097;
    let yoe = (doe - doe / 1460 + doe / 36524 - doe / 146096) / 365;
    let y = yoe + era * 400;
    let doy = doe - (365 * yoe + yoe / 4 - yoe / 100);
    let mp = (5 * doy + 2) / 153;
    let d = doy - (153 * mp + 2) / 5 + 1;
    let m = if mp < 10 { mp + 3 } else { mp - 9 };
    (if m <= 2 { y + 1 } else { y }, m, d)
}

/// Reference serial of a real calendar date in the 1900 date system.
pub fn ref_serial_day(y: i64, m: i64, d: i64) -> i64 {
    let n = days_from_civil(y, m, d) - days_from_civil(1899, 12, 30);
    if (y, m) < (1900, 3) {
        n - 1
    } else {
        n
    }
}

pub fn is_leap(y: i64) -> bool {
    (y % 4 == 0 && y % 100 != 0) || y % 400 == 0
}

#[derive(Debug, Clone, Serialize, Deserialize)]
pub struct DateCase {
    /// days since 1900-01-01 (0 = 1900-01-01)
    pub day_index: u32,
    /// second of the day
    pub second: u32,
}

pub const DAYS_TOTAL: u32 = 2_958_464; // index of 9999-12-31 from 1900-01-01 (0-based) is 2_958_463

fn ymd(day_index: u32) -> (i64, i64, i64) {
    civil_from_days(days_from_civil(1900, 1, 1) + day_index as i64)
}

pub fn nontrivial_date(day_index: u32, second: u32) -> bool {
    let (y, m, d) = ymd(day_index);
    second != 0 || (m == 2 && d == 29) || (m == 1 && d == 1) || (m == 12 && d == 31) || (y, m) < (1900, 3)
}

/// Returns (verdict, serial as produced by the library if any).
pub fn check_date(c: &DateCase) -> (Verdict, Option<f64>) {
    let (y, m, d) = ymd(c.day_index);
    let (hh, mm, ss) = (c.second / 3600, (c.second / 60) % 60, c.second % 60);
    let expect = ref_serial_day(y, m, d) as f64 + c.second as f64 / 86400.0;
    let r = guard(|| {
        let s = convert_date(y as i32, m as i32, d as i32, hh as i32, mm as i32, ss as i32);
        let back = excel_to_date_time_object(&s, None);
        (s, back)
    });
    match r {
        Err(p) => (
            Verdict::fail(format!("convert/panic:{}", p.site()), format!("{:04}-{:02}-{:02} {:02}:{:02}:{:02}: {}", y, m, d, hh, mm, ss, p.short())),
            None,
        ),
        Ok((s, back)) => {
            if !((s - expect).abs() < 1e-7) {
                return (
                    Verdict::fail(
                        "convert/serial",
                        format!("{:04}-{:02}-{:02} {:02}:{:02}:{:02} -> {} expected {}", y, m, d, hh, mm, ss, s, expect),
                    ),
                    Some(s),
                );
            }
            let got = (
                back.year() as i64,
                back.month() as i64,
                back.day() as i64,
                back.hour(),
                back.minute(),
                back.second(),
            );
            if got != (y, m, d, hh, mm, ss) {
                return (
                    Verdict::fail(
                        if (y, m) < (1900, 3) { "inverse/before-1900-03-01" } else { "inverse/date" },
                        format!("{:04}-{:02}-{:02} {:02}:{:02}:{:02} -> serial {} -> {}", y, m, d, hh, mm, ss, s, back),
                    ),
                    Some(s),
                );
            }
            (Verdict::Pass, Some(s))
        }
    }
}

const TIMES: [u32; 6] = [0, 1, 21600, 43199, 43200, 86399];

fn extra(ctx: &Ctx) {
    // cross-check of the reference calendar against chrono (oracle self-test, exit 2 on mismatch)
    for di in (0..DAYS_TOTAL).step_by(97) {
        let (y, m, d) = ymd(di);
        let nd = chrono::NaiveDate::from_ymd_opt(1900, 1, 1).unwrap() + chrono::Duration::days(di as i64);
        if (nd.year() as i64, nd.month() as i64, nd.day() as i64) != (y, m, d) {
            eprintln!("HARNESS-ERROR: reference calendar disagrees with chrono at day {}", di);
            std::process::exit(2);
        }
    }
    if ymd(DAYS_TOTAL - 1) != (9999, 12, 31) || ref_serial_day(1900, 1, 1) != 1 || ref_serial_day(1900, 3, 1) != 61 || ref_serial_day(2024, 1, 1) != 45292 {
        eprintln!("HARNESS-ERROR: reference serials wrong");
        std::process::exit(2);
    }
    let stop = AtomicBool::new(false);
    // every day x 6 times, checking monotonicity inside each chunk and across chunk borders
    let chunk = 8192u32;
    let chunks: Vec<u32> = (0..DAYS_TOTAL).step_by(chunk as usize).collect();
    chunks.par_iter().for_each(|&start| {
        if stop.load(Ordering::Relaxed) {
            return;
        }
        let end = (start + chunk).min(DAYS_TOTAL);
        // previous serial: last time of the previous day (computed afresh so that chunks are independent)
        let mut prev: Option<f64> = if start > 0 {
            check_date(&DateCase { day_index: start - 1, second: 86399 }).1
        } else {
            None
        };
        let mut n = 0u64;
        let mut nts = Vec::new();
        for di in start..end {
            for &sec in TIMES.iter() {
                let c = DateCase { day_index: di, second: sec };
                let (mut v, s) = check_date(&c);
                if let (Verdict::Pass, Some(s), Some(p)) = (&v, s, prev) {
                    if !(s > p) {
                        v = Verdict::fail("convert/not-increasing", format!("serial {} after {} at day index {} second {}", s, p, di, sec));
                    }
                }
                if s.is_some() {
                    prev = s;
                }
                n += 1;
                if nontrivial_date(di, sec) {
                    nts.push(((di as u64) << 17) | sec as u64);
                }
                if ctx.judge("days", &c, v) {
                    stop.store(true, Ordering::Relaxed);
                    return;
                }
            }
        }
        ctx.count_bulk(n);
        ctx.nontrivial.lock().unwrap().extend(nts);
    });
    ctx.add_class("days-x-6-times", DAYS_TOTAL as u64 * 6);
    ctx.add_sample(json!({"sub":"days","case":{"day_index":59,"second":86399,"date":"1900-02-28 23:59:59"}}));
    // every second of representative days
    let mut days: Vec<u32> = vec![
        0,                                                                     // 1900-01-01
        58,                                                                    // 1900-02-28
        59,                                                                    // 1900-03-01
        (days_from_civil(2000, 2, 29) - days_from_civil(1900, 1, 1)) as u32,
        (days_from_civil(2024, 12, 31) - days_from_civil(1900, 1, 1)) as u32,
        (days_from_civil(2100, 3, 1) - days_from_civil(1900, 1, 1)) as u32,
        (days_from_civil(1999, 12, 31) - days_from_civil(1900, 1, 1)) as u32,
        DAYS_TOTAL - 1,
    ];
    if ctx.tier == Tier::Thorough {
        let mut x = ctx.seed ^ 0xC18;
        for _ in 0..192 {
            x = splitmix(x);
            days.push((x % DAYS_TOTAL as u64) as u32);
        }
    } else {
        // two seed-dependent days as well
        let mut x = ctx.seed ^ 0xC18;
        for _ in 0..2 {
            x = splitmix(x);
            days.push((x % DAYS_TOTAL as u64) as u32);
        }
    }
    days.sort();
    days.dedup();
    days.par_iter().for_each(|&di| {
        if stop.load(Ordering::Relaxed) {
            return;
        }
        let mut prev: Option<f64> = None;
        let mut nts = Vec::new();
        let mut n = 0u64;
        for sec in 0..86400u32 {
            let c = DateCase { day_index: di, second: sec };
            let (mut v, s) = check_date(&c);
            if let (Verdict::Pass, Some(s), Some(p)) = (&v, s, prev) {
                if !(s > p) {
                    v = Verdict::fail("convert/not-increasing", format!("serial {} after {} at day index {} second {}", s, p, di, sec));
                }
            }
            if s.is_some() {
                prev = s;
            }
            n += 1;
            nts.push(((di as u64) << 17) | sec as u64);
            if ctx.judge("days", &c, v) {
                stop.store(true, Ordering::Relaxed);
                return;
            }
        }
        ctx.count_bulk(n);
        ctx.nontrivial.lock().unwrap().extend(nts);
    });
    ctx.add_class("every-second-days", days.len() as u64);
    ctx.exhaustive.store(true, Ordering::Relaxed);
    ctx.set_extra("exhaustive_domains", json!({"days": DAYS_TOTAL, "times_per_day": TIMES, "every_second_days": days}));
}

fn replay_extra(_ctx: &Ctx, sub: &str, case: &Value) -> Option<Verdict> {
    match sub {
        "days" => {
            let c: DateCase = serde_json::from_value(case.clone()).ok()?;
            let (v, s) = check_date(&c);
            if let (Verdict::Pass, Some(s)) = (&v, s) {
                // monotonicity against the previous second
                let prev = if c.second > 0 {
                    Some(DateCase { day_index: c.day_index, second: c.second - 1 })
                } else if c.day_index > 0 {
                    Some(DateCase { day_index: c.day_index - 1, second: 86399 })
                } else {
                    None
                };
                if let Some(p) = prev {
                    if let (_, Some(ps)) = check_date(&p) {
                        if !(s > ps) {
                            return Some(Verdict::fail("convert/not-increasing", format!("{} after {}", s, ps)));
                        }
                    }
                }
            }
            Some(v)
        }
        _ => None,
    }
}

// ---------------------------------------------------------------------------------------
// generated: formatted display

#[derive(Debug, Clone, Serialize, Deserialize)]
pub struct DisplayCase {
    pub day_index: u32,
    pub second: u32,
    pub format: u8,
    pub via_cell: bool,
    /// for the conditional two-section format: threshold = day serial + delta
    #[serde(default)]
    pub delta: i8,
}

const MONTHS: [&str; 12] = ["Jan", "Feb", "Mar", "Apr", "May", "Jun", "Jul", "Aug", "Sep", "Oct", "Nov", "Dec"];

fn formats() -> Vec<&'static str> {
    vec![
        "yyyy-mm-dd",
        "yyyy-mm-dd hh:mm:ss",
        "yyyy/mm/dd",
        "dd/mm/yyyy",
        "mm-dd-yy",
        "m/d/yy h:mm",
        "d-mmm-yy",
        "yyyy/mm/dd;@",
        // locale tags ([$-<LCID>], hexadecimal) in front of a numeric date layout
        "[$-40C]yyyy-mm-dd",
        "[$-F800]yyyy/mm/dd",
        "[$-C09]dd/mm/yyyy",
        "[$-409]yyyy-mm-dd",
        // two sections chosen by a condition on the serial (threshold filled in per case)
        "[<=T]yyyy-mm-dd;dd/mm/yyyy",
        "[>T]dd/mm/yyyy;yyyy-mm-dd",
        // weekday and month names (the library renders them in English)
        "dddd, mmmm dd, yyyy",
        "ddd d mmm yyyy",
    ]
}

fn expected_display(fmt: &str, y: i64, m: i64, d: i64, sec: u32) -> String {
    let (hh, mi, ss) = (sec / 3600, (sec / 60) % 60, sec % 60);
    match fmt {
        "yyyy-mm-dd" => format!("{:04}-{:02}-{:02}", y, m, d),
        "yyyy-mm-dd hh:mm:ss" => format!("{:04}-{:02}-{:02} {:02}:{:02}:{:02}", y, m, d, hh, mi, ss),
        "yyyy/mm/dd" | "yyyy/mm/dd;@" | "[$-F800]yyyy/mm/dd" => format!("{:04}/{:02}/{:02}", y, m, d),
        "dd/mm/yyyy" | "[$-C09]dd/mm/yyyy" => format!("{:02}/{:02}/{:04}", d, m, y),
        "[$-40C]yyyy-mm-dd" | "[$-409]yyyy-mm-dd" => format!("{:04}-{:02}-{:02}", y, m, d),
        "dddd, mmmm dd, yyyy" | "ddd d mmm yyyy" => {
            const DAYS: [&str; 7] = ["Thursday", "Friday", "Saturday", "Sunday", "Monday", "Tuesday", "Wednesday"];
            const MONTHS_LONG: [&str; 12] = ["January", "February", "March", "April", "May", "June", "July", "August", "September", "October", "November", "December"];
            // 1970-01-01 was a Thursday
            let wd = DAYS[(days_from_civil(y, m, d).rem_euclid(7)) as usize];
            if fmt.starts_with("dddd") {
                format!("{}, {} {:02}, {:04}", wd, MONTHS_LONG[(m - 1) as usize], d, y)
            } else {
                format!("{} {} {} {:04}", &wd[..3], d, MONTHS[(m - 1) as usize], y)
            }
        }
        "mm-dd-yy" => format!("{:02}-{:02}-{:02}", m, d, y % 100),
        "m/d/yy h:mm" => format!("{}/{}/{:02} {}:{:02}", m, d, y % 100, hh, mi),
        "d-mmm-yy" => format!("{}-{}-{:02}", d, MONTHS[(m - 1) as usize], y % 100),
        _ => unreachable!(),
    }
}

fn display_case(_t: Tier) -> BoxedStrategy<DisplayCase> {
    let day = prop_oneof![
        2 => prop::sample::select(vec![0u32, 30, 31, 58, 59, 60, 364, 365, 366, 36524, 36525, 36583, 36584, 73048, 2958463]),
        3 => 0u32..DAYS_TOTAL,
        2 => 36000u32..50000,
    ];
    let second = prop_oneof![
        2 => Just(0u32),
        2 => prop::sample::select(vec![1u32, 59, 60, 3599, 3600, 43199, 43200, 86399]),
        3 => 0u32..86400,
    ];
    (day, second, 0u8..16, any::<bool>(), -1i8..=1)
        .prop_map(|(day_index, second, format, via_cell, delta)| DisplayCase {
            day_index,
            second,
            format,
            via_cell,
            delta,
        })
        .boxed()
}

fn check_display(c: &DisplayCase, obs: &mut Obs) -> Verdict {
    let fmts = formats();
    let fmt = fmts[(c.format as usize) % fmts.len()];
    let (y, m, d) = ymd(c.day_index);
    let has_time = fmt.contains('h');
    // formats without seconds show the minute of the serial: keep the second inside the
    // minute shown (Excel rounds to the displayed unit; the statement speaks of the
    // calendar date, so times are only asserted where the format shows them exactly)
    let second = if fmt == "m/d/yy h:mm" { c.second - c.second % 60 } else if has_time { c.second } else { c.second };
    obs.class(fmt);
    obs.nontrivial(nontrivial_date(c.day_index, second));
    let serial = ref_serial_day(y, m, d) as f64 + second as f64 / 86400.0;
    // conditional sections: the threshold is an integer serial next to the value's day
    let threshold = ref_serial_day(y, m, d) + c.delta as i64;
    let (fmt_owned, expect) = if fmt.contains('T') {
        let first = if fmt.starts_with("[<=") { serial <= threshold as f64 } else { serial > threshold as f64 };
        let iso = format!("{:04}-{:02}-{:02}", y, m, d);
        let dmy = format!("{:02}/{:02}/{:04}", d, m, y);
        let e = match (fmt.starts_with("[<="), first) {
            (true, true) | (false, false) => iso,
            _ => dmy,
        };
        obs.class(format!("condition-delta:{}", c.delta));
        (fmt.replace('T', &threshold.to_string()), e)
    } else {
        (fmt.to_string(), expected_display(fmt, y, m, d, second))
    };
    let fmt = fmt_owned.as_str();
    let r = guard(|| {
        if c.via_cell {
            let mut book = umya_spreadsheet::new_file();
            let sheet = book.get_sheet_mut(&0).unwrap();
            let cell = sheet.get_cell_mut("B2");
            cell.set_value_number(serial);
            cell.get_style_mut().get_number_format_mut().set_format_code(fmt);
            sheet.get_formatted_value("B2")
        } else {
            to_formatted_string(serial.to_string(), fmt)
        }
    });
    match r {
        Err(p) => Verdict::fail(format!("display/panic:{}", p.site()), format!("serial {} format {:?}: {}", serial, fmt, p.short())),
        Ok(out) => {
            if out != expect {
                let class = if (y, m) < (1900, 3) { "display/before-1900-03-01" } else { "display/date" };
                Verdict::fail(class, format!("serial {} format {:?} shows {:?}, calendar date is {:?}", serial, fmt, out, expect))
            } else {
                Verdict::Pass
            }
        }
    }
}

fn subs() -> Vec<Box<dyn DynSub>> {
    vec![Box::new(Sub {
        name: "display",
        strategy: display_case,
        cases: (1500, 60_000),
        check: check_display,
        max_shrink_iters: 2000,
    })]
}
