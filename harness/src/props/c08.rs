//! C08 — references keep their target cells across row/column insert and remove.
//!
//! A 2..3-sheet workbook (sheet names incl. ones that need quotes) holds formula cells (found
//! again by a tag, never by position), defined names and chart series; a history of 1..6
//! workbook-level `Spreadsheet::{insert_new_row, insert_new_column_by_index, remove_row,
//! remove_column_by_index}` runs; every reference is compared with the reference shifter
//! working on the generator's AST (gen::formula::edit_area_history).
use super::c09::{classify, judge_output, prepare, Outcome};
use super::Prop;
use crate::engine::*;
use crate::gen::formula::*;
use proptest::prelude::*;
use serde::{Deserialize, Serialize};
use std::collections::BTreeSet;

pub fn prop() -> Prop {
    Prop {
        id: "C08",
        describe,
        subs,
        extra: super::no_extra,
        replay_extra: super::no_replay_extra,
        watchdog_s: (900, 14400),
    }
}

fn describe(ctx: &Ctx) {
    ctx.rule("a case = workbook of 2..3 sheets (names incl. blanks, punctuation, apostrophes) + 1..4 formula cells from the formula grammar (depth <= 6, qualifiers bound to the workbook's sheets or to external books) + defined names + chart series + a history of 1..6 workbook-level insert/remove row/column edits on any sheet; non-trivial = some formula has a reference into an edited sheet that the history moves or deletes AND a token that must stay unchanged (string, function name, reference into another sheet), or a defined name / chart series that the history moves or deletes; distinct by (sub-check, case JSON)");
    ctx.assume("in-range arguments only: an insert never pushes a referenced cell (or the formula cells) past the grid edge; the count is reduced (or the edit turned into a removal) by construction");
    ctx.assume("a range with one deleted corner may shrink to the surviving part or become #REF!; #REF! may keep or lose the sheet qualifier; a defined-name address whose target is deleted may also be dropped");
    ctx.assume("formula cells are found by a tag in their cached value, so the check does not depend on where the cell store physically puts them (R5: the workbook-level edits currently shift every sheet physically; that defect belongs to C07/C10)");
    ctx.assume("defined names and chart series are compared as (sheet, area) pairs: their quoting style is not part of this property");
}

#[derive(Debug, Clone, Serialize, Deserialize)]
pub struct FCell {
    pub host: u16,
    pub at: (u8, u8),
    pub expr: Expr,
    pub blanks: Vec<u8>,
    /// 0 ordinary `set_formula` cell; 1 shared-formula CHILD (type shared, the text lives in
    /// `text_view` as after loading a file); 2 shared-formula MASTER (type shared, `text`);
    /// 3 non-first MEMBER that carries its own text AND the derived view (what the reader
    /// makes of `<f t="shared" si="..">text</f>` on a non-first cell)
    #[serde(default)]
    pub shared: u8,
}

#[derive(Debug, Clone, Serialize, Deserialize)]
pub struct DName {
    /// sheet whose `defined_names` list holds the name
    pub holder: u16,
    /// holder = the sheet of the first address (what the reader does for global names)
    pub holder_is_target: bool,
    pub parts: Vec<(u16, Area)>,
    /// held by the workbook (`Spreadsheet::get_defined_names`) instead of a sheet
    #[serde(default)]
    pub workbook_level: bool,
}

#[derive(Debug, Clone, Serialize, Deserialize)]
pub struct Series {
    pub holder: u16,
    pub targets: Vec<(u16, Area)>,
}

#[derive(Debug, Clone, Serialize, Deserialize)]
pub struct OpRaw {
    pub sheet: u16,
    /// 0 insert rows, 1 insert cols, 2 remove rows, 3 remove cols
    pub kind: u8,
    pub at: u32,
    pub n: u16,
}

#[derive(Debug, Clone, Serialize, Deserialize)]
pub struct Case {
    pub clean: bool,
    pub sheets: Vec<String>,
    pub cells: Vec<FCell>,
    pub names: Vec<DName>,
    pub series: Vec<Series>,
    pub ops: Vec<OpRaw>,
    /// lazy stratum: the workbook is saved, reopened with `read_reader(.., false)` and only
    /// these sheets (monotone picks, possibly none) are materialised before the history
    #[serde(default)]
    pub lazy: Option<Vec<u16>>,
    /// reloaded stratum: build -> save -> eager reload -> history; every shared cell becomes a
    /// real group (master + a member one row below) so that the READER decides what a member
    /// holds in text / text_view
    #[serde(default)]
    pub reload: bool,
}

// ---------------------------------------------------------------------------------------
// generators

fn wb_sheet_name() -> BoxedStrategy<String> {
    prop_oneof![
        4 => "[A-Z][a-z]{2,6}[0-9]{0,1}".prop_map(|s| s),
        4 => prop::sample::select(vec!["My Sheet", "Q1 2024", "Sales Data", "P&L", "2024", "Jan-Feb", "a b c", "x(1)", "A1", "a,b", "Données", "日本"]).prop_map(|s| s.to_string()),
        1 => prop::sample::select(vec!["It's", "a'b", "a!b", "x\"y", "O'Neil's"]).prop_map(|s| s.to_string()),
        1 => crate::gen::text::sheet_name(),
    ]
    .boxed()
}

fn sheets() -> BoxedStrategy<Vec<String>> {
    prop::collection::vec(wb_sheet_name(), 2..=3)
        .prop_map(|v| {
            let mut out: Vec<String> = Vec::new();
            for (i, mut s) in v.into_iter().enumerate() {
                if out.iter().any(|o| o.to_lowercase() == s.to_lowercase()) {
                    let keep: String = s.chars().take(28).collect();
                    s = format!("{}_{}", keep, i);
                }
                out.push(s);
            }
            out
        })
        .boxed()
}

fn op_raw() -> BoxedStrategy<OpRaw> {
    (
        any::<u16>(),
        0u8..4,
        prop_oneof![
            8 => 1u32..=14,
            2 => prop::sample::select(vec![1u32, 2, 3, 26, 27, 28, 99, 100, 101, 702, 703, 16382, 16383, 16384, 65536, 1048574, 1048575, 1048576]),
            1 => 1u32..=MAX_ROW,
        ],
        prop_oneof![6 => 1u16..=3, 2 => 1u16..=12, 1 => 1u16..=300],
    )
        .prop_map(|(sheet, kind, at, n)| OpRaw { sheet, kind, at, n })
        .boxed()
}

fn fcell() -> BoxedStrategy<FCell> {
    (any::<u16>(), (1u8..=8, 1u8..=8), expr(), blank_plan(), prop_oneof![5 => Just(0u8), 3 => Just(1u8), 1 => Just(2u8), 3 => Just(3u8)])
        .prop_map(|(host, at, expr, blanks, shared)| FCell { host, at, expr, blanks, shared })
        .boxed()
}

/// areas a defined name / chart series may carry (`all` adds whole rows/columns)
fn name_area(all: bool) -> BoxedStrategy<Area> {
    if all {
        area()
    } else {
        area()
            .prop_map(|a| match a {
                Area::Rows { r1, a1, r2, a2 } => Area::Range(CellRef { col: 1, row: r1, abs_col: true, abs_row: a1 }, CellRef { col: 3, row: r2, abs_col: true, abs_row: a2 }),
                Area::Cols { c1, a1, c2, a2 } => Area::Range(CellRef { col: c1, row: 1, abs_col: a1, abs_row: true }, CellRef { col: c2, row: 4, abs_col: a2, abs_row: true }),
                o => o,
            })
            .boxed()
    }
}

fn dname() -> BoxedStrategy<DName> {
    (any::<u16>(), prop::bool::weighted(0.7), prop::collection::vec((any::<u16>(), name_area(true)), 1..=2), prop::bool::weighted(0.2))
        .prop_map(|(holder, holder_is_target, parts, workbook_level)| DName { holder, holder_is_target, parts, workbook_level })
        .boxed()
}

fn series() -> BoxedStrategy<Series> {
    (any::<u16>(), prop::collection::vec((any::<u16>(), name_area(false)), 1..=3)).prop_map(|(holder, targets)| Series { holder, targets }).boxed()
}

fn case_strategy(clean: bool, n_cells: (usize, usize), n_names: (usize, usize), n_series: (usize, usize)) -> BoxedStrategy<Case> {
    // defined names see the edits of every sheet (open finding R5): to keep names that can be
    // asserted strictly, most names and most edits of the name/series strata go to sheet 0
    let focus = n_names.1 > 0 && clean;
    (
        sheets(),
        prop::collection::vec(fcell(), n_cells.0..=n_cells.1),
        prop::collection::vec(dname(), n_names.0..=n_names.1),
        prop::collection::vec(series(), n_series.0..=n_series.1),
        prop::collection::vec(op_raw(), 1..=6),
    )
        .prop_map(move |(sheets, cells, mut names, series, mut ops)| {
            let lazy = None;
            if focus {
                for o in ops.iter_mut() {
                    if o.sheet % 10 < 7 {
                        o.sheet = 0;
                    }
                }
                for d in names.iter_mut() {
                    for p in d.parts.iter_mut() {
                        if p.0 % 10 < 7 {
                            p.0 = 0;
                        }
                    }
                }
            }
            Case { clean, sheets, cells, names, series, ops, lazy, reload: false }
        })
        .boxed()
}

fn cells_cases(_t: Tier) -> BoxedStrategy<Case> {
    case_strategy(true, (1, 4), (0, 0), (0, 0))
}
fn names_cases(_t: Tier) -> BoxedStrategy<Case> {
    case_strategy(true, (0, 1), (1, 3), (0, 0))
}
fn series_cases(_t: Tier) -> BoxedStrategy<Case> {
    case_strategy(true, (0, 1), (0, 0), (1, 2))
}
fn lazy_cases(_t: Tier) -> BoxedStrategy<Case> {
    (case_strategy(true, (1, 3), (0, 2), (0, 0)), prop::collection::vec(any::<u16>(), 0..=2))
        .prop_map(|(mut c, l)| {
            c.lazy = Some(l);
            c
        })
        .boxed()
}
fn reloaded_cases(_t: Tier) -> BoxedStrategy<Case> {
    case_strategy(true, (1, 3), (0, 1), (0, 0))
        .prop_map(|mut c| {
            c.reload = true;
            c
        })
        .boxed()
}
fn dirty_cases(_t: Tier) -> BoxedStrategy<Case> {
    case_strategy(false, (0, 3), (0, 2), (0, 1))
}

// ---------------------------------------------------------------------------------------
// model

/// which sheet a reference of a formula hosted on `host` designates (None: not a sheet of
/// this workbook, e.g. an external book)
fn target_of(r: &RefNode, host: usize, sheets: &[String]) -> Option<usize> {
    match &r.qual {
        None => Some(host),
        Some(q) if q.is_external() || q.is_3d() => None,
        Some(q) => sheets.iter().position(|s| *s == q.sheet),
    }
}

fn bind(e: &Expr, sheets: &[String]) -> Expr {
    let fix = |q: &Qual| -> Qual {
        let mut q = q.clone();
        q.sheet = sheets[pick_idx(q.pick, sheets.len())].clone();
        if q.sheet2.is_some() {
            // a 3-D reference spans sheets of this workbook (here: up to the last one)
            q.sheet2 = Some(sheets[sheets.len() - 1].clone());
        }
        q
    };
    e.map(&mut |x| match x {
        Expr::Ref(r) => Expr::Ref(RefNode { qual: r.qual.as_ref().map(fix), area: r.area, lower: r.lower }),
        Expr::Name { qual, name } => Expr::Name { qual: qual.as_ref().map(fix), name },
        Expr::Err { qual, text } => Expr::Err { qual: qual.as_ref().map(fix), text },
        o => o,
    })
}

/// Resolved case: everything the library run and the oracle need.
#[derive(Debug, Clone)]
pub struct Resolved {
    pub sheets: Vec<String>,
    /// (host, at, expr, blanks)
    pub cells: Vec<(usize, (u32, u32), Expr, Vec<u8>)>,
    /// per cell: 0 ordinary, 1 shared child (view only), 2 shared master, 3 member with own
    /// text + view; reloaded stratum: 5 group member written with its own text, 6 written empty
    pub shared: Vec<u8>,
    /// shared index per cell (members of a group carry their master's)
    pub group: Vec<u32>,
    pub reload: bool,
    /// (holder sheet or WORKBOOK, parts)
    pub names: Vec<(usize, Vec<(usize, Area)>)>,
    pub series: Vec<(usize, Vec<(usize, Area)>)>,
    pub edits: Vec<(usize, Edit)>,
    pub excluded: Vec<String>,
    /// Some = lazy stratum: sheets to materialise before the history
    pub lazy: Option<Vec<usize>>,
}

impl Resolved {
    pub fn edits_on(&self, sheet: usize) -> Vec<Edit> {
        self.edits.iter().filter(|(s, _)| *s == sheet).map(|(_, e)| *e).collect()
    }
}

fn axis_max(a: &Area, rows: bool) -> u32 {
    if rows {
        a.max_row().unwrap_or(0)
    } else {
        a.max_col().unwrap_or(0)
    }
}

/// Turn the raw ops into in-range edits: an insert never pushes a reference into the edited
/// sheet (in any accepted state) or a formula cell past the grid edge.
fn fit_ops(ops: &[OpRaw], n_sheets: usize, tracked: &[(usize, Area)]) -> Vec<(usize, Edit)> {
    let mut states: Vec<(usize, Vec<Option<Area>>)> = tracked.iter().map(|(s, a)| (*s, vec![Some(a.clone())])).collect();
    let mut out = Vec::new();
    for op in ops {
        let s = pick_idx(op.sheet, n_sheets);
        let rows = op.kind % 2 == 0;
        let max = if rows { MAX_ROW } else { MAX_COL };
        let mut n = op.n.max(1) as u32;
        let mut insert = op.kind < 2;
        if insert {
            // physical content (formula cells, chart anchors) lives in the first few hundred
            // rows/columns even after earlier inserts
            let mut top = 4000u32;
            for (t, alts) in &states {
                if *t == s {
                    for a in alts.iter().flatten() {
                        top = top.max(axis_max(a, rows));
                    }
                }
            }
            let room = max - top.min(max);
            n = n.min(room);
            if n == 0 {
                insert = false;
                n = op.n.max(1) as u32;
            }
        }
        let edit = if insert {
            let at = op.at.clamp(1, max);
            if rows {
                Edit::InsertRows { at, n }
            } else {
                Edit::InsertCols { at, n }
            }
        } else {
            let n = n.min(max);
            let at = op.at.clamp(1, max - n + 1);
            if rows {
                Edit::RemoveRows { at, n }
            } else {
                Edit::RemoveCols { at, n }
            }
        };
        for (t, alts) in states.iter_mut() {
            if *t == s {
                let mut next = Vec::new();
                for a in alts.iter() {
                    let outs = match a {
                        None => vec![None],
                        Some(a) => edit_area(a, &edit),
                    };
                    for o in outs {
                        if !next.contains(&o) {
                            next.push(o);
                        }
                    }
                }
                *alts = next;
            }
        }
        out.push((s, edit));
    }
    out
}

/// does a cell at (col,row) survive the edits physically?
fn survives(mut pos: (u32, u32), edits: &[Edit]) -> bool {
    for e in edits {
        match *e {
            Edit::InsertRows { at, n } => {
                if pos.1 >= at {
                    pos.1 += n
                }
            }
            Edit::InsertCols { at, n } => {
                if pos.0 >= at {
                    pos.0 += n
                }
            }
            Edit::RemoveRows { at, n } => {
                if pos.1 >= at && pos.1 < at + n {
                    return false;
                }
                if pos.1 >= at + n {
                    pos.1 -= n
                }
            }
            Edit::RemoveCols { at, n } => {
                if pos.0 >= at && pos.0 < at + n {
                    return false;
                }
                if pos.0 >= at + n {
                    pos.0 -= n
                }
            }
        }
    }
    true
}

/// holder index of a workbook-level defined name
pub const WORKBOOK: usize = usize::MAX;

pub fn resolve(c: &Case) -> Resolved {
    let mut excluded = Vec::new();
    let sheets = c.sheets.clone();
    let n = sheets.len();
    // formula cells: distinct (host, at)
    let mut cells: Vec<(usize, (u32, u32), Expr, Vec<u8>)> = Vec::new();
    let mut shared: Vec<u8> = Vec::new();
    let mut group: Vec<u32> = Vec::new();
    for f in &c.cells {
        let host = pick_idx(f.host, n);
        let at = (f.at.0 as u32, f.at.1 as u32);
        if cells.iter().any(|x| x.0 == host && x.1 == at) {
            continue;
        }
        let mut e = bind(&f.expr, &sheets);
        if c.clean {
            e = e.map(&mut |x| match x {
                Expr::At(inner) => {
                    excluded.push("at/dropped".into());
                    *inner
                }
                o => o,
            });
        }
        // the lazy stratum saves the workbook: ordinary cells only there
        let kind = if c.lazy.is_some() { 0 } else { f.shared.min(3) };
        let si = cells.len() as u32;
        if c.reload && kind != 0 {
            // a real group: master here, a member one row below standing for the master's
            // text moved by one row (written with that text for kinds 2/3, empty for kind 1)
            let member = translate_expr(&e, 0, 1);
            cells.push((host, at, e, f.blanks.clone()));
            shared.push(2);
            group.push(si);
            if let Some(m) = member {
                cells.push((host, (at.0, at.1 + 1), m, f.blanks.clone()));
                shared.push(if kind == 1 { 6 } else { 5 });
                group.push(si);
            }
        } else {
            cells.push((host, at, e, f.blanks.clone()));
            shared.push(if c.reload { 0 } else { kind });
            group.push(si);
        }
    }
    let part = |p: &(u16, Area)| (pick_idx(p.0, n), p.1.clone());
    let mut names: Vec<(usize, Vec<(usize, Area)>)> = Vec::new();
    for d in &c.names {
        let parts: Vec<(usize, Area)> = d.parts.iter().map(part).collect();
        let holder = if d.workbook_level {
            WORKBOOK
        } else if d.holder_is_target {
            parts[0].0
        } else {
            pick_idx(d.holder, n)
        };
        names.push((holder, parts));
    }
    let mut series: Vec<(usize, Vec<(usize, Area)>)> = Vec::new();
    for s in &c.series {
        let holder = pick_idx(s.holder, n);
        if series.iter().any(|x| x.0 == holder) {
            continue; // one chart per sheet
        }
        series.push((holder, s.targets.iter().map(part).collect()));
    }
    // references the edits must respect
    let mut tracked: Vec<(usize, Area)> = Vec::new();
    for (host, _at, e, _b) in &cells {
        for r in e.refs() {
            if let Some(t) = target_of(r, *host, &sheets) {
                tracked.push((t, r.area.clone()));
            }
        }
    }
    for (_, parts) in names.iter().chain(series.iter()) {
        for p in parts {
            tracked.push(p.clone());
        }
    }
    let edits = fit_ops(&c.ops, n, &tracked);
    // put every formula cell where no removal deletes it, whether the edits of other sheets
    // physically reach its sheet (R5) or not; the position is irrelevant to its references
    let mut taken: Vec<(usize, (u32, u32))> = Vec::new();
    let has_member: Vec<bool> = (0..cells.len()).map(|i| shared.get(i + 1).map_or(false, |k| *k >= 5)).collect();
    let mut prev_pos = (0u32, 0u32);
    for (ci, cell) in cells.iter_mut().enumerate() {
        let host = cell.0;
        if shared[ci] >= 5 {
            // group member: one row below its master
            cell.1 = (prev_pos.0, prev_pos.1 + 1);
            taken.push((host, cell.1));
            continue;
        }
        let own: Vec<Edit> = edits.iter().filter(|(s, _)| *s == host).map(|(_, e)| *e).collect();
        let all: Vec<Edit> = edits.iter().map(|(_, e)| *e).collect();
        let mut pos = cell.1;
        for k in 0..80u32 {
            let cand = (cell.1 .0 + k * 7, cell.1 .1 + k * 11);
            let below = (cand.0, cand.1 + 1);
            let room = !has_member[ci] || (survives(below, &own) && survives(below, &all) && !taken.contains(&(host, below)));
            if survives(cand, &own) && survives(cand, &all) && !taken.contains(&(host, cand)) && room {
                pos = cand;
                break;
            }
        }
        cell.1 = pos;
        prev_pos = pos;
        taken.push((host, pos));
    }
    let lazy = c.lazy.as_ref().map(|v| {
        let mut l: Vec<usize> = v.iter().map(|p| pick_idx(*p, n)).collect();
        l.sort();
        l.dedup();
        l
    });
    Resolved { sheets, cells, shared, group, reload: c.reload, names, series, edits, excluded, lazy }
}

// ---------------------------------------------------------------------------------------
// library run

#[derive(Debug, Clone, Default)]
pub struct Observed {
    /// defined names / series as read back before the history (baseline)
    pub names0: Vec<Option<String>>,
    pub series0: Vec<Option<Vec<String>>>,
    /// lazy stratum: formulas as an eager reload of the saved file shows them
    pub cells0: Vec<Option<String>>,
    /// lazy stratum: saving / reloading failed (not this property's subject)
    pub setup_failed: Option<String>,
    pub cells: Vec<Option<String>>,
    pub names: Vec<Option<String>>,
    pub series: Vec<Option<Vec<String>>>,
}

fn address_text(sheets: &[String], parts: &[(usize, Area)]) -> Vec<String> {
    parts.iter().map(|(s, a)| format!("{}{}", Qual::plain(&sheets[*s]).text(), a.text())).collect()
}

/// a defined name by its name, wherever it is held (a reload re-homes global names)
fn read_name(book: &umya_spreadsheet::Spreadsheet, _holder: usize, i: usize) -> Option<String> {
    let nm = format!("nm_{}", i);
    for k in 0..book.get_sheet_count() {
        if let Some(d) = book.get_sheet(&k).unwrap().get_defined_names().iter().find(|d| d.get_name() == nm) {
            return Some(d.get_address());
        }
    }
    book.get_defined_names().iter().find(|d| d.get_name() == nm).map(|d| d.get_address())
}

fn read_cell(book: &umya_spreadsheet::Spreadsheet, host: usize, i: usize) -> Option<String> {
    let tag = format!("tag-{}", i);
    let ws = book.get_sheet(&host).unwrap();
    let found: Vec<String> = ws.get_cell_collection().into_iter().filter(|c| c.get_value() == tag.as_str()).map(|c| c.get_formula().to_string()).collect();
    if found.len() == 1 {
        Some(found[0].clone())
    } else {
        None
    }
}

fn read_series(book: &mut umya_spreadsheet::Spreadsheet, holder: usize) -> Option<Vec<String>> {
    let ws = book.get_sheet_mut(&holder).unwrap();
    let charts = ws.get_chart_collection_mut();
    if charts.len() == 1 {
        Some(charts[0].get_plot_area_mut().get_formula_mut().into_iter().map(|f| f.get_address_str()).collect())
    } else {
        None
    }
}

pub fn run_workbook(r: &Resolved, texts: &[String]) -> Result<Observed, PanicInfo> {
    guard(|| {
        let mut book = umya_spreadsheet::new_file_empty_worksheet();
        for s in &r.sheets {
            book.new_sheet(s.clone()).unwrap();
        }
        for (i, (host, at, _e, _b)) in r.cells.iter().enumerate() {
            let ws = book.get_sheet_mut(host).unwrap();
            let cell = ws.get_cell_mut((at.0, at.1));
            match r.shared.get(i).copied().unwrap_or(0) {
                0 => {
                    cell.set_formula(texts[i].clone());
                }
                kind => {
                    let mut cf = umya_spreadsheet::structs::CellFormula::default();
                    cf.set_formula_type(umya_spreadsheet::structs::CellFormulaValues::Shared);
                    cf.set_shared_index(r.group.get(i).copied().unwrap_or(i as u32));
                    match kind {
                        1 => {
                            cf.set_text_view(texts[i].clone());
                        }
                        3 => {
                            cf.set_text(texts[i].clone());
                            cf.set_text_view(texts[i].clone());
                        }
                        6 => {}
                        _ => {
                            cf.set_text(texts[i].clone());
                        }
                    }
                    cell.get_cell_value_mut().set_formula_obj(cf);
                }
            }
            cell.set_formula_result_default(format!("tag-{}", i));
        }
        for (i, (holder, parts)) in r.names.iter().enumerate() {
            let addr = address_text(&r.sheets, parts).join(",");
            if *holder == WORKBOOK {
                // the public API names a DefinedName only through a worksheet: build it there,
                // then hand it to the workbook
                let ws = book.get_sheet_mut(&0).unwrap();
                ws.add_defined_name(format!("nm_{}", i), addr).unwrap();
                let dn = ws.get_defined_names_mut().pop().unwrap();
                book.add_defined_names(dn);
            } else {
                let ws = book.get_sheet_mut(holder).unwrap();
                ws.add_defined_name(format!("nm_{}", i), addr).unwrap();
            }
        }
        for (holder, parts) in r.series.iter() {
            let addrs = address_text(&r.sheets, parts);
            let mut from = umya_spreadsheet::structs::drawing::spreadsheet::MarkerType::default();
            from.set_coordinate("J2");
            let mut to = umya_spreadsheet::structs::drawing::spreadsheet::MarkerType::default();
            to.set_coordinate("P12");
            let mut chart = umya_spreadsheet::structs::Chart::default();
            chart.new_chart(umya_spreadsheet::structs::ChartType::LineChart, from, to, addrs.iter().map(|s| s.as_str()).collect());
            book.get_sheet_mut(holder).unwrap().add_chart(chart);
        }
        let mut obs = Observed::default();
        if r.lazy.is_some() || r.reload {
            let materialise = r.lazy.clone().unwrap_or_default();
            let with_sheets = r.reload;
            // save, reload eagerly for the baseline, reload lazily for the run; a failure of
            // this set-up (save / load defects) is not this property's subject
            let saved = guard(|| {
                let mut bytes: Vec<u8> = Vec::new();
                umya_spreadsheet::writer::xlsx::write_writer(&book, &mut bytes).map_err(|e| format!("save: {:?}", e))?;
                let eager = umya_spreadsheet::reader::xlsx::read_reader(std::io::Cursor::new(bytes.clone()), true).map_err(|e| format!("reload: {:?}", e))?;
                let lazy = umya_spreadsheet::reader::xlsx::read_reader(std::io::Cursor::new(bytes), with_sheets).map_err(|e| format!("lazy reload: {:?}", e))?;
                Ok::<_, String>((eager, lazy))
            });
            let (mut eager, lazy_book) = match saved {
                Ok(Ok(x)) => x,
                Ok(Err(e)) => {
                    obs.setup_failed = Some(e);
                    return obs;
                }
                Err(p) => {
                    obs.setup_failed = Some(format!("panic {}", p.short()));
                    return obs;
                }
            };
            for (i, (host, _, _, _)) in r.cells.iter().enumerate() {
                obs.cells0.push(read_cell(&eager, *host, i));
            }
            for (i, (holder, _)) in r.names.iter().enumerate() {
                obs.names0.push(read_name(&eager, *holder, i));
            }
            for (holder, _) in r.series.iter() {
                obs.series0.push(read_series(&mut eager, *holder));
            }
            book = lazy_book;
            for k in &materialise {
                book.read_sheet(*k);
            }
        } else {
            for (i, (holder, _)) in r.names.iter().enumerate() {
                obs.names0.push(read_name(&book, *holder, i));
            }
            for (holder, _) in r.series.iter() {
                obs.series0.push(read_series(&mut book, *holder));
            }
        }
        for (s, e) in &r.edits {
            let name = r.sheets[*s].as_str();
            match e {
                Edit::InsertRows { at, n } => book.insert_new_row(name, at, n),
                Edit::InsertCols { at, n } => book.insert_new_column_by_index(name, at, n),
                Edit::RemoveRows { at, n } => book.remove_row(name, at, n),
                Edit::RemoveCols { at, n } => book.remove_column_by_index(name, at, n),
            }
        }
        if r.lazy.is_some() {
            book.read_sheet_collection();
        }
        for (i, (host, _at, _e, _b)) in r.cells.iter().enumerate() {
            obs.cells.push(read_cell(&book, *host, i));
        }
        for (i, (holder, _)) in r.names.iter().enumerate() {
            obs.names.push(read_name(&book, *holder, i));
        }
        for (holder, _) in r.series.iter() {
            obs.series.push(read_series(&mut book, *holder));
        }
        obs
    })
}

// ---------------------------------------------------------------------------------------
// oracle

fn cell_expected(r: &Resolved, host: usize, e: &Expr) -> Vec<Tok> {
    let map = |rn: &RefNode| -> Vec<Option<Area>> {
        match target_of(rn, host, &r.sheets) {
            None => vec![Some(rn.area.clone())],
            Some(t) => edit_area_history(&rn.area, &r.edits_on(t)),
        }
    };
    tokens(e, &map)
}

/// one formula cell alone in the same workbook under the same edits (used by the classifier)
fn attempt_cell(r: &Resolved, sh: u8, host: usize, at: (u32, u32), e: &Expr, blanks: &[u8], lead: u8, trail: u8) -> Outcome {
    let (text, input) = match prepare(e, blanks, lead, trail) {
        Ok(x) => x,
        Err(o) => return o,
    };
    let expected = cell_expected(r, host, e);
    // a position on `host` that no removal deletes (the classifier also hosts variants on
    // other sheets than the original one)
    let own = r.edits_on(host);
    let all: Vec<Edit> = r.edits.iter().map(|(_, e)| *e).collect();
    let at = (0..200u32).map(|k| (at.0 + k * 7, at.1 + k * 11)).find(|c| survives(*c, &own) && survives(*c, &all)).unwrap_or(at);
    let single = Resolved { sheets: r.sheets.clone(), cells: vec![(host, at, e.clone(), blanks.to_vec())], shared: vec![sh], group: vec![0], reload: false, names: vec![], series: vec![], edits: r.edits.clone(), excluded: vec![], lazy: None };
    let lib = run_workbook(&single, &[text.clone()]).map(|o| match &o.cells[0] {
        Some(s) => Ok(s.clone()),
        None => Err("formula cell deleted by the history".to_string()),
    });
    judge_output(&text, &input, &expected, lib)
}

/// single reference for the classifier; `strip`: the equivalent unqualified reference, i.e.
/// hosted on the sheet the qualifier designates (not possible for external references)
fn ref_runner(r: &Resolved, sh: u8, host: usize, at: (u32, u32), rn: &RefNode, strip: bool, a: &Area, lower: bool) -> Outcome {
    if strip {
        match target_of(rn, host, &r.sheets) {
            Some(t) if rn.qual.is_some() => attempt_cell(r, sh, t, at, &Expr::Ref(RefNode { qual: None, area: a.clone(), lower }), &[], 0, 0),
            _ => Outcome::Pass,
        }
    } else {
        attempt_cell(r, sh, host, at, &Expr::Ref(RefNode { qual: rn.qual.clone(), area: a.clone(), lower }), &[], 0, 0)
    }
}

/// Parse `'Sheet'!$A$1,Sheet2!B2` into (sheet, area | None for #REF!).
pub fn parse_address_list(s: &str, split: bool) -> Result<Vec<(String, Option<Area>)>, String> {
    let mut parts: Vec<String> = Vec::new();
    let mut cur = String::new();
    let mut in_q = false;
    for c in s.chars() {
        if c == '\'' {
            in_q = !in_q;
            cur.push(c);
        } else if c == ',' && !in_q && split {
            parts.push(std::mem::take(&mut cur));
        } else {
            cur.push(c);
        }
    }
    if !cur.is_empty() {
        parts.push(cur);
    }
    let mut out = Vec::new();
    for p in parts {
        if p == "#REF!" {
            out.push((String::new(), None));
            continue;
        }
        // an unquoted qualifier may contain apostrophes (Address::get_address quotes only
        // names with blanks): split at the last `!` then
        let (q, rest) = if p.starts_with('\'') { split_qualifier(&p) } else { p.rfind('!').map(|i| (&p[..=i], &p[i + 1..])).unwrap_or(("", p.as_str())) };
        let sheet = if q.is_empty() {
            String::new()
        } else {
            let q = &q[..q.len() - 1];
            if q.starts_with('\'') && q.ends_with('\'') && q.len() >= 2 {
                q[1..q.len() - 1].replace("''", "'")
            } else {
                q.to_string()
            }
        };
        if rest == "#REF!" {
            out.push((sheet, None));
        } else {
            match parse_area(rest) {
                Some(a) => out.push((sheet, Some(a))),
                None => {
                    // coordinates outside the grid (row/column 0, beyond XFD / 1048576)?
                    let off = rest.split(':').any(|part| {
                        let part = part.replace('$', "");
                        let letters: String = part.chars().take_while(|c| c.is_ascii_uppercase()).collect();
                        let digits: String = part.chars().skip(letters.len()).collect();
                        let shape = digits.chars().all(|c| c.is_ascii_digit()) && letters.len() <= 3 && !(letters.is_empty() && digits.is_empty());
                        shape && ((!letters.is_empty() && col_index(&letters) > MAX_COL) || (!digits.is_empty() && digits.parse::<u64>().map_or(true, |v| v == 0 || v > MAX_ROW as u64)))
                    });
                    return Err(format!("{}cannot parse address {:?}", if off { "off-grid: " } else { "" }, p));
                }
            }
        }
    }
    Ok(out)
}

/// Compare an observed address list with the expected one.  On failure: (index of the failing
/// part, symptom, detail).
fn judge_addresses(r: &Resolved, parts: &[(usize, Area)], observed: &[(String, Option<Area>)], may_drop: bool) -> Option<(usize, String, String)> {
    let mut j = 0usize;
    for (i, (t, a)) in parts.iter().enumerate() {
        let alts = edit_area_history(a, &r.edits_on(*t));
        let can_die = alts.contains(&None);
        let alive: Vec<&Area> = alts.iter().flatten().collect();
        match observed.get(j) {
            Some((s, Some(oa))) if *s == r.sheets[*t] && alive.contains(&oa) => {
                j += 1;
            }
            Some((_, None)) if can_die => {
                j += 1;
            }
            other => {
                // the address may have been dropped (only if enough observed elements would
                // then be left over for the remaining parts)
                if can_die && may_drop && observed.len() - j.min(observed.len()) <= parts.len() - i - 1 {
                    continue;
                }
                let symptom = match other {
                    None => "address-lost",
                    Some((s, _)) if *s != r.sheets[*t] => "sheet-changed",
                    Some((_, Some(oa))) if oa == a => "not-adjusted",
                    Some((_, Some(_))) if alive.is_empty() => "no-ref-error",
                    Some((_, Some(_))) => "wrong-shift",
                    Some((_, None)) => "spurious-ref-error",
                };
                return Some((
                    i,
                    symptom.to_string(),
                    format!(
                        "address {} {}!{}: accepted {:?}, observed {:?}",
                        i,
                        r.sheets[*t],
                        a.text(),
                        alts.iter().map(|x| x.as_ref().map(|a| a.text()).unwrap_or("#REF!".into())).collect::<Vec<_>>(),
                        other.map(|(s, a)| format!("{}!{}", s, a.as_ref().map(|a| a.text()).unwrap_or("#REF!".into())))
                    ),
                ));
            }
        }
    }
    if j < observed.len() {
        return Some((parts.len() - 1, "extra-address".into(), format!("observed {} addresses, expected {}", observed.len(), parts.len())));
    }
    None
}

/// multi-address names where DefinedName::split_str does not see the separating comma (it
/// counts parentheses and double quotes even inside a quoted sheet name): the whole text is
/// then kept as an opaque string and never adjusted
fn punct_multi(sheets: &[String], parts: &[(usize, Area)]) -> bool {
    if parts.len() < 2 {
        return false;
    }
    let texts = address_text(sheets, parts);
    let mut depth = 0i32;
    let mut dq = 0usize;
    for t in &texts[..texts.len() - 1] {
        for c in t.chars() {
            match c {
                '(' => depth += 1,
                ')' => depth -= 1,
                '"' => dq += 1,
                _ => {}
            }
        }
        if depth != 0 || dq % 2 == 1 {
            return true;
        }
    }
    false
}

/// Structural class of a failing address part (None = general).  `holder`: Some for defined
/// names.
fn address_cause(r: &Resolved, kind: &str, holder: Option<usize>, parts: &[(usize, Area)], i: usize) -> Option<String> {
    let (t, a) = &parts[i.min(parts.len() - 1)];
    if let Some(h) = holder {
        if punct_multi(&r.sheets, parts) {
            return Some(format!("{}-multi-on-punct-sheet", kind));
        }
        if h == WORKBOOK {
            return Some(format!("{}-workbook-level", kind));
        }
    }
    if edit_area_history(a, &r.edits_on(*t)).contains(&None) {
        return Some(format!("{}:deleted-corner", kind));
    }
    None
}

fn address_key(r: &Resolved, kind: &str, holder: Option<usize>, parts: &[(usize, Area)], i: usize, symptom: &str) -> String {
    match address_cause(r, kind, holder, parts, i) {
        // one key per structural cause (its symptoms vary with the numbers involved)
        Some(c) if c.contains(':') => {
            let (k, cause) = c.split_once(':').unwrap();
            format!("{}/{}{}", k, cause, if symptom.starts_with("panic") { "-panic" } else { "" })
        }
        Some(c) => format!("{}/{}", c, symptom),
        None => format!("{}/{}", kind, symptom),
    }
}

/// the part a panic is attributed to: the first one with a structural cause that can panic
fn panic_part(r: &Resolved, kind: &str, holder: Option<usize>, parts: &[(usize, Area)]) -> usize {
    for i in 0..parts.len() {
        if let Some(c) = address_cause(r, kind, holder, parts, i) {
            if c.contains(':') {
                return i;
            }
        }
    }
    0
}

/// a defined name alone (classifier)
fn attempt_name(r: &Resolved, holder: usize, parts: &[(usize, Area)]) -> Option<(String, String)> {
    let single = Resolved { sheets: r.sheets.clone(), cells: vec![], shared: vec![], group: vec![], reload: false, names: vec![(holder, parts.to_vec())], series: vec![], edits: r.edits.clone(), excluded: vec![], lazy: None };
    match run_workbook(&single, &[]) {
        Err(p) => {
            let i = panic_part(r, "defined-name", Some(holder), parts);
            Some((address_key(r, "defined-name", Some(holder), parts, i, &format!("panic:{}", p.site())), format!("defined name {:?}: {}", address_text(&r.sheets, parts).join(","), p.short())))
        }
        Ok(o) => {
            let r0 = Resolved { edits: vec![], ..r.clone() };
            if judge_name(&r0, holder, parts, &o.names0[0]).is_some() {
                None
            } else {
                judge_name(r, holder, parts, &o.names[0])
            }
        }
    }
}

fn judge_name(r: &Resolved, holder: usize, parts: &[(usize, Area)], observed: &Option<String>) -> Option<(String, String)> {
    let text = observed.clone().unwrap_or_default();
    let shown = format!("defined name {:?} -> {:?}", address_text(&r.sheets, parts).join(","), text);
    match parse_address_list(&text, true) {
        Err(e) => {
            let symptom = if e.starts_with("off-grid") { "off-grid-coordinate" } else { "unparsable" };
            let i = panic_part(r, "defined-name", Some(holder), parts);
            Some((address_key(r, "defined-name", Some(holder), parts, i, symptom), format!("{}: {}", shown, e)))
        }
        Ok(list) => judge_addresses(r, parts, &list, true).map(|(i, symptom, detail)| (address_key(r, "defined-name", Some(holder), parts, i, &symptom), format!("{}: {}", shown, detail))),
    }
}

fn attempt_series(r: &Resolved, holder: usize, parts: &[(usize, Area)]) -> Option<(String, String)> {
    let single = Resolved { sheets: r.sheets.clone(), cells: vec![], shared: vec![], group: vec![], reload: false, names: vec![], series: vec![(holder, parts.to_vec())], edits: r.edits.clone(), excluded: vec![], lazy: None };
    match run_workbook(&single, &[]) {
        Err(p) => {
            let i = panic_part(r, "chart-series", None, parts);
            Some((address_key(r, "chart-series", None, parts, i, &format!("panic:{}", p.site())), format!("chart series {:?}: {}", address_text(&r.sheets, parts), p.short())))
        }
        Ok(o) => {
            let r0 = Resolved { edits: vec![], ..r.clone() };
            if judge_series(&r0, parts, &o.series0[0]).is_some() {
                None
            } else {
                judge_series(r, parts, &o.series[0])
            }
        }
    }
}

fn judge_series(r: &Resolved, parts: &[(usize, Area)], observed: &Option<Vec<String>>) -> Option<(String, String)> {
    let Some(list) = observed else { return None }; // chart removed with its anchor rows/columns
    if list.len() != parts.len() {
        return Some(("chart-series/count".into(), format!("{} series formulas, expected {}", list.len(), parts.len())));
    }
    for (i, text) in list.iter().enumerate() {
        let shown = format!("series {:?} -> {:?}", address_text(&r.sheets, &parts[i..i + 1])[0], text);
        match parse_address_list(text, false) {
            Err(e) => {
                let symptom = if e.starts_with("off-grid") { "off-grid-coordinate" } else { "unparsable" };
                return Some((address_key(r, "chart-series", None, parts, i, symptom), format!("{}: {}", shown, e)));
            }
            Ok(l) => {
                if let Some((_, symptom, detail)) = judge_addresses(r, &parts[i..i + 1], &l, false) {
                    return Some((address_key(r, "chart-series", None, parts, i, &symptom), format!("{}: {}", shown, detail)));
                }
            }
        }
    }
    None
}

// ---------------------------------------------------------------------------------------
// check

fn label(c: &Case, r: &Resolved, obs: &mut Obs) {
    let mut classes: BTreeSet<String> = BTreeSet::new();
    classes.insert(format!("sheets:{}", r.sheets.len()));
    for s in &r.sheets {
        if s.contains('\'') {
            classes.insert("sheet:apostrophe".into());
        } else if needs_quote(s) {
            classes.insert("sheet:needs-quote".into());
        } else {
            classes.insert("sheet:bare".into());
        }
    }
    for (_, e) in &r.edits {
        classes.insert(
            match e {
                Edit::InsertRows { .. } => "op:insert-rows",
                Edit::InsertCols { .. } => "op:insert-cols",
                Edit::RemoveRows { .. } => "op:remove-rows",
                Edit::RemoveCols { .. } => "op:remove-cols",
            }
            .into(),
        );
    }
    let edited: BTreeSet<usize> = r.edits.iter().map(|(s, _)| *s).collect();
    if edited.len() >= 2 {
        classes.insert("ops:several-sheets".into());
    }
    let mut nontrivial = false;
    for (ci, (host, _at, e, _b)) in r.cells.iter().enumerate() {
        let sh = r.shared.get(ci).copied().unwrap_or(0);
        if sh == 1 {
            classes.insert("cell:shared-child".into());
            let other_edit = edited.iter().any(|s| s != host);
            for rn in e.refs() {
                if rn.qual.is_some() && target_of(rn, *host, &r.sheets) == Some(*host) && other_edit {
                    classes.insert("shared-child:self-qualified-ref+edit-on-other-sheet".into());
                }
                if let Some(t) = target_of(rn, *host, &r.sheets) {
                    if t != *host && edit_area_history(&rn.area, &r.edits_on(t)) != vec![Some(rn.area.clone())] {
                        classes.insert("shared-child:other-sheet-ref-moved".into());
                    }
                }
            }
        } else if sh == 2 {
            classes.insert("cell:shared-master".into());
        } else if sh == 3 {
            classes.insert("cell:shared-member-own-text+view".into());
        } else if sh == 5 {
            classes.insert("reload:group-member-written-with-text".into());
        } else if sh == 6 {
            classes.insert("reload:group-member-written-empty".into());
        }
        let mut moved = false;
        let mut fixed_tok = false;
        for t in tokens(e, &identity_map) {
            if matches!(t.kind, Kind::Str | Kind::Func) {
                fixed_tok = true;
            }
        }
        for rn in e.refs() {
            let cls = match target_of(rn, *host, &r.sheets) {
                None => {
                    fixed_tok = true;
                    "ref:external"
                }
                Some(t) => {
                    let outs = edit_area_history(&rn.area, &r.edits_on(t));
                    if outs == vec![Some(rn.area.clone())] {
                        if !edited.contains(&t) {
                            fixed_tok = true;
                            "ref:unedited-sheet"
                        } else {
                            "ref:before-edit"
                        }
                    } else {
                        moved = true;
                        if outs.len() > 1 {
                            "ref:corner-deleted"
                        } else if outs[0].is_none() {
                            "ref:deleted"
                        } else if rn.area.abs_kind() != "rel" {
                            "ref:moved-abs"
                        } else {
                            "ref:moved"
                        }
                    }
                }
            };
            classes.insert(cls.into());
            if rn.qual.is_none() {
                classes.insert("ref:unqualified".into());
            } else if target_of(rn, *host, &r.sheets) == Some(*host) {
                classes.insert("ref:self-qualified".into());
            }
        }
        if moved && fixed_tok {
            nontrivial = true;
        }
    }
    for (holder, parts) in r.names.iter() {
        for (t, a) in parts {
            let outs = edit_area_history(a, &r.edits_on(*t));
            if outs != vec![Some(a.clone())] {
                nontrivial = true;
                classes.insert(if outs.contains(&None) { "name:target-deleted" } else { "name:moved" }.into());
            } else {
                classes.insert("name:unchanged".into());
            }
            if *holder == WORKBOOK {
                classes.insert("name:workbook-level".into());
            } else if t != holder {
                classes.insert("name:foreign-holder".into());
            }
            if matches!(a, Area::Rows { .. } | Area::Cols { .. }) {
                classes.insert("name:whole-rows-cols".into());
            }
        }
    }
    for (_, parts) in r.series.iter() {
        for (t, a) in parts {
            let outs = edit_area_history(a, &r.edits_on(*t));
            if outs != vec![Some(a.clone())] {
                nontrivial = true;
                classes.insert(if outs.contains(&None) { "series:target-deleted" } else { "series:moved" }.into());
            } else {
                classes.insert("series:unchanged".into());
            }
        }
    }
    let _ = c;
    for cl in classes {
        obs.class(cl);
    }
    obs.nontrivial(nontrivial);
}

fn check(c: &Case, obs: &mut Obs) -> Verdict {
    let r = resolve(c);
    for x in &r.excluded {
        obs.excluded(x.clone());
    }
    label(c, &r, obs);
    let v = check_inner(&r, obs);
    if r.lazy.is_some() {
        obs.class(format!("lazy:materialised-{}-of-{}", r.lazy.as_ref().unwrap().len(), r.sheets.len()));
        if let Verdict::Fail { key, detail } = &v {
            // the same workbook and history without the save / lazy reload
            let eager = Resolved { lazy: None, ..r.clone() };
            let mut o2 = Obs::default();
            if matches!(check_inner(&eager, &mut o2), Verdict::Pass) {
                return Verdict::fail(format!("lazy-load/{}", key.rsplit('/').next().unwrap_or("altered")), detail.clone());
            }
        }
    }
    v
}

fn check_inner(r: &Resolved, obs: &mut Obs) -> Verdict {
    let r = r.clone();
    // render + harness self-check
    let mut texts = Vec::new();
    let mut inputs = Vec::new();
    for (_h, _at, e, b) in &r.cells {
        match prepare(e, b, 0, 0) {
            Ok((t, i)) => {
                texts.push(t);
                inputs.push(i);
            }
            Err(Outcome::Harness(d)) => return Verdict::fail("harness/generator-lexer-disagree", d),
            Err(_) => unreachable!(),
        }
    }
    let whole = run_workbook(&r, &texts);
    // judge every object of the combined run
    let mut first_fail: Option<(String, String)> = None;
    if let Ok(o) = &whole {
        if let Some(why) = &o.setup_failed {
            obs.class(format!("lazy:setup-failed:{}", why.split(':').next().unwrap_or("")));
            return Verdict::Pass;
        }
    }
    if let Ok(o) = &whole {
        for (i, (host, at, e, b)) in r.cells.iter().enumerate() {
            let sh = r.shared.get(i).copied().unwrap_or(0);
            if r.lazy.is_some() || r.reload {
                // the reloaded file must show the generated formula, else the save/load
                // path (C01/C03) changed it and this cell is not judged here
                let same = o.cells0[i].as_ref().and_then(|t| lex(t).ok()).map_or(false, |l| first_mismatch(&inputs[i], &l).is_none());
                if !same {
                    obs.class(if r.reload { "reload:formula-changed-by-reload" } else { "lazy:formula-changed-by-reload" });
                    continue;
                }
            }
            let Some(out) = &o.cells[i] else {
                obs.class("formula-cell-deleted");
                continue;
            };
            let expected = cell_expected(&r, *host, e);
            if let Outcome::Fail { mode, tok_class, detail } = judge_output(&texts[i], &inputs[i], &expected, Ok(Ok(out.clone()))) {
                if r.reload {
                    // what the cell is after the reload decides the class
                    let kind = match sh {
                        2 => "shared-master",
                        5 => "shared-member-with-own-text",
                        6 => "shared-member-without-text",
                        _ => "ordinary-cell",
                    };
                    first_fail = Some((format!("reloaded-{}/{}", kind, mode), detail));
                    break;
                }
                let run = |x: &Expr, bl: &[u8], l: u8, t: u8| attempt_cell(&r, sh, *host, *at, x, bl, l, t);
                let run_ref = |rn: &RefNode, strip: bool, a: &Area, lower: bool| ref_runner(&r, sh, *host, *at, rn, strip, a, lower);
                // classify on the isolated cell when it fails alone as well, else by token class
                let alone = attempt_cell(&r, sh, *host, *at, e, b, 0, 0);
                let (key, detail) = match alone {
                    // a failure that an ordinary cell with the same text does not show
                    Outcome::Fail { mode, detail, .. } if sh != 0 && !matches!(attempt_cell(&r, 0, *host, *at, e, b, 0, 0), Outcome::Fail { .. }) => {
                        (format!("shared-formula-{}/{}", ["", "child", "master", "member-with-own-text"][sh.min(3) as usize], mode), detail)
                    }
                    Outcome::Fail { mode, tok_class, detail } => classify(e, b, 0, 0, (mode, tok_class, detail), &run, &run_ref),
                    _ => (format!("{}-with-other-objects/{}", tok_class, mode), detail),
                };
                first_fail = Some((key, detail));
                break;
            }
        }
        let r0 = Resolved { edits: vec![], ..r.clone() };
        if first_fail.is_none() {
            for (i, (holder, parts)) in r.names.iter().enumerate() {
                if judge_name(&r0, *holder, parts, &o.names0[i]).is_some() {
                    // not readable even before the history: the address codec, not this property
                    obs.class("name:baseline-unreadable");
                    continue;
                }
                if let Some((k, d)) = judge_name(&r, *holder, parts, &o.names[i]) {
                    first_fail = Some((k, d));
                    break;
                }
            }
        }
        if first_fail.is_none() {
            for (i, (_holder, parts)) in r.series.iter().enumerate() {
                if judge_series(&r0, parts, &o.series0[i]).is_some() {
                    obs.class("series:baseline-unreadable");
                    continue;
                }
                if let Some((k, d)) = judge_series(&r, parts, &o.series[i]) {
                    first_fail = Some((k, d));
                    break;
                }
            }
        }
    }
    if let Err(p) = &whole {
        // attribute the panic to the first object that panics (or fails) alone
        for (i, (host, at, e, b)) in r.cells.iter().enumerate() {
            let sh = r.shared.get(i).copied().unwrap_or(0);
            if let Outcome::Fail { mode, tok_class, detail } = attempt_cell(&r, sh, *host, *at, e, b, 0, 0) {
                let run = |x: &Expr, bl: &[u8], l: u8, t: u8| attempt_cell(&r, sh, *host, *at, x, bl, l, t);
                let run_ref = |rn: &RefNode, strip: bool, a: &Area, lower: bool| ref_runner(&r, sh, *host, *at, rn, strip, a, lower);
                let (key, detail) = classify(e, b, 0, 0, (mode, tok_class, detail), &run, &run_ref);
                return Verdict::fail(key, detail);
            }
        }
        for (holder, parts) in r.names.iter() {
            if let Some((k, d)) = attempt_name(&r, *holder, parts) {
                return Verdict::fail(k, d);
            }
        }
        for (holder, parts) in r.series.iter() {
            if let Some((k, d)) = attempt_series(&r, *holder, parts) {
                return Verdict::fail(k, d);
            }
        }
        let mode = if p.msg.contains("umya_verif: tokenizer made no progress") { "no-termination".to_string() } else { format!("panic:{}", p.site()) };
        return Verdict::fail(format!("workbook/{}", mode), p.short());
    }
    match first_fail {
        Some((k, d)) => Verdict::fail(k, d),
        None => Verdict::Pass,
    }
}

fn subs() -> Vec<Box<dyn DynSub>> {
    vec![
        Box::new(Sub { name: "cells", strategy: cells_cases, cases: (2200, 30_000), check, max_shrink_iters: 2500 }),
        Box::new(Sub { name: "defined-names", strategy: names_cases, cases: (1000, 12_000), check, max_shrink_iters: 2500 }),
        Box::new(Sub { name: "chart-series", strategy: series_cases, cases: (600, 8_000), check, max_shrink_iters: 2500 }),
        Box::new(Sub { name: "lazy", strategy: lazy_cases, cases: (500, 8_000), check, max_shrink_iters: 1500 }),
        Box::new(Sub { name: "reloaded", strategy: reloaded_cases, cases: (400, 6_000), check, max_shrink_iters: 1500 }),
        Box::new(Sub { name: "dirty", strategy: dirty_cases, cases: (400, 5_000), check, max_shrink_iters: 2500 }),
    ]
}
