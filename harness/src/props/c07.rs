//! C07 — structural edits relocate content exactly like a reference grid.
//!
//! State is built through the public API only (`gen::grid::build_book`), a history of
//! 1..40 abstract operations is resolved against the reference model (`model::grid`) so
//! that every precondition holds by construction, and after EVERY operation the
//! public-getter dump of EVERY sheet is compared with the model.
//!
//! Projection compared (exactly what the statement names):
//! * cells: position, value text, style (as a tag), hyperlink (on the cell);
//! * explicitly set row heights / column widths (+ hidden flag). Row/column entries that
//!   carry nothing but the defaults the API creates as a side effect of `get_cell_mut`
//!   (height 0 / width 8.38, not hidden, no style) are NOT part of the projection;
//! * merged rectangles, comment anchors (+ text), conditional-format ranges (per rule
//!   priority tag), the auto-filter range;
//! * every coordinate of the dump (default dimension entries included) lies inside
//!   1..16384 x 1..1048576, start <= end;
//! * no panic.
//! Metamorphic: `remove(p,n) . insert(p,n)` on a clone restores the pre-insert projection;
//! move leaves (source rectangle minus destination rectangle) empty.
//! Ranges that PARTLY overlap a removed band: own sub-check, weak oracle (no panic, inside
//! the grid, start <= end; at most one surviving range per such object).
use super::Prop;
use crate::engine::*;
use crate::gen::grid::*;
use crate::model::grid::*;
use proptest::prelude::*;
use serde::{Deserialize, Serialize};
use std::collections::BTreeMap;
use umya_spreadsheet::{Range, Spreadsheet, Worksheet};

pub fn prop() -> Prop {
    Prop {
        id: "C07",
        describe,
        subs,
        extra: super::no_extra,
        replay_extra: super::no_replay_extra,
        watchdog_s: (900, 14400),
    }
}

fn describe(ctx: &Ctx) {
    ctx.rule("workbooks of 1..3 sheets built through the public API (tagged cells with optional style/hyperlink, explicit row heights and column widths, disjoint merges, comments, conditional formats, auto-filter, optional content next to the grid limits) x histories of 1..40 operations {insert/remove rows/columns at workbook level by sheet name and at sheet level, columns by letter or index, move_range, copy_range, set value, remove cell}; positions are aimed at object boundaries (start-1, start, start+1, end, end+1), at 1 and at the grid limits; counts at 1.., exact cover, one short, one past. Non-trivial = the history contains an insert/remove whose band precedes or intersects at least one object, or a move/copy with a non-empty source; distinct by serialised case");
    ctx.assume("a rectangle is shifted corner by corner: an insert point inside a range makes it grow, a removed band strictly inside a range makes it shrink (needed for remove-undoes-insert)");
    ctx.assume("ranges that partly overlap a removed band are only generated in the sub-check `partial-overlap` and judged by the weak oracle (no panic, inside the grid, start <= end)");
    ctx.assume("hyperlinks live on cells in this API; for move/copy the statement does not name them, so the hyperlink of a cell written by move/copy is not compared when source or overwritten cell had one");
    ctx.assume("sub-check `lazy`: the built workbook is saved and reopened with read_reader(.., false); cases whose eager reload no longer shows the projection (a save/reload matter, other properties) are discarded; non-trivial = a workbook-level edit with effect hits a sheet that is still raw");
    ctx.assume("column letters are passed in upper, lower and mixed case (\"B\", \"b\", \"aB\"): the entry points take the letter of a column, and column letters are case-insensitive throughout the library's coordinate parsing");
    ctx.assume("no formulas are placed in cells (reference adjustment is C08); every generated cell has a non-empty value, so 'non-blank source cell' is unambiguous");
}

// ---------------------------------------------------------------------------------------
// case

#[derive(Clone, Debug, Serialize, Deserialize)]
pub struct Case {
    pub sheets: Vec<SheetSpec>,
    pub ops: Vec<AOp>,
    /// stratum: removal bands may partly overlap range objects (weak oracle for those)
    pub partial: bool,
}

fn op_kinds() -> Vec<(u32, AKind)> {
    vec![
        (3, AKind::InsertRows),
        (3, AKind::InsertCols),
        (3, AKind::RemoveRows),
        (3, AKind::RemoveCols),
        (2, AKind::Move),
        (2, AKind::Copy),
        (2, AKind::SetValue),
        (1, AKind::RemoveCell),
    ]
}

fn case_strategy(partial: bool, max_cells: usize) -> BoxedStrategy<Case> {
    (
        prop::collection::vec(sheet_spec(max_cells, true), 1..=3),
        prop::collection::vec(aop(op_kinds()), 1..=40),
    )
        .prop_map(move |(sheets, ops)| Case { sheets, ops, partial })
        .boxed()
}

fn strat_clean(t: Tier) -> BoxedStrategy<Case> {
    case_strategy(false, t.pick(12, 24))
}

fn strat_partial(t: Tier) -> BoxedStrategy<Case> {
    case_strategy(true, t.pick(12, 24))
}

/// Lazy stratum: the workbook is saved, reopened with `read_reader(.., false)` (sheets stay
/// raw), a generated subset of the sheets is materialised, and the workbook-level part of
/// a history (insert/remove rows/columns by sheet name) is applied; then everything is
/// materialised and compared with the reference grid.
#[derive(Clone, Debug, Serialize, Deserialize)]
pub struct LazyCase {
    pub sheets: Vec<SheetSpec>,
    pub ops: Vec<AOp>,
    /// bit i set: sheet i is materialised (`read_sheet(i)`) before the history starts
    pub materialise: u8,
}

fn strat_lazy(t: Tier) -> BoxedStrategy<LazyCase> {
    let kinds = vec![
        (2, AKind::InsertRows),
        (2, AKind::InsertCols),
        (3, AKind::RemoveRows),
        (3, AKind::RemoveCols),
    ];
    (
        prop::collection::vec(sheet_spec(t.pick(10, 20), true), 1..=3),
        prop::collection::vec(aop(kinds), 1..=8),
        0u8..8,
    )
        .prop_map(|(sheets, ops, materialise)| LazyCase { sheets, ops, materialise })
        .boxed()
}

fn check_lazy(case: &LazyCase, obs: &mut Obs) -> Verdict {
    let mut tags = Tags::default();
    let (book0, mut model) = match guard(|| build_book(&case.sheets, &mut tags)) {
        Ok(x) => x,
        Err(p) => return Verdict::fail(format!("build/panic:{}", p.site()), p.short()),
    };
    // save + reopen; what a save/reload does to content is other properties' subject
    // (C01/C05/C06): if the eagerly reloaded workbook does not show the projection any
    // more, the case is not usable here
    let bytes = match guard(|| {
        let mut v: Vec<u8> = Vec::new();
        umya_spreadsheet::writer::xlsx::write_writer(&book0, &mut v).map(|_| v)
    }) {
        Ok(Ok(v)) => v,
        _ => return Verdict::Discard("the built workbook could not be saved".into()),
    };
    let eager = guard(|| umya_spreadsheet::reader::xlsx::read_reader(std::io::Cursor::new(bytes.clone()), true));
    match eager {
        Ok(Ok(b)) => {
            if let Some((i, d)) = compare_book_with(&b, &model, 0, true) {
                return Verdict::Discard(format!("save+reload does not preserve the projection (sheet {}: {}/{})", i, d.obj, d.mode));
            }
        }
        _ => return Verdict::Discard("the saved workbook could not be read back".into()),
    }
    let mut book = match guard(|| umya_spreadsheet::reader::xlsx::read_reader(std::io::Cursor::new(bytes.clone()), false)) {
        Ok(Ok(b)) => b,
        _ => return Verdict::Discard("the saved workbook could not be opened lazily".into()),
    };
    let nsheets = model.sheets.len();
    let mut raw: Vec<bool> = vec![true; nsheets];
    for i in 0..nsheets {
        if case.materialise & (1 << i) != 0 {
            if let Err(p) = guard(|| {
                book.read_sheet(i);
            }) {
                return Verdict::fail(format!("lazy/read_sheet/panic:{}", p.site()), p.short());
            }
            raw[i] = false;
        }
    }
    obs.class(format!("sheets-left-raw:{}", raw.iter().filter(|x| **x).count()));
    let mut trace: Vec<String> = Vec::new();
    for (i, aop) in case.ops.iter().enumerate() {
        let sheet = pick_idx(aop.sheet, nsheets);
        let occ = Occ::from_model(&model.sheets[sheet]);
        let mut cx = ResolveCtx {
            occ: &occ,
            sheet,
            allow_partial: false,
            tags: &mut tags,
            steered: 0,
            bulk_limit: 0,
            from_other_variants: false,
        };
        let mut op = match resolve(aop, &mut cx) {
            Resolved::Skip(why) => {
                obs.class(format!("skipped:{}", why));
                continue;
            }
            Resolved::Op(op) => op,
        };
        // only the workbook-level entry points work on a workbook whose sheets are raw
        match &mut op {
            COp::Insert { book_level, .. } | COp::Remove { book_level, .. } => *book_level = true,
            _ => continue,
        }
        let kind = op.kind_name();
        trace.push(format!("#{} {:?}", i, op));
        if let Err(pn) = guard(|| apply_lib(&mut book, &op)) {
            return Verdict::fail(
                format!("lazy:{}/panic:{}", kind, pn.site()),
                format!("{} ; materialised {:#05b}; history: {}", pn.short(), case.materialise, trace.join("; ")),
            );
        }
        let (nt, _) = apply_model(&mut model, &op);
        obs.class(format!("op:{}", kind));
        if raw[sheet] {
            obs.class(format!("first-edit-of-raw-sheet:{}", kind));
            // a workbook-level edit loads the sheets it needs; from here on the sheet is
            // expected to behave like a loaded one
            raw[sheet] = false;
            obs.nontrivial(nt);
        }
    }
    if let Err(pn) = guard(|| {
        book.read_sheet_collection();
    }) {
        return Verdict::fail(format!("lazy/read_sheet_collection/panic:{}", pn.site()), pn.short());
    }
    if let Some((si, d)) = compare_book_with(&book, &model, 0, true) {
        return Verdict::fail(
            format!("lazy-workbook-level/{}/{}", d.obj, d.mode),
            format!(
                "lazily opened workbook (materialised first: {:#05b}) after the history, sheet {} differs from the reference grid: {} ; history: {}",
                case.materialise,
                si,
                d.detail,
                trace.join("; ")
            ),
        );
    }
    Verdict::Pass
}

fn subs() -> Vec<Box<dyn DynSub>> {
    vec![
        Box::new(Sub {
            name: "history",
            strategy: strat_clean,
            cases: (3000, 75000),
            check,
            max_shrink_iters: 6000,
        }),
        Box::new(Sub {
            name: "partial-overlap",
            strategy: strat_partial,
            cases: (1000, 25000),
            check,
            max_shrink_iters: 6000,
        }),
        Box::new(Sub {
            name: "lazy",
            strategy: strat_lazy,
            cases: (250, 6000),
            check: check_lazy,
            max_shrink_iters: 3000,
        }),
    ]
}

// ---------------------------------------------------------------------------------------
// dump through public getters

#[derive(Clone, Debug, PartialEq)]
pub struct DCell {
    pub row: u32,
    pub col: u32,
    pub value: String,
    pub style: Result<u32, String>,
    pub hl: Option<String>,
}

#[derive(Clone, Debug, PartialEq)]
pub struct DDim {
    pub idx: u32,
    pub size: f64,
    pub hidden: bool,
    /// carries something beyond the API's side-effect defaults
    pub explicit: bool,
}

#[derive(Clone, Debug, Default, PartialEq)]
pub struct SheetDump {
    pub name: String,
    pub cells: Vec<DCell>,
    pub rows: Vec<DDim>,
    pub cols: Vec<DDim>,
    /// Err = a range without a start corner (never generated)
    pub merges: Vec<Result<Rect, String>>,
    pub comments: Vec<(u32, u32, String)>,
    pub cfs: Vec<(i32, Vec<Result<Rect, String>>)>,
    pub filter: Option<Result<Rect, String>>,
}

pub fn raw_rect(r: &Range) -> Result<Rect, String> {
    let c1 = r.get_coordinate_start_col().map(|v| *v.get_num());
    let r1 = r.get_coordinate_start_row().map(|v| *v.get_num());
    let (Some(c1), Some(r1)) = (c1, r1) else {
        return Err(format!("range without start corner: {:?}", r.get_range()));
    };
    let c2 = r.get_coordinate_end_col().map(|v| *v.get_num()).unwrap_or(c1);
    let r2 = r.get_coordinate_end_row().map(|v| *v.get_num()).unwrap_or(r1);
    Ok(Rect::new(r1, c1, r2, c2))
}

pub fn dump_sheet(ws: &Worksheet) -> SheetDump {
    dump_sheet_with(ws, false)
}

/// `reloaded`: the sheet went through save + reload; styles are read by their fill colour
/// only and a dimension entry is explicit by size/hidden alone (the reader materialises
/// workbook defaults into styles).
pub fn dump_sheet_with(ws: &Worksheet, reloaded: bool) -> SheetDump {
    let mut d = SheetDump {
        name: ws.get_name().to_string(),
        ..Default::default()
    };
    for cell in ws.get_cell_collection() {
        let co = cell.get_coordinate();
        d.cells.push(DCell {
            row: *co.get_row_num(),
            col: *co.get_col_num(),
            value: cell.get_value().to_string(),
            style: if reloaded { style_tag_lenient(cell.get_style()) } else { style_tag_of(cell.get_style()) },
            hl: cell.get_hyperlink().map(|h| h.get_url().to_string()),
        });
    }
    d.cells.sort_by_key(|c| (c.row, c.col));
    let default_style = umya_spreadsheet::Style::default();
    for r in ws.get_row_dimensions() {
        let explicit = *r.get_height() != 0.0 || *r.get_custom_height() || *r.get_hidden() || (!reloaded && *r.get_style() != default_style);
        d.rows.push(DDim {
            idx: *r.get_row_num(),
            size: *r.get_height(),
            hidden: *r.get_hidden(),
            explicit,
        });
    }
    d.rows.sort_by_key(|r| r.idx);
    for c in ws.get_column_dimensions() {
        let explicit = *c.get_width() != 8.38 || *c.get_hidden() || *c.get_best_fit() || (!reloaded && *c.get_style() != default_style);
        d.cols.push(DDim {
            idx: *c.get_col_num(),
            size: *c.get_width(),
            hidden: *c.get_hidden(),
            explicit,
        });
    }
    d.cols.sort_by_key(|c| c.idx);
    for m in ws.get_merge_cells() {
        d.merges.push(raw_rect(m));
    }
    for c in ws.get_comments() {
        let co = c.get_coordinate();
        d.comments.push((*co.get_row_num(), *co.get_col_num(), c.get_text().get_text().to_string()));
    }
    d.comments.sort();
    for cf in ws.get_conditional_formatting_collection() {
        let prio = cf.get_conditional_collection().first().map(|r| *r.get_priority()).unwrap_or(-1);
        let ranges = cf.get_sequence_of_references().get_range_collection().iter().map(raw_rect).collect();
        d.cfs.push((prio, ranges));
    }
    d.filter = ws.get_auto_filter().map(|f| raw_rect(f.get_range()));
    d
}

// ---------------------------------------------------------------------------------------
// comparison model <-> dump

pub struct Discrepancy {
    pub obj: &'static str,
    pub mode: String,
    pub detail: String,
}

fn disc(obj: &'static str, mode: &str, detail: String) -> Option<Discrepancy> {
    Some(Discrepancy {
        obj,
        mode: mode.to_string(),
        detail,
    })
}

fn grid_mode(r: &Rect) -> &'static str {
    if r.r1 == 0 || r.c1 == 0 || r.r2 == 0 || r.c2 == 0 {
        "row0-or-col0"
    } else if r.r1 > r.r2 || r.c1 > r.c2 {
        "start-after-end"
    } else {
        "outside-grid"
    }
}

/// Exact multiset `expected` must be contained in `actual`; what is left over in `actual`
/// must be explained by at most `loose` ranges of undetermined position.
fn compare_ranges(obj: &'static str, expected: &[MRange], actual: &[Result<Rect, String>]) -> Option<Discrepancy> {
    let mut left: Vec<Rect> = Vec::new();
    for a in actual {
        match a {
            Err(e) => return disc(obj, "malformed", e.clone()),
            Ok(r) => {
                if !r.in_grid() {
                    return disc(obj, grid_mode(r), format!("{} range {:?} (r1,c1,r2,c2)", obj, (r.r1, r.c1, r.r2, r.c2)));
                }
                left.push(*r);
            }
        }
    }
    let mut loose = 0usize;
    let mut missing: Vec<Rect> = Vec::new();
    for e in expected {
        match e {
            MRange::Loose { .. } => loose += 1,
            MRange::Exact(r) => {
                if let Some(i) = left.iter().position(|x| x == r) {
                    left.remove(i);
                } else {
                    missing.push(*r);
                }
            }
        }
    }
    let show = |v: &[Rect]| v.iter().map(|r| r.a1()).collect::<Vec<_>>().join(",");
    if !missing.is_empty() && left.len() > loose {
        return disc(obj, "misplaced", format!("expected {} at [{}], found instead [{}]", obj, show(&missing), show(&left)));
    }
    if !missing.is_empty() {
        return disc(obj, "lost", format!("expected {} at [{}] not found (others: [{}])", obj, show(&missing), show(&left)));
    }
    if left.len() > loose {
        return disc(obj, "unexpected", format!("unexpected {} at [{}]", obj, show(&left)));
    }
    None
}

pub fn compare_sheet(m: &MSheet, d: &SheetDump) -> Option<Discrepancy> {
    if m.name != d.name {
        return disc("sheet", "renamed", format!("sheet name {:?} != {:?}", d.name, m.name));
    }
    // --- cells
    let mut seen: BTreeMap<(u32, u32), &DCell> = BTreeMap::new();
    for c in &d.cells {
        if c.row < 1 || c.row > MAX_ROW || c.col < 1 || c.col > MAX_COL {
            let mode = if c.row == 0 || c.col == 0 { "row0-or-col0" } else { "outside-grid" };
            return disc("cell", mode, format!("cell {:?} at row {} col {}", c.value, c.row, c.col));
        }
        let blank = c.value.is_empty() && c.style == Ok(0) && c.hl.is_none();
        if blank {
            continue;
        }
        if seen.insert((c.row, c.col), c).is_some() {
            return disc("cell", "duplicate", format!("two cells report row {} col {}", c.row, c.col));
        }
    }
    let mut missing = Vec::new();
    for (&(r, c), mc) in &m.cells {
        match seen.remove(&(r, c)) {
            None => missing.push(format!("{}{}={}", col_name(c), r, value_text(mc.value))),
            Some(dc) => {
                if dc.value != value_text(mc.value) {
                    return disc(
                        "cell",
                        "wrong-value",
                        format!("{}{} holds {:?}, expected {:?}", col_name(c), r, dc.value, value_text(mc.value)),
                    );
                }
                if dc.style != Ok(mc.style) {
                    return disc(
                        "cell",
                        "wrong-style",
                        format!("{}{} has style {:?}, expected tag {}", col_name(c), r, dc.style, mc.style),
                    );
                }
                match (&mc.hl, &dc.hl) {
                    (Hl::Unspecified, _) => {}
                    (Hl::None, None) => {}
                    (Hl::Tag(t), Some(u)) if *u == hl_url(*t) => {}
                    (e, a) => {
                        return disc(
                            "hyperlink",
                            "wrong-anchor",
                            format!("{}{} has hyperlink {:?}, expected {:?}", col_name(c), r, a, e),
                        )
                    }
                }
            }
        }
    }
    let extra: Vec<String> = seen.values().map(|c| format!("{}{}={}", col_name(c.col), c.row, c.value)).collect();
    if !missing.is_empty() && !extra.is_empty() {
        return disc("cell", "misplaced", format!("expected [{}], found instead [{}]", missing.join(","), extra.join(",")));
    }
    if !missing.is_empty() {
        return disc("cell", "lost", format!("expected cells [{}] are absent", missing.join(",")));
    }
    if !extra.is_empty() {
        return disc("cell", "unexpected", format!("unexpected cells [{}]", extra.join(",")));
    }
    // --- row / column settings
    for (obj, dims, model, limit, size_of) in [
        ("rowdim", &d.rows, &m.rows, MAX_ROW, dim_height as fn(u32) -> f64),
        ("coldim", &d.cols, &m.cols, MAX_COL, dim_width as fn(u32) -> f64),
    ] {
        let mut have: BTreeMap<u32, &DDim> = BTreeMap::new();
        for x in dims.iter() {
            if x.idx < 1 || x.idx > limit {
                let mode = if x.idx == 0 { "row0-or-col0" } else { "outside-grid" };
                return disc(obj, mode, format!("{} entry with index {}", obj, x.idx));
            }
            if x.explicit {
                if have.insert(x.idx, x).is_some() {
                    return disc(obj, "duplicate", format!("two explicit {} entries for index {}", obj, x.idx));
                }
            }
        }
        let mut missing = Vec::new();
        for (&i, md) in model.iter() {
            match have.remove(&i) {
                None => missing.push(i),
                Some(x) => {
                    if x.size.to_bits() != size_of(md.size).to_bits() || x.hidden != md.hidden {
                        return disc(
                            obj,
                            "wrong-setting",
                            format!("{} {} has size {} hidden {}, expected size {} hidden {}", obj, i, x.size, x.hidden, size_of(md.size), md.hidden),
                        );
                    }
                }
            }
        }
        let extra: Vec<u32> = have.keys().copied().collect();
        if !missing.is_empty() && !extra.is_empty() {
            return disc(obj, "misplaced", format!("expected settings at {:?}, found instead at {:?}", missing, extra));
        }
        if !missing.is_empty() {
            return disc(obj, "lost", format!("expected settings at {:?} are absent", missing));
        }
        if !extra.is_empty() {
            return disc(obj, "unexpected", format!("unexpected settings at {:?}", extra));
        }
    }
    // --- merges
    if let Some(x) = compare_ranges("merge", &m.merges, &d.merges) {
        return Some(x);
    }
    // --- comments
    let mut have = d.comments.clone();
    for c in &have {
        if c.0 < 1 || c.0 > MAX_ROW || c.1 < 1 || c.1 > MAX_COL {
            let mode = if c.0 == 0 || c.1 == 0 { "row0-or-col0" } else { "outside-grid" };
            return disc("comment", mode, format!("comment {:?} at row {} col {}", c.2, c.0, c.1));
        }
    }
    let mut missing = Vec::new();
    for c in &m.comments {
        let want = (c.row, c.col, format!("c{}", c.tag));
        if let Some(i) = have.iter().position(|x| *x == want) {
            have.remove(i);
        } else {
            missing.push(want);
        }
    }
    if !missing.is_empty() && !have.is_empty() {
        return disc("comment", "misplaced", format!("expected {:?}, found instead {:?}", missing, have));
    }
    if !missing.is_empty() {
        return disc("comment", "lost", format!("expected comments {:?} are absent", missing));
    }
    if !have.is_empty() {
        return disc("comment", "unexpected", format!("unexpected comments {:?}", have));
    }
    // --- conditional formats (identified by the priority tag of their rule)
    let mut have: Vec<&(i32, Vec<Result<Rect, String>>)> = d.cfs.iter().collect();
    for cf in &m.cfs {
        let pos = have.iter().position(|x| x.0 == cf.tag as i32);
        let all_loose = cf.ranges.iter().all(|r| matches!(r, MRange::Loose { .. }));
        match pos {
            None => {
                if !all_loose {
                    return disc("cf", "lost", format!("conditional format #{} with ranges {:?} is absent", cf.tag, cf.ranges));
                }
            }
            Some(i) => {
                let x = have.remove(i);
                if let Some(mut dd) = compare_ranges("cf", &cf.ranges, &x.1) {
                    dd.detail = format!("conditional format #{}: {}", cf.tag, dd.detail);
                    return Some(dd);
                }
            }
        }
    }
    if !have.is_empty() {
        return disc("cf", "unexpected", format!("unexpected conditional formats {:?}", have));
    }
    // --- auto filter
    match (&m.filter, &d.filter) {
        (None, None) => {}
        (None, Some(x)) => return disc("filter", "unexpected", format!("unexpected auto-filter {:?}", x)),
        (Some(MRange::Exact(r)), None) => return disc("filter", "lost", format!("auto-filter {} is absent", r.a1())),
        (Some(MRange::Loose { .. }), None) => {}
        (Some(e), Some(a)) => {
            if let Some(x) = compare_ranges("filter", std::slice::from_ref(e), std::slice::from_ref(a)) {
                return Some(x);
            }
        }
    }
    None
}

fn compare_book(book: &Spreadsheet, model: &MBook, first: usize) -> Option<(usize, Discrepancy)> {
    compare_book_with(book, model, first, false)
}

fn compare_book_with(book: &Spreadsheet, model: &MBook, first: usize, reloaded: bool) -> Option<(usize, Discrepancy)> {
    let sheets = book.get_sheet_collection_no_check();
    if sheets.len() != model.sheets.len() {
        return Some((
            0,
            Discrepancy {
                obj: "sheet",
                mode: "count".into(),
                detail: format!("{} sheets, expected {}", sheets.len(), model.sheets.len()),
            },
        ));
    }
    // the edited sheet first, then the others (so that a wrong edit is reported as such
    // and an edit leaking to another sheet gets its own key)
    let mut order: Vec<usize> = vec![first];
    order.extend((0..sheets.len()).filter(|&i| i != first));
    for i in order {
        let d = dump_sheet_with(&sheets[i], reloaded);
        if let Some(x) = compare_sheet(&model.sheets[i], &d) {
            return Some((i, x));
        }
    }
    None
}

// ---------------------------------------------------------------------------------------
// the check

fn op_sheet(op: &COp) -> usize {
    match op {
        COp::Insert { sheet, .. }
        | COp::Remove { sheet, .. }
        | COp::Move { sheet, .. }
        | COp::Copy { sheet, .. }
        | COp::SetValue { sheet, .. }
        | COp::RemoveCell { sheet, .. } => *sheet,
        _ => 0,
    }
}

fn apply_model(model: &mut MBook, op: &COp) -> (bool, Vec<String>) {
    match op {
        COp::Insert { sheet, axis, p, n, .. } => {
            let s = model.sheets[*sheet].insert(*axis, *p, *n);
            (s.nontrivial(), s.labels.into_iter().collect())
        }
        COp::Remove { sheet, axis, p, n, .. } => {
            let s = model.sheets[*sheet].remove(*axis, *p, *n);
            (s.nontrivial(), s.labels.into_iter().collect())
        }
        COp::Move { sheet, rect, dr, dc } => {
            let k = model.sheets[*sheet].move_range(*rect, *dr as i64, *dc as i64);
            let overlap = rect.intersects(&rect.translate(*dr as i64, *dc as i64));
            (k > 0, vec![if overlap { "move:overlapping".into() } else { "move:disjoint".into() }])
        }
        COp::Copy { sheet, rect, dr, dc } => {
            let k = model.sheets[*sheet].copy_range(*rect, *dr as i64, *dc as i64);
            (k > 0, vec![])
        }
        COp::SetValue { sheet, row, col, tag } => {
            model.sheets[*sheet].set_value(*row, *col, *tag);
            (false, vec![])
        }
        COp::RemoveCell { sheet, row, col } => {
            model.sheets[*sheet].remove_cell(*row, *col);
            (false, vec![])
        }
        _ => (false, vec![]),
    }
}

fn near_limit(op: &COp) -> bool {
    match op {
        COp::Insert { axis, p, n, .. } | COp::Remove { axis, p, n, .. } => *p as u64 + *n as u64 + 16 > axis.limit() as u64,
        COp::Move { rect, dr, dc, .. } | COp::Copy { rect, dr, dc, .. } => {
            rect.r2 as i64 + *dr as i64 + 8 > MAX_ROW as i64 || rect.c2 as i64 + *dc as i64 + 8 > MAX_COL as i64
        }
        COp::SetValue { row, col, .. } => *row + 8 > MAX_ROW || *col + 8 > MAX_COL,
        _ => false,
    }
}

fn check(case: &Case, obs: &mut Obs) -> Verdict {
    let mut tags = Tags::default();
    let built = guard(|| build_book(&case.sheets, &mut tags));
    let (mut book, mut model) = match built {
        Ok(x) => x,
        Err(p) => return Verdict::fail(format!("build/panic:{}", p.site()), p.short()),
    };
    if let Some((i, d)) = compare_book(&book, &model, 0) {
        // the builder and the model disagree before any edit: a harness problem
        return Verdict::fail(
            format!("harness/build-mismatch/{}/{}", d.obj, d.mode),
            format!("sheet {}: {}", i, d.detail),
        );
    }
    let nsheets = model.sheets.len();
    if nsheets >= 2 {
        obs.class("multi-sheet");
    }
    if case.partial {
        obs.class("stratum:partial-overlap");
    }
    let mut trace: Vec<String> = Vec::new();
    let mut steered_total = 0u32;
    for (i, aop) in case.ops.iter().enumerate() {
        let sheet = pick_idx(aop.sheet, nsheets);
        let occ = Occ::from_model(&model.sheets[sheet]);
        let mut cx = ResolveCtx {
            occ: &occ,
            sheet,
            allow_partial: case.partial,
            tags: &mut tags,
            steered: 0,
            bulk_limit: 0,
            from_other_variants: false,
        };
        let resolved = resolve(aop, &mut cx);
        steered_total += cx.steered;
        let op = match resolved {
            Resolved::Skip(why) => {
                obs.class(format!("skipped:{}", why));
                continue;
            }
            Resolved::Op(op) => op,
        };
        let mut kind = op.kind_name();
        if let COp::Insert { by_letter: true, call, .. } | COp::Remove { by_letter: true, call, .. } = &op {
            if call.letter_case != 0 {
                // a different input feature class: the letter is not in canonical upper case
                kind = format!("{}[{}-case-letter]", kind, ["upper", "lower", "mixed"][call.letter_case as usize % 3]);
            }
        }
        let level = match &op {
            COp::Insert { book_level, .. } | COp::Remove { book_level, .. } => {
                if *book_level {
                    "book-level"
                } else {
                    "sheet-level"
                }
            }
            _ => "",
        };
        trace.push(format!("#{} {:?}", i, op));
        let ctxt = |trace: &Vec<String>| trace.join("; ");
        // snapshot for the metamorphic check (remove undoes insert), judged after the edit itself
        let pre = if matches!(op, COp::Insert { .. }) { Some((book.clone(), model.clone())) } else { None };
        // the edit itself
        if let Err(pn) = guard(|| apply_lib(&mut book, &op)) {
            let feature = panic_feature(&model.sheets[op_sheet(&op)], &op);
            return Verdict::fail(
                format!("{}/{}/panic:{}", kind, feature, pn.site()),
                format!("{} ; history: {}", pn.short(), ctxt(&trace)),
            );
        }
        let clips = match &op {
            COp::Remove { sheet, axis, p, n, .. } if case.partial => model.sheets[*sheet].partial_clips(*axis, *p, *n),
            _ => Vec::new(),
        };
        let (nt, labels) = apply_model(&mut model, &op);
        obs.nontrivial(nt);
        obs.class(format!("op:{}", kind));
        if !level.is_empty() {
            obs.class(format!("{}:{}", level, kind));
        }
        if let COp::Insert { by_letter: true, call, .. } | COp::Remove { by_letter: true, call, .. } = &op {
            obs.class(format!("column-letter:{}", ["upper", "lower", "mixed"][call.letter_case as usize % 3]));
        }
        for l in labels {
            obs.class(format!("{}:{}", kind, l));
        }
        if near_limit(&op) {
            obs.class("near-grid-limit");
        }
        let target = op_sheet(&op);
        if let Some((si, d)) = compare_book(&book, &model, target) {
            let key = if si != target {
                format!("{}:{}/other-sheet-changed", level, kind)
            } else {
                format!("{}/{}/{}", d.obj, kind, d.mode)
            };
            return Verdict::fail(
                key,
                format!("after op #{} on sheet {}, sheet {} differs from the reference grid: {} ; history: {}", i, target, si, d.detail, ctxt(&trace)),
            );
        }
        // informational (not judged): did a partly overlapped range keep its surviving part?
        if !clips.is_empty() {
            let d = dump_sheet(book.get_sheet(&target).unwrap());
            for (kind, rect) in &clips {
                let found = match *kind {
                    "merge" => d.merges.iter().any(|x| x.as_ref() == Ok(rect)),
                    "cf" => d.cfs.iter().any(|c| c.1.iter().any(|x| x.as_ref() == Ok(rect))),
                    _ => d.filter.as_ref().map(|x| x.as_ref() == Ok(rect)).unwrap_or(false),
                };
                obs.class(format!(
                    "partly-overlapped-{}:{}",
                    kind,
                    if found { "surviving-part-kept" } else { "other-result" }
                ));
            }
        }
        // metamorphic: remove(p,n) after insert(p,n) restores the pre-insert projection
        if let (Some((snapshot, model0)), COp::Insert { sheet, axis, book_level, by_letter, p, n, call }) = (pre, &op) {
            let undo = COp::Remove {
                sheet: *sheet,
                axis: *axis,
                book_level: *book_level,
                by_letter: *by_letter,
                p: *p,
                n: *n,
                call: *call,
            };
            let r = guard(|| {
                let mut c = snapshot;
                apply_lib(&mut c, &op);
                apply_lib(&mut c, &undo);
                c
            });
            match r {
                Err(pn) => {
                    return Verdict::fail(
                        format!("{}+undo/panic:{}", kind, pn.site()),
                        format!("{} ; history: {}", pn.short(), ctxt(&trace)),
                    )
                }
                Ok(c) => {
                    if let Some((si, d)) = compare_book(&c, &model0, *sheet) {
                        let scope = if si != *sheet { "other-sheet" } else { "edited-sheet" };
                        return Verdict::fail(
                            format!("undo/{}/{}/{}/{}", kind, scope, d.obj, d.mode),
                            format!("remove(p,n) after insert(p,n) is not the identity on sheet {}: {} ; history: {}", si, d.detail, ctxt(&trace)),
                        );
                    }
                }
            }
        }
        // move leaves the source rectangle (minus the destination) empty
        if let COp::Move { sheet, rect, dr, dc } = &op {
            let dest = rect.translate(*dr as i64, *dc as i64);
            let ws = book.get_sheet(sheet).unwrap();
            for r in rect.r1..=rect.r2 {
                for c in rect.c1..=rect.c2 {
                    if dest.contains(r, c) {
                        continue;
                    }
                    if let Some(cell) = ws.get_cell((c, r)) {
                        if !cell.get_value().is_empty() {
                            return Verdict::fail(
                                "move/source-not-empty",
                                format!("{}{} still holds {:?} ; history: {}", col_name(c), r, cell.get_value(), ctxt(&trace)),
                            );
                        }
                    }
                }
            }
        }
    }
    if steered_total > 0 {
        obs.class("steered-away-from-partial-overlap");
    }
    Verdict::Pass
}

/// Names the input feature a panic is most plausibly tied to (from the model, before the
/// edit): keeps panic keys narrow.
fn panic_feature(m: &MSheet, op: &COp) -> &'static str {
    if let COp::Remove { axis, p, n, .. } = op {
        if m.partial_overlaps(*axis, *p, *n) > 0 {
            return "range-partly-in-band";
        }
        if !m.comments.is_empty() {
            return "sheet-with-comments";
        }
    }
    "plain"
}
