//! C02 — written files are valid packages that an independent reader decodes to the model.
//!
//! Every file the writer produces is (1) validated by the rules of `pytools/ooxml_decode.py`
//! (zip, well-formedness, content types, relationships, uniqueness, worksheet child order,
//! row/cell order and range, every index inside its table) and (2) decoded by the same
//! stand-alone Python reader; the decoded view must equal the model of the workbook.
//!
//! Legs:
//!  * generated (proptest, one `Case` type, several strata): a composite workbook spec made
//!    of the existing spec families — cells+formulas (`gen::wb`), styles on cells / rows /
//!    columns (`gen::style`), annotations (`gen::annot`: sheet states, sheets removed before
//!    saving, merges, defined names, external+internal hyperlinks, comments, validations,
//!    conditional formats with dxf, auto filter, views, page setup, protection) plus what
//!    only C02 needs: tables, sheets renamed before saving, a macro payload.
//!  * corpus (hand-written loop): every readable file of tests/test_files loaded eagerly and
//!    re-saved with the standard and the light writer.
//!
//! Projection compared (nothing else): sheet list (name, state, order); per sheet the set of
//! non-blank cells with kind, value (text char for char, numbers by IEEE bits), formula text,
//! rich-text run texts; hyperlinks (cell -> external target | location); merged ranges;
//! defined names (name, scope, text through a reference-address parser); comments (cell ->
//! author, text); tables (name -> range, column names); presence and bytes of the macro part.
use super::Prop;
use crate::engine::*;
use crate::gen::annot::{self, col_name, AnnotSheet, AnnotWb, Feat, PageSpec, RectSpec};
use crate::gen::style::{self, StyleSpec};
use crate::gen::text::*;
use crate::gen::wb::*;
use crate::props::c01::{load, save, text_class};
use crate::props::c06::canon_name_text;
use crate::pyworker::{self, Decoded, RuleViolation};
use proptest::prelude::*;
use rayon::prelude::*;
use serde::{Deserialize, Serialize};
use serde_json::{json, Value};
use std::collections::{BTreeMap, BTreeSet, HashSet};
use std::sync::OnceLock;
use umya_spreadsheet::{CellRawValue, Spreadsheet, Table, TableColumn, TableStyleInfo};

pub fn prop() -> Prop {
    Prop {
        id: "C02",
        describe,
        subs,
        extra,
        replay_extra,
        watchdog_s: (3600, 28800),
    }
}

fn describe(ctx: &Ctx) {
    ctx.rule("generated: composite workbook specs (1..6 sheets with states, some removed or renamed before saving; cells of all kinds with formulas at boundary/random positions; styles on cells/rows/columns; merges, defined names (workbook and sheet scope), external+internal hyperlinks, comments, data validations, conditional formats with dxf, auto filter, views, page setup incl. printer settings, sheet/workbook protection, tables, macro payload on/off; standard and light writer) in strata cells / annot / rels (external links + comments + tables + printer settings on several sheets) / combined / dirty; corpus: every readable file of tests/test_files loaded eagerly and re-saved (standard + light). Oracle 1: the Python validator reports no rule violation and the count attributes of sharedStrings/styles agree with their tables. Oracle 2: the Python decode of the written bytes equals the model (sheet list, cells kind/value/formula, hyperlinks, merged ranges, defined names, comments, tables, macro part). Non-trivial = the saved package has >= 2 sheets, or >= 1 relationship-bearing object (external hyperlink, comment, table, printer settings, macro part), or a non-default style; distinct by full case (corpus: file x writer)");
    ctx.assume("model of a generated workbook = its spec; the spec is first compared with what the public getters show before saving (a mismatch is a generator problem: Discard). Defined names are taken from the getters (name, owner sheet, get_address) because a sheet renamed before saving leaves their text as it was");
    ctx.assume("model of a corpus file = the workbook as the library loaded it (public getters); what the reader itself loses or alters against the independent decode of the ORIGINAL file is C03's subject and is only counted here (class corpus/reader-differs-from-original)");
    ctx.assume("a text cell holding the empty string and a blank cell are not distinguished; -0 and 0 are not distinguished; blank cells (no value, no formula) are not compared");
    ctx.assume("an ECMA-376 reader decodes _xHHHH_ in string items (ST_Xstring) and may strip edge blanks of a <t>/<v> that has no xml:space=\"preserve\"; both are modelled by the decoder (value decoded; ws_ambiguous flag = finding when the model text has edge blanks)");
    ctx.assume("sheet names that differ only in case, illegal sheet names, duplicate table names / column names and defined names that are not identifiers are not generated (the API accepts them, a spreadsheet application does not: precondition of a 'workbook')");
    ctx.assume("comments and tables are compared although the statement's second sentence does not list them: they are the relationship-bearing objects whose numbering the first sentence is about");
}

// ---------------------------------------------------------------------------------------
// case

#[derive(Debug, Clone, Serialize, Deserialize, PartialEq)]
pub struct TableSpec {
    pub name: String,
    pub rect: RectSpec,
    /// one per column of `rect`
    pub columns: Vec<String>,
    pub style_info: bool,
    /// write the column names into the header row as text cells
    pub header_cells: bool,
}

#[derive(Debug, Clone, Serialize, Deserialize, PartialEq)]
pub enum StyleTarget {
    Cell(u32, u32),
    Row(u32),
    Col(u32),
}

/// What C02 adds to one sheet of the annotation spec (same index as `annot.sheets`).
#[derive(Debug, Clone, Serialize, Deserialize, PartialEq, Default)]
pub struct SheetExtra {
    pub cells: Vec<CellSpec>,
    /// (target, raw style index mapped monotonically onto `Case::styles`)
    pub styled: Vec<(StyleTarget, u16)>,
    pub tables: Vec<TableSpec>,
    /// `Spreadsheet::set_sheet_name` just before saving
    pub rename: Option<String>,
    /// an image (`Image::new_image_with_dimensions` + `Worksheet::add_image`): drawing part,
    /// drawing relationship, media part, png Default
    #[serde(default)]
    pub image: bool,
    /// a line chart (`Chart::new_chart` + `Worksheet::add_chart`): drawing + chart parts
    #[serde(default)]
    pub chart: bool,
}

/// Sheet-list history applied after the sheets are built and renamed, before saving.
/// Positions are raw values mapped monotonically onto the list as it is at that moment.
#[derive(Debug, Clone, Serialize, Deserialize, PartialEq)]
pub enum SheetOp {
    /// the "copy sheet" idiom: `get_sheet(p).clone()`, `set_name`, `add_sheet` (appended);
    /// the copy keeps the sheet-scoped names (their stored localSheetId is the source's),
    /// its tables get fresh names, workbook-scope names kept in the sheet's list are dropped
    /// from the copy (they would be duplicates)
    Copy { src: u16, name: String },
    /// a new empty sheet put at position `at` through `get_sheet_collection_mut()`
    InsertNew { at: u16, name: String },
    /// `get_sheet_collection_mut()`: remove at `from`, insert at `to`
    Move { from: u16, to: u16 },
}

/// One sheet of the workbook as it is saved.
#[derive(Debug, Clone, PartialEq)]
pub struct Slot {
    /// index into `annot.sheets` of the sheet this one is (a copy of); None = inserted empty
    pub src: Option<usize>,
    pub name: String,
    /// the sheet was made by a Copy op
    pub is_copy: bool,
    /// what the copies have appended to the table names (`_c<n>` per copy generation)
    pub table_suffix: String,
}

#[derive(Debug, Clone, Serialize, Deserialize)]
pub struct Case {
    pub annot: AnnotWb,
    pub extra: Vec<SheetExtra>,
    pub styles: Vec<StyleSpec>,
    pub macros: Option<Vec<u8>>,
    pub light: bool,
    /// labels of what the generator removed from this case to steer around open known
    /// findings (evidence only: the check does not depend on it)
    #[serde(default)]
    pub steered: Vec<String>,
    #[serde(default)]
    pub history: Vec<SheetOp>,
    /// document properties (title, creator, description, keywords, company, manager): they
    /// end up in docProps/core.xml and docProps/app.xml, which must be well-formed too
    #[serde(default)]
    pub doc_props: Vec<String>,
}

impl Case {
    /// The sheet list at save time: kept sheets (renamed), then the history.
    pub fn layout(&self) -> Vec<Slot> {
        let mut l: Vec<Slot> = self.annot.kept().into_iter().map(|i| Slot { src: Some(i), name: self.final_name(i), is_copy: false, table_suffix: String::new() }).collect();
        let mut copies = 0;
        for op in &self.history {
            match op {
                SheetOp::Copy { src, name } => {
                    let p = pick_idx(*src, l.len());
                    copies += 1;
                    let sl = Slot { src: l[p].src, name: name.clone(), is_copy: true, table_suffix: format!("{}_c{}", l[p].table_suffix, copies) };
                    l.push(sl);
                }
                SheetOp::InsertNew { at, name } => {
                    let p = pick_idx(*at, l.len() + 1);
                    l.insert(p, Slot { src: None, name: name.clone(), is_copy: false, table_suffix: String::new() });
                }
                SheetOp::Move { from, to } => {
                    let f = pick_idx(*from, l.len());
                    let sl = l.remove(f);
                    let t = pick_idx(*to, l.len() + 1);
                    l.insert(t, sl);
                }
            }
        }
        l
    }
    fn extra_of(&self, i: usize) -> SheetExtra {
        self.extra.get(i).cloned().unwrap_or_default()
    }
    /// name of kept sheet `i` (index into annot.sheets) when the workbook is saved
    fn final_name(&self, i: usize) -> String {
        match self.extra.get(i).and_then(|e| e.rename.clone()) {
            Some(n) => n,
            None => self.annot.sheets[i].name.clone(),
        }
    }
}

// ---------------------------------------------------------------------------------------
// builder (public API only)

pub fn build(case: &Case) -> Spreadsheet {
    let mut book = annot::build(&case.annot);
    let styles: Vec<umya_spreadsheet::Style> = case.styles.iter().map(style::apply).collect();
    let kept = case.annot.kept();
    for (k, &i) in kept.iter().enumerate() {
        let ex = case.extra_of(i);
        let ws = book.get_sheet_mut(&k).unwrap();
        for t in &ex.tables {
            if t.header_cells {
                for (j, name) in t.columns.iter().enumerate() {
                    ws.get_cell_mut((t.rect.c1 + j as u32, t.rect.r1)).set_value_string(name.clone());
                }
            }
        }
        for c in &ex.cells {
            let cell = ws.get_cell_mut((c.col, c.row));
            apply_value(cell, &c.value);
            if let Some(f) = &c.formula {
                cell.set_formula(f.clone());
            }
        }
        if !styles.is_empty() {
            for (target, raw) in &ex.styled {
                let st = styles[pick_idx(*raw, styles.len())].clone();
                match target {
                    StyleTarget::Cell(c, r) => {
                        ws.get_cell_mut((*c, *r)).set_style(st);
                    }
                    StyleTarget::Row(r) => {
                        ws.get_row_dimension_mut(r).set_style(st);
                    }
                    StyleTarget::Col(c) => {
                        ws.get_column_dimension_by_number_mut(c).set_style(st);
                    }
                }
            }
        }
        for t in &ex.tables {
            let mut table = Table::new(&t.name, ((t.rect.c1, t.rect.r1), (t.rect.c2, t.rect.r2)));
            for c in &t.columns {
                table.add_column(TableColumn::new(c));
            }
            if t.style_info {
                table.set_style_info(Some(TableStyleInfo::new("TableStyleMedium2", false, false, true, false)));
            }
            ws.add_table(table);
        }
    }
    for (k, &i) in kept.iter().enumerate() {
        if let Some(n) = case.extra.get(i).and_then(|e| e.rename.clone()) {
            book.set_sheet_name(k, n).expect("generator produces distinct names");
        }
    }
    // sheet-list history
    let mut copies = 0;
    for op in &case.history {
        let n = book.get_sheet_count();
        match op {
            SheetOp::Copy { src, name } => {
                let p = pick_idx(*src, n);
                copies += 1;
                let mut c = book.get_sheet(&p).unwrap().clone();
                c.set_name(name.clone());
                c.get_defined_names_mut().retain(|d| d.has_local_sheet_id());
                for t in c.get_tables_mut().iter_mut() {
                    let nn = format!("{}_c{}", t.get_name(), copies);
                    t.set_name(&nn);
                    t.set_display_name(&nn);
                }
                book.add_sheet(c).expect("generator produces distinct names");
            }
            SheetOp::InsertNew { at, name } => {
                let p = pick_idx(*at, n + 1);
                book.new_sheet(name.clone()).expect("generator produces distinct names");
                let coll = book.get_sheet_collection_mut();
                let ws = coll.pop().unwrap();
                coll.insert(p, ws);
            }
            SheetOp::Move { from, to } => {
                let f = pick_idx(*from, n);
                let coll = book.get_sheet_collection_mut();
                let ws = coll.remove(f);
                let t = pick_idx(*to, coll.len() + 1);
                coll.insert(t, ws);
            }
        }
    }
    // drawings: on the sheets as they are now (copies made above do not have them)
    let layout = case.layout();
    for (k, sl) in layout.iter().enumerate() {
        let (Some(i), false) = (sl.src, sl.is_copy) else { continue };
        let ex = case.extra_of(i);
        if ex.image {
            let mut marker = umya_spreadsheet::structs::drawing::spreadsheet::MarkerType::default();
            marker.set_coordinate("M3");
            let mut image = umya_spreadsheet::structs::Image::default();
            image.new_image_with_dimensions(1, 1, "c02.png", TINY_PNG.to_vec(), marker);
            book.get_sheet_mut(&k).unwrap().add_image(image);
        }
        if ex.chart {
            let mut from = umya_spreadsheet::structs::drawing::spreadsheet::MarkerType::default();
            let mut to = umya_spreadsheet::structs::drawing::spreadsheet::MarkerType::default();
            from.set_coordinate("M6");
            to.set_coordinate("R16");
            let q = annot::quote_sheet(&sl.name);
            let a = format!("{}!$A$1:$A$4", q);
            let b = format!("{}!$B$1:$B$4", q);
            let mut chart = umya_spreadsheet::structs::Chart::default();
            chart.new_chart(umya_spreadsheet::structs::ChartType::LineChart, from, to, vec![a.as_str(), b.as_str()]);
            book.get_sheet_mut(&k).unwrap().add_chart(chart);
        }
    }
    if let Some(m) = &case.macros {
        book.set_macros_code(m.clone());
    }
    if !case.doc_props.is_empty() {
        let pr = book.get_properties_mut();
        for (k, v) in case.doc_props.iter().enumerate() {
            match k {
                0 => pr.set_title(v.clone()),
                1 => pr.set_creator(v.clone()),
                2 => pr.set_description(v.clone()),
                3 => pr.set_keywords(v.clone()),
                4 => pr.set_company(v.clone()),
                _ => pr.set_manager(v.clone()),
            };
        }
    }
    book
}

/// a 1x1 PNG
const TINY_PNG: [u8; 67] = [
    0x89, 0x50, 0x4E, 0x47, 0x0D, 0x0A, 0x1A, 0x0A, 0x00, 0x00, 0x00, 0x0D, 0x49, 0x48, 0x44, 0x52, 0x00, 0x00, 0x00, 0x01, 0x00, 0x00, 0x00, 0x01, 0x08, 0x06, 0x00, 0x00, 0x00, 0x1F, 0x15, 0xC4, 0x89, 0x00, 0x00, 0x00,
    0x0A, 0x49, 0x44, 0x41, 0x54, 0x78, 0x9C, 0x63, 0x00, 0x01, 0x00, 0x00, 0x05, 0x00, 0x01, 0x0D, 0x0A, 0x2D, 0xB4, 0x00, 0x00, 0x00, 0x00, 0x49, 0x45, 0x4E, 0x44, 0xAE, 0x42, 0x60, 0x82,
];

// ---------------------------------------------------------------------------------------
// model

#[derive(Debug, Clone, PartialEq, Default)]
pub struct MCell {
    /// text | rich | number | bool | error | blank (blank only with a formula)
    pub kind: String,
    /// text kinds: the text; bool: TRUE/FALSE; error: the literal; number: empty
    pub value: String,
    pub bits: Option<u64>,
    pub formula: String,
    pub runs: Vec<String>,
    /// decoded side only: edge blanks not protected by xml:space
    pub ambiguous: bool,
    /// decoded side only: shared-formula expansion left the grid (do not compare the formula)
    pub f_uncertain: bool,
    /// decoded side only: the formula text was derived from a shared-formula master
    pub shared_child: bool,
}

#[derive(Debug, Clone, PartialEq, Default)]
pub struct MLink {
    pub external: bool,
    pub target: String,
}

#[derive(Debug, Clone, PartialEq, Default)]
pub struct MSheet {
    pub name: String,
    pub state: String,
    /// false for chartsheets & co (nothing below is compared then)
    pub worksheet: bool,
    pub cells: BTreeMap<(u32, u32), MCell>,
    pub links: BTreeMap<String, MLink>,
    pub merges: BTreeSet<String>,
    pub comments: BTreeMap<String, (String, String)>,
    pub tables: BTreeMap<String, (String, Vec<String>)>,
}

#[derive(Debug, Clone, PartialEq, Eq, PartialOrd, Ord)]
pub struct MName {
    pub name: String,
    pub scope: Option<u32>,
    pub text: String,
}

#[derive(Debug, Clone, PartialEq, Default)]
pub struct Model {
    pub sheets: Vec<MSheet>,
    pub names: Vec<MName>,
}

fn a1(col: u32, row: u32) -> String {
    format!("{}{}", col_name(col), row)
}

/// `A1:B2` / `A1` / `$A$1:$B$2` -> upper-case, no `$`, single cells as `A1:A1`
fn canon_range(s: &str) -> String {
    let t: String = s.chars().filter(|c| *c != '$').collect::<String>().to_uppercase();
    match t.split_once(':') {
        Some((a, b)) => format!("{}:{}", a, b),
        None => format!("{}:{}", t, t),
    }
}

fn cell_is_void(c: &MCell) -> bool {
    c.formula.is_empty() && (c.kind == "blank" || ((c.kind == "text" || c.kind == "rich") && c.value.is_empty()))
}

fn mcell_of_spec(c: &CellSpec) -> MCell {
    let mut m = MCell {
        kind: c.value.kind().to_string(),
        formula: c.formula.clone().unwrap_or_default(),
        ..MCell::default()
    };
    match &c.value {
        ValueSpec::Blank => {}
        ValueSpec::Text(s) => m.value = s.clone(),
        ValueSpec::Rich(runs) => {
            m.value = runs.iter().map(|r| r.text.as_str()).collect();
            m.runs = runs.iter().map(|r| r.text.clone()).collect();
        }
        ValueSpec::Number(n) => m.bits = Some(n.0.to_bits()),
        ValueSpec::Bool(b) => m.value = if *b { "TRUE" } else { "FALSE" }.to_string(),
        ValueSpec::Error(i) => m.value = ERRORS[*i as usize % ERRORS.len()].to_string(),
    }
    m
}

fn msheet_of_spec(case: &Case, i: usize) -> MSheet {
    let s = &case.annot.sheets[i];
    let ex = case.extra_of(i);
    let mut ms = MSheet {
        name: case.final_name(i),
        state: match s.state {
            2 => "hidden",
            3 => "veryHidden",
            _ => "visible",
        }
        .to_string(),
        worksheet: true,
        ..MSheet::default()
    };
    let text_cell = |v: String| MCell { kind: "text".into(), value: v, ..MCell::default() };
    // gen::annot's own table (named after the sheet id the sheet got when it was created)
    if let Some(t) = &s.table {
        let cols: Vec<String> = (t.c1..=t.c2).map(|c| format!("Col{}", c)).collect();
        for (j, name) in cols.iter().enumerate() {
            ms.cells.insert((t.r1, t.c1 + j as u32), text_cell(name.clone()));
        }
        ms.tables.insert(format!("Table_{}", i + 1), (canon_range(&t.a1_range()), cols));
    }
    for t in &ex.tables {
        if t.header_cells {
            for (j, name) in t.columns.iter().enumerate() {
                ms.cells.insert((t.rect.r1, t.rect.c1 + j as u32), text_cell(name.clone()));
            }
        }
        ms.tables.insert(t.name.clone(), (canon_range(&t.rect.a1_range()), t.columns.clone()));
    }
    for c in &ex.cells {
        ms.cells.insert((c.row, c.col), mcell_of_spec(c));
    }
    ms.cells.retain(|_, c| !cell_is_void(c));
    for l in &s.links {
        ms.links.insert(
            a1(l.col, l.row),
            MLink {
                external: !l.internal,
                target: l.target.clone(),
            },
        );
    }
    for r in &s.merges {
        ms.merges.insert(canon_range(&r.a1_range()));
    }
    for c in &s.comments {
        ms.comments.insert(a1(c.col, c.row), (c.author.clone(), c.runs.concat()));
    }
    ms
}

pub fn model_of_spec(case: &Case, book: &Spreadsheet) -> Model {
    let mut m = Model::default();
    for sl in case.layout() {
        let mut ms = match sl.src {
            Some(i) => msheet_of_spec(case, i),
            None => MSheet { state: "visible".into(), worksheet: true, ..MSheet::default() },
        };
        ms.name = sl.name.clone();
        if !sl.table_suffix.is_empty() {
            ms.tables = ms.tables.into_iter().map(|(k, v)| (format!("{}{}", k, sl.table_suffix), v)).collect();
        }
        m.sheets.push(ms);
    }
    m.names = names_of_book(book);
    m
}

fn names_of_book(book: &Spreadsheet) -> Vec<MName> {
    let mut v = Vec::new();
    for d in book.get_defined_names() {
        v.push(MName {
            name: d.get_name().to_string(),
            scope: if d.has_local_sheet_id() { Some(*d.get_local_sheet_id()) } else { None },
            text: canon_name_text(&d.get_address()),
        });
    }
    for (i, ws) in book.get_sheet_collection_no_check().iter().enumerate() {
        for d in ws.get_defined_names() {
            v.push(MName {
                name: d.get_name().to_string(),
                // a sheet-scoped name belongs to the sheet that holds it
                scope: if d.has_local_sheet_id() { Some(i as u32) } else { None },
                text: canon_name_text(&d.get_address()),
            });
        }
    }
    v.sort();
    v
}

pub fn model_of_book(book: &Spreadsheet) -> Model {
    let mut m = Model::default();
    for ws in book.get_sheet_collection_no_check() {
        let mut ms = MSheet {
            name: ws.get_name().to_string(),
            state: annot::state_name(ws.get_state()).to_string(),
            worksheet: true,
            ..MSheet::default()
        };
        for c in ws.get_cell_collection() {
            let co = c.get_coordinate();
            let (col, row) = (*co.get_col_num(), *co.get_row_num());
            let raw = c.get_raw_value();
            let mut mc = MCell {
                formula: c.get_formula().to_string(),
                ..MCell::default()
            };
            match raw {
                CellRawValue::String(_) | CellRawValue::Lazy(_) => {
                    mc.kind = "text".into();
                    mc.value = c.get_value().to_string();
                }
                CellRawValue::RichText(rt) => {
                    mc.kind = "rich".into();
                    mc.value = c.get_value().to_string();
                    mc.runs = rt.get_rich_text_elements().iter().map(|e| e.get_text().to_string()).collect();
                }
                CellRawValue::Numeric(n) => {
                    mc.kind = "number".into();
                    mc.bits = Some(n.to_bits());
                }
                CellRawValue::Bool(_) => {
                    mc.kind = "bool".into();
                    mc.value = c.get_value().to_string();
                }
                CellRawValue::Error(_) => {
                    mc.kind = "error".into();
                    mc.value = c.get_value().to_string();
                }
                CellRawValue::Empty => mc.kind = "blank".into(),
            }
            if !cell_is_void(&mc) {
                ms.cells.insert((row, col), mc);
            }
            if let Some(h) = c.get_hyperlink() {
                ms.links.insert(
                    a1(col, row),
                    MLink {
                        external: !*h.get_location(),
                        target: h.get_url().to_string(),
                    },
                );
            }
        }
        for r in ws.get_merge_cells() {
            ms.merges.insert(canon_range(&r.get_range()));
        }
        for c in ws.get_comments() {
            let co = c.get_coordinate();
            let text: String = c.get_text().get_rich_text_elements().iter().map(|e| e.get_text().to_string()).collect();
            let text = if text.is_empty() { c.get_text().get_text().to_string() } else { text };
            ms.comments.insert(a1(*co.get_col_num(), *co.get_row_num()), (c.get_author().to_string(), text));
        }
        for t in ws.get_tables() {
            let (a, b) = t.get_area();
            let range = format!("{}:{}", a1(*a.get_col_num(), *a.get_row_num()), a1(*b.get_col_num(), *b.get_row_num()));
            ms.tables.insert(t.get_name().to_string(), (range, t.get_columns().iter().map(|c| c.get_name().to_string()).collect()));
        }
        m.sheets.push(ms);
    }
    m.names = names_of_book(book);
    m
}

pub fn model_of_decoded(d: &Decoded) -> Model {
    let mut m = Model::default();
    for s in &d.sheets {
        let mut ms = MSheet {
            name: s.name.clone().unwrap_or_default(),
            state: if s.state.is_empty() { "visible".to_string() } else { s.state.clone() },
            worksheet: s.kind == "worksheet",
            ..MSheet::default()
        };
        for c in &s.cells {
            let mut mc = MCell {
                kind: c.kind.clone(),
                formula: c.formula.clone().unwrap_or_default(),
                // <v> is a simple-type element: the schema gives a writer no xml:space to put
                // there, so edge blanks of a cached formula result are not "unprotected"
                ambiguous: c.ws_ambiguous && c.t.as_deref() != Some("str"),
                f_uncertain: c.f_uncertain,
                shared_child: c.f_type.as_deref() == Some("shared") && !c.f_master,
                ..MCell::default()
            };
            match c.kind.as_str() {
                "number" => mc.bits = c.bits.as_ref().and_then(|b| u64::from_str_radix(b, 16).ok()),
                "rich" => {
                    mc.value = c.value.clone();
                    mc.runs = c.runs.as_ref().map(|r| r.iter().map(|x| x.text.clone()).collect()).unwrap_or_default();
                }
                _ => mc.value = c.value.clone(),
            }
            if !cell_is_void(&mc) {
                ms.cells.insert((c.row, c.col), mc);
            }
        }
        for h in &s.hyperlinks {
            let Some(r) = &h.r else { continue };
            let key = r.replace('$', "").to_uppercase();
            match (&h.rid, &h.location) {
                (Some(_), _) => {
                    ms.links.insert(
                        key,
                        MLink {
                            external: true,
                            target: h.target.clone().unwrap_or_else(|| "<unresolved r:id>".to_string()),
                        },
                    );
                }
                (None, Some(l)) => {
                    ms.links.insert(
                        key,
                        MLink {
                            external: false,
                            target: l.clone(),
                        },
                    );
                }
                (None, None) => {
                    ms.links.insert(key, MLink { external: false, target: String::new() });
                }
            }
        }
        for r in s.merged.iter().flatten() {
            ms.merges.insert(canon_range(r));
        }
        for c in &s.comments {
            let Some(r) = &c.r else { continue };
            ms.comments.insert(r.to_uppercase(), (c.author.clone().unwrap_or_else(|| "<no author>".to_string()), c.text.clone()));
        }
        for t in &s.tables {
            ms.tables.insert(
                t.name.clone().unwrap_or_default(),
                // tableColumn/@name is an ST_Xstring: an ECMA-376 reader sees the decoded form
                (canon_range(t.r.as_deref().unwrap_or("")), t.columns_decoded.clone()),
            );
        }
        m.sheets.push(ms);
    }
    for n in &d.defined_names {
        m.names.push(MName {
            name: n.name.clone().unwrap_or_default(),
            scope: n.local_sheet_id,
            text: canon_name_text(&n.text),
        });
    }
    m.names.sort();
    m
}

// ---------------------------------------------------------------------------------------
// discrepancies

#[derive(Debug, Clone, PartialEq)]
pub struct Disc {
    pub key: String,
    pub detail: String,
}

fn disc(out: &mut Vec<Disc>, key: impl Into<String>, detail: impl Into<String>) {
    out.push(Disc { key: key.into(), detail: detail.into() });
}

/// Input feature class of a model cell (first half of the finding key).
pub fn cell_feature(c: &MCell) -> String {
    let base = match c.kind.as_str() {
        "text" => format!("text:{}", text_class(&c.value)),
        "rich" => format!("rich:{}", text_class(&c.value)),
        k => k.to_string(),
    };
    if c.formula.is_empty() {
        base
    } else {
        format!("formula+{}", base)
    }
}

fn xstring_decode(s: &str) -> String {
    crate::gen::xlsxgen::xstring_decode(s)
}

fn is_edge_blank(c: char) -> bool {
    matches!(c, ' ' | '\t' | '\r' | '\n')
}

fn has_xml_edge_blank(s: &str) -> bool {
    s.starts_with(is_edge_blank) || s.ends_with(is_edge_blank)
}

fn diff_cell(at: &str, e: &MCell, g: &MCell, out: &mut Vec<Disc>) {
    let f = cell_feature(e);
    let e_text = e.kind == "text" || e.kind == "rich";
    let g_text = g.kind == "text" || g.kind == "rich";
    // an empty text and a blank are one thing
    let ek = if e_text && e.value.is_empty() { "blank" } else { e.kind.as_str() };
    let gk = if g_text && g.value.is_empty() { "blank" } else { g.kind.as_str() };
    if ek != gk {
        disc(out, format!("{}/kind:{}->{}", f, ek, gk), format!("{}: model {} {:?}, decoded {} {:?}", at, ek, truncate(&e.value, 80), gk, truncate(&g.value, 80)));
    } else {
        match ek {
            "text" | "rich" => {
                if e.value != g.value {
                    if e.value.contains("_x") && xstring_decode(&e.value) == g.value {
                        // a feature class of its own, whatever else the text contains
                        let fx = format!("{}{}:escape-lookalike", if e.formula.is_empty() { "" } else { "formula+" }, ek);
                        disc(out, format!("{}/xstring-lookalike-decoded", fx), format!("{}: model text {:?} is written literally; an ECMA-376 reader decodes _xHHHH_ and sees {:?}", at, truncate(&e.value, 120), truncate(&g.value, 120)));
                        return;
                    }
                    let mode = if g.value == e.value.replace("\r\n", "\n").replace('\r', "\n") {
                        "cr-becomes-lf"
                    } else if g.value == e.value.trim_matches(is_edge_blank) {
                        "value-trimmed"
                    } else {
                        "value"
                    };
                    disc(out, format!("{}/{}", f, mode), format!("{}: model text {:?}, an ECMA-376 reader sees {:?}", at, truncate(&e.value, 120), truncate(&g.value, 120)));
                } else if g.ambiguous && has_xml_edge_blank(&e.value) {
                    disc(out, format!("{}/edge-blank-without-xml-space", f), format!("{}: text {:?} is written without xml:space=\"preserve\"; readers may strip its edge blanks", at, truncate(&e.value, 120)));
                } else if ek == "rich" && e.runs != g.runs {
                    if g.ambiguous && e.runs.iter().any(|r| has_xml_edge_blank(r)) {
                        disc(out, format!("{}/edge-blank-without-xml-space", f), format!("{}: runs {:?}: a run with edge blanks is written without xml:space=\"preserve\"", at, e.runs));
                    } else {
                        disc(out, format!("{}/runs", f), format!("{}: runs {:?}, decoded {:?}", at, e.runs, g.runs));
                    }
                } else if ek == "rich" && g.ambiguous && e.runs.iter().any(|r| has_xml_edge_blank(r)) {
                    disc(out, format!("{}/edge-blank-without-xml-space", f), format!("{}: runs {:?}: a run with edge blanks is written without xml:space=\"preserve\"", at, e.runs));
                }
            }
            "number" => {
                let (a, b) = (e.bits.map(f64::from_bits), g.bits.map(f64::from_bits));
                let same = match (a, b) {
                    (Some(a), Some(b)) => a.to_bits() == b.to_bits() || (a == 0.0 && b == 0.0),
                    _ => false,
                };
                if !same {
                    disc(out, format!("{}/number-bits", f), format!("{}: model {:?}, decoded {:?}", at, a, b));
                }
            }
            "bool" | "error" => {
                if e.value != g.value {
                    disc(out, format!("{}/value", f), format!("{}: model {} {:?}, decoded {:?}", at, ek, e.value, g.value));
                }
            }
            _ => {}
        }
    }
    if !g.f_uncertain {
        let ef = e.formula.trim_matches(is_edge_blank);
        let gf = g.formula.trim_matches(is_edge_blank);
        // a shared-formula child has no text of its own in the file: the library derives it
        // from the master with its tokenizer (decorative blanks are not kept), the decoder by
        // moving the references inside the master's text; the blanks carry no meaning
        let same = ef == gf || (g.shared_child && strip_formula_blanks(ef) == strip_formula_blanks(gf));
        if !same {
            let mode = if gf.is_empty() {
                "formula-missing"
            } else if ef.is_empty() {
                "formula-phantom"
            } else {
                "formula-text"
            };
            if ef.contains('\r') && gf == ef.replace("\r\n", "\n").replace('\r', "\n") {
                disc(out, "formula:cr/cr-becomes-lf", format!("{}: model formula {:?}, an XML reader sees {:?}", at, truncate(ef, 120), truncate(gf, 120)));
            } else {
                disc(out, format!("{}/{}", f, mode), format!("{}: model formula {:?}, decoded {:?}", at, truncate(ef, 120), truncate(gf, 120)));
            }
        }
    }
}

/// Blanks outside string literals and quoted sheet names removed.
fn strip_formula_blanks(f: &str) -> String {
    let mut out = String::new();
    let mut q: Option<char> = None;
    for c in f.chars() {
        match q {
            Some(x) => {
                out.push(c);
                if c == x {
                    q = None;
                }
            }
            None => {
                if c == '"' || c == '\'' {
                    q = Some(c);
                    out.push(c);
                } else if c != ' ' {
                    out.push(c);
                }
            }
        }
    }
    out
}

fn special_class(s: &str) -> &'static str {
    if s.chars().any(|c| matches!(c, '\n' | '\r' | '\t')) {
        ":linebreak"
    } else if s.chars().any(|c| (c as u32) < 0x20) {
        ":c0-control"
    } else if needs_xml_escape(s) {
        ":xml-special"
    } else if s.contains("_x") {
        ":escape-lookalike"
    } else if has_xml_edge_blank(s) {
        ":edge-blank"
    } else {
        ""
    }
}

/// `exp` = the model, `got` = the independent decode of the written bytes.
pub fn diff(exp: &Model, got: &Model) -> Vec<Disc> {
    let mut out = Vec::new();
    if exp.sheets.len() != got.sheets.len() {
        disc(&mut out, "sheets/count", format!("model has {} sheets {:?}, the file has {} {:?}", exp.sheets.len(), exp.sheets.iter().map(|s| &s.name).collect::<Vec<_>>(), got.sheets.len(), got.sheets.iter().map(|s| &s.name).collect::<Vec<_>>()));
        return out;
    }
    for (i, (e, g)) in exp.sheets.iter().zip(got.sheets.iter()).enumerate() {
        if e.name != g.name {
            let key = if got.sheets.iter().any(|x| x.name == e.name) { "sheets/order".to_string() } else { format!("sheets/name{}", special_class(&e.name)) };
            disc(&mut out, key, format!("sheet {}: model name {:?}, the file says {:?}", i, e.name, g.name));
        }
        if e.state != g.state {
            disc(&mut out, format!("sheets/state:{}-becomes-{}", e.state, g.state), format!("sheet {} {:?}", i, e.name));
        }
        if !g.worksheet || !e.worksheet {
            continue;
        }
        let mut per_key: BTreeMap<String, usize> = BTreeMap::new();
        let mut local = Vec::new();
        for (pos, ec) in &e.cells {
            let at = format!("{:?}!{}", e.name, a1(pos.1, pos.0));
            match g.cells.get(pos) {
                None => disc(&mut local, format!("{}/missing", cell_feature(ec)), format!("{}: {:?} is not in the file", at, ec)),
                Some(gc) => diff_cell(&at, ec, gc, &mut local),
            }
        }
        for (pos, gc) in &g.cells {
            if !e.cells.contains_key(pos) {
                disc(&mut local, "cell/phantom", format!("{:?}!{}: the file has {:?}, the model has no such cell", e.name, a1(pos.1, pos.0), gc));
            }
        }
        // hyperlinks
        for (r, el) in &e.links {
            let at = format!("{:?}!{}", e.name, r);
            let cls = special_class(&el.target);
            match g.links.get(r) {
                None => disc(&mut local, format!("hyperlink{}/missing", cls), format!("{}: {:?} is not in the file", at, el)),
                Some(gl) => {
                    if el.external != gl.external {
                        disc(&mut local, "hyperlink/kind", format!("{}: model {:?}, decoded {:?}", at, el, gl));
                    } else if el.target != gl.target {
                        let sibling = e.links.iter().any(|(r2, l2)| r2 != r && l2.target == gl.target && l2.external == gl.external);
                        let mode = if sibling { "target-swapped".to_string() } else { format!("{}-differs", if el.external { "target" } else { "location" }) };
                        disc(&mut local, format!("hyperlink{}/{}", cls, mode), format!("{}: model {:?}, decoded {:?}", at, el, gl));
                    }
                }
            }
        }
        for (r, gl) in &g.links {
            if !e.links.contains_key(r) {
                disc(&mut local, "hyperlink/phantom", format!("{:?}!{}: the file has {:?}, the model has no hyperlink there", e.name, r, gl));
            }
        }
        // merged ranges
        for r in &e.merges {
            if !g.merges.contains(r) {
                disc(&mut local, "merge/missing", format!("{:?}: merged range {} is not in the file (file has {:?})", e.name, r, g.merges));
            }
        }
        for r in &g.merges {
            if !e.merges.contains(r) {
                disc(&mut local, "merge/phantom", format!("{:?}: the file merges {}, the model does not", e.name, r));
            }
        }
        // comments
        for (r, (ea, et)) in &e.comments {
            let at = format!("{:?}!{}", e.name, r);
            match g.comments.get(r) {
                None => disc(&mut local, "comment/missing", format!("{}: comment by {:?} is not in the file", at, ea)),
                Some((ga, gt)) => {
                    if ea != ga {
                        let sibling = e.comments.values().any(|(a2, _)| a2 == ga);
                        let cls = special_class(ea);
                        let mode = if ea.contains("_x") && xstring_decode(ea) == *ga {
                            "xstring-lookalike-decoded"
                        } else if *ga == ea.replace("\r\n", "\n").replace('\r', "\n") {
                            "cr-becomes-lf"
                        } else if sibling {
                            "shifted"
                        } else {
                            "differs"
                        };
                        disc(&mut local, format!("comment-author{}/{}", cls, mode), format!("{}: model author {:?}, decoded {:?}", at, ea, ga));
                    }
                    if et != gt {
                        let cls = special_class(et);
                        let mode = if et.contains("_x") && xstring_decode(et) == *gt {
                            "xstring-lookalike-decoded"
                        } else if *gt == et.replace("\r\n", "\n").replace('\r', "\n") {
                            "cr-becomes-lf"
                        } else {
                            "differs"
                        };
                        disc(&mut local, format!("comment-text{}/{}", cls, mode), format!("{}: model text {:?}, decoded {:?}", at, truncate(et, 120), truncate(gt, 120)));
                    }
                }
            }
        }
        for (r, gc) in &g.comments {
            if !e.comments.contains_key(r) {
                disc(&mut local, "comment/phantom", format!("{:?}!{}: the file has a comment {:?}, the model has none there", e.name, r, gc));
            }
        }
        // tables
        for (n, (er, ecols)) in &e.tables {
            match g.tables.get(n) {
                None => disc(&mut local, format!("table{}/missing", special_class(n)), format!("{:?}: table {:?} is not in the file (file has {:?})", e.name, n, g.tables.keys().collect::<Vec<_>>())),
                Some((gr, gcols)) => {
                    if er != gr {
                        disc(&mut local, "table/ref", format!("{:?}: table {:?} model range {}, decoded {}", e.name, n, er, gr));
                    }
                    if ecols != gcols {
                        // class of the first column name that differs
                        let cls = ecols
                            .iter()
                            .enumerate()
                            .find(|(j, c)| gcols.get(*j) != Some(*c))
                            .map(|(_, c)| special_class(c))
                            .unwrap_or(":count");
                        disc(&mut local, format!("table-column{}/differs", cls), format!("{:?}: table {:?} model columns {:?}, decoded {:?}", e.name, n, ecols, gcols));
                    }
                }
            }
        }
        for n in g.tables.keys() {
            if !e.tables.contains_key(n) {
                disc(&mut local, "table/phantom", format!("{:?}: the file has table {:?}, the model does not", e.name, n));
            }
        }
        for d in local {
            let n = per_key.entry(d.key.clone()).or_insert(0);
            *n += 1;
            if *n <= 3 {
                out.push(d);
            }
        }
    }
    // defined names: multiset of (name, scope, canonical text)
    let mut used = vec![false; got.names.len()];
    for e in &exp.names {
        let hit = got.names.iter().enumerate().position(|(i, g)| !used[i] && g.name == e.name && g.scope == e.scope);
        match hit {
            Some(i) => {
                used[i] = true;
                if got.names[i].text != e.text {
                    disc(&mut out, "defined-name/text", format!("defined name {:?} scope {:?}: model text {:?}, decoded {:?}", e.name, e.scope, e.text, got.names[i].text));
                }
            }
            None => {
                let other_scope = got.names.iter().enumerate().position(|(i, g)| !used[i] && g.name == e.name);
                match other_scope {
                    Some(i) => {
                        used[i] = true;
                        disc(&mut out, "defined-name/scope", format!("defined name {:?}: model scope {:?}, decoded {:?}", e.name, e.scope, got.names[i].scope));
                    }
                    None => disc(&mut out, format!("defined-name{}/missing", special_class(&e.name)), format!("defined name {:?} scope {:?} is not in the file", e.name, e.scope)),
                }
            }
        }
    }
    for (i, g) in got.names.iter().enumerate() {
        if !used[i] {
            disc(&mut out, "defined-name/phantom", format!("the file has defined name {:?} scope {:?} text {:?}, the model does not", g.name, g.scope, g.text));
        }
    }
    out
}

// ---------------------------------------------------------------------------------------
// oracle 1: validity

/// Class of a part name: digits removed, well-known parts by a short name.
pub fn part_class(part: &str) -> String {
    let p: String = part.trim_start_matches('/').chars().filter(|c| !c.is_ascii_digit()).collect();
    let known = [
        ("xl/workbook.xml", "workbook"),
        ("xl/_rels/workbook.xml.rels", "workbook-rels"),
        ("xl/sharedStrings.xml", "sharedStrings"),
        ("xl/styles.xml", "styles"),
        ("[Content_Types].xml", "content-types"),
        ("xl/worksheets/sheet.xml", "worksheet"),
        ("xl/worksheets/_rels/sheet.xml.rels", "worksheet-rels"),
        ("xl/comments.xml", "comments"),
        ("xl/tables/table.xml", "table"),
        ("xl/drawings/vmlDrawing.vml", "vml"),
        ("xl/drawings/_rels/vmlDrawing.vml.rels", "vml-rels"),
        ("xl/drawings/drawing.xml", "drawing"),
        ("xl/drawings/_rels/drawing.xml.rels", "drawing-rels"),
        ("xl/charts/chart.xml", "chart"),
        ("xl/theme/theme.xml", "theme"),
        ("docProps/app.xml", "docProps-app"),
        ("docProps/core.xml", "docProps-core"),
        ("docProps/custom.xml", "docProps-custom"),
        ("_rels/.rels", "root-rels"),
        ("xl/vbaProject.bin", "vbaProject"),
    ];
    for (k, v) in known {
        if p == k {
            return v.to_string();
        }
    }
    if p.is_empty() {
        "package".to_string()
    } else {
        p
    }
}

fn wf_cause(detail: &str) -> &'static str {
    let d = detail.to_lowercase();
    if d.contains("invalid token") {
        "invalid-token"
    } else if d.contains("invalid character number") {
        "invalid-char-ref"
    } else if d.contains("mismatched tag") {
        "mismatched-tag"
    } else if d.contains("duplicate attribute") {
        "duplicate-attribute"
    } else if d.contains("undefined entity") {
        "undefined-entity"
    } else if d.contains("unbound prefix") {
        "unbound-prefix"
    } else if d.contains("junk after") {
        "junk-after-document"
    } else if d.contains("no element found") || d.contains("unclosed") {
        "truncated"
    } else {
        "other"
    }
}

pub fn validity_discs(viol: &[RuleViolation], out: &mut Vec<Disc>) {
    let mut per_key: BTreeMap<String, usize> = BTreeMap::new();
    for v in viol {
        let mut key = format!("invalid/{}/{}", v.rule, part_class(&v.part));
        if v.rule == "xml.not-well-formed" {
            key = format!("{}/{}", key, wf_cause(&v.detail));
        }
        if v.rule == "ws.child-order" {
            // which pair is out of order: "<a> after <b>"
            let names: Vec<&str> = v.detail.split(|c| c == '<' || c == '>').filter(|s| !s.is_empty() && !s.contains(' ')).collect();
            if names.len() >= 2 {
                key = format!("{}/{}-after-{}", key, names[0], names[1]);
            }
        }
        let n = per_key.entry(key.clone()).or_insert(0);
        *n += 1;
        if *n <= 2 {
            disc(out, key, format!("{}: {} — {}", v.part, v.rule, v.detail));
        }
    }
}

/// `count` / `uniqueCount` attributes against the tables they describe.
pub fn count_discs(d: &Decoded, out: &mut Vec<Disc>) {
    let c = &d.styles.counts;
    let actual: [(&str, u32); 8] = [
        ("numFmts", c.num_fmts),
        ("fonts", c.fonts),
        ("fills", c.fills),
        ("borders", c.borders),
        ("cellStyleXfs", c.cell_style_xfs),
        ("cellXfs", c.cell_xfs),
        ("cellStyles", c.cell_styles),
        ("dxfs", c.dxfs),
    ];
    for (name, n) in actual {
        if let Some(Some(decl)) = c.declared.get(name) {
            if *decl != n {
                disc(out, format!("invalid/count/styles.{}", name), format!("styles.xml <{} count=\"{}\"> has {} children", name, decl, n));
            }
        }
    }
    let s = &d.shared_strings;
    if s.part.is_some() {
        if let Some(u) = s.unique_count {
            if u != s.si {
                disc(out, "invalid/count/sst.uniqueCount", format!("sharedStrings uniqueCount=\"{}\" with {} <si>", u, s.si));
            }
        }
        if let Some(cn) = s.count {
            let refs: usize = d.sheets.iter().map(|sh| sh.cells.iter().filter(|c| c.t.as_deref() == Some("s") && c.sst_index.is_some()).count()).sum();
            if cn as usize != refs {
                disc(out, "invalid/count/sst.count", format!("sharedStrings count=\"{}\", {} cells refer to a string item", cn, refs));
            }
        }
    }
}

/// Generic `count` rule: an element of an XML part that carries a `count` attribute has that
/// many child elements (mergeCells, tableParts, tableColumns, fonts, cellXfs, dxfs, authors ...).
/// `sst` is left out (its `count` is the number of references, see `count_discs`), and so are
/// the elements for which producer-written corpus originals break the rule (calibration,
/// `COUNT_RULE_EXEMPT`).
pub fn count_attr_mismatches(bytes: &[u8]) -> Vec<(String, String, u64, u64)> {
    use quick_xml::events::Event;
    let mut out = Vec::new();
    let Ok(parts) = crate::props::c04::parts(bytes) else { return out };
    for (name, data) in &parts {
        if !name.ends_with(".xml") || name.starts_with("docProps/") || name.starts_with("customXml/") {
            continue;
        }
        let mut reader = quick_xml::Reader::from_reader(data.as_slice());
        let mut buf = Vec::new();
        // (element, declared count, children seen)
        let mut stack: Vec<(String, Option<u64>, u64)> = Vec::new();
        let declared = |e: &quick_xml::events::BytesStart| -> Option<u64> {
            for a in e.attributes().with_checks(false).flatten() {
                if a.key.as_ref() == b"count" {
                    return std::str::from_utf8(&a.value).ok().and_then(|v| v.parse::<u64>().ok());
                }
            }
            None
        };
        loop {
            match reader.read_event_into(&mut buf) {
                Ok(Event::Start(ref e)) => {
                    if let Some(top) = stack.last_mut() {
                        top.2 += 1;
                    }
                    stack.push((String::from_utf8_lossy(e.name().as_ref()).to_string(), declared(e), 0));
                }
                Ok(Event::Empty(ref e)) => {
                    if let Some(top) = stack.last_mut() {
                        top.2 += 1;
                    }
                    if let Some(n) = declared(e) {
                        if n != 0 {
                            out.push((name.clone(), String::from_utf8_lossy(e.name().as_ref()).to_string(), n, 0));
                        }
                    }
                }
                Ok(Event::End(_)) => {
                    if let Some((el, Some(n), seen)) = stack.pop() {
                        if n != seen {
                            out.push((name.clone(), el, n, seen));
                        }
                    }
                }
                Ok(Event::Eof) | Err(_) => break,
                _ => {}
            }
            buf.clear();
        }
    }
    out
}

/// Elements whose `count` does not mean "number of child elements" or for which producer
/// originals of the corpus break the rule.
pub const COUNT_RULE_EXEMPT: [&str; 1] = ["sst"];

pub fn count_attr_discs(bytes: &[u8], out: &mut Vec<Disc>) {
    for (part, el, n, seen) in count_attr_mismatches(bytes) {
        if COUNT_RULE_EXEMPT.contains(&el.as_str()) {
            continue;
        }
        disc(out, format!("invalid/count/{}.{}", part_class(&part), el), format!("{}: <{} count=\"{}\"> has {} child elements", part, el, n, seen));
    }
}

// ---------------------------------------------------------------------------------------
// known keys, verdict

fn known_keys() -> &'static HashSet<String> {
    static K: OnceLock<HashSet<String>> = OnceLock::new();
    K.get_or_init(|| load_known().into_iter().filter(|k| k.property == "C02" && k.status == "open").map(|k| k.key).collect())
}

/// One verdict from a list of discrepancies: a key that is not an open known finding wins,
/// so a tolerated discrepancy can never hide another one in the same case.
pub fn verdict_of(discs: &[Disc]) -> Verdict {
    if discs.is_empty() {
        return Verdict::Pass;
    }
    let known = known_keys();
    let pick = discs.iter().find(|d| !known.contains(&d.key)).unwrap_or(&discs[0]);
    let keys: BTreeSet<&str> = discs.iter().map(|d| d.key.as_str()).collect();
    Verdict::fail(pick.key.clone(), format!("{} [all keys of this case: {}]", pick.detail, keys.into_iter().collect::<Vec<_>>().join(", ")))
}

/// All discrepancies of one saved file against a model.
pub fn judge_bytes(bytes: &[u8], model: &Model, macros: Option<Option<&[u8]>>) -> (Vec<Disc>, Option<Decoded>) {
    let mut out = Vec::new();
    let (mut viol, dec) = pyworker::both(bytes);
    // when a part is not even well-formed nothing that is derived from its content can be
    // judged: report the cause only, not its consequences
    let broken = viol.iter().any(|v| v.rule == "xml.not-well-formed" || v.rule.starts_with("zip."));
    if broken {
        viol.retain(|v| v.rule == "xml.not-well-formed" || v.rule.starts_with("zip."));
    }
    validity_discs(&viol, &mut out);
    let dec = match dec {
        Ok(d) => d,
        Err(e) => {
            if out.is_empty() {
                disc(&mut out, "invalid/undecodable", e);
            }
            return (out, None);
        }
    };
    if !broken {
        count_discs(&dec, &mut out);
        count_attr_discs(bytes, &mut out);
        out.extend(diff(model, &model_of_decoded(&dec)));
        if let Some(m) = macros {
            let has = dec.parts.iter().any(|p| p == "xl/vbaProject.bin");
            match (m, has) {
                (None, true) => disc(&mut out, "macro/phantom", "the file has xl/vbaProject.bin, the workbook has no macro payload"),
                (Some(_), false) => disc(&mut out, "macro/payload-missing", "the workbook has a macro payload, the file has no xl/vbaProject.bin"),
                (Some(p), true) => match crate::props::c04::parts(bytes) {
                    Ok(parts) => {
                        if parts.get("xl/vbaProject.bin").map(|b| b.as_slice()) != Some(p) {
                            disc(&mut out, "macro/payload-differs", format!("xl/vbaProject.bin has {:?} bytes, the payload {}", parts.get("xl/vbaProject.bin").map(|b| b.len()), p.len()));
                        }
                    }
                    Err(e) => disc(&mut out, "invalid/zip.read-by-second-reader", e),
                },
                (None, false) => {}
            }
        }
    }
    (out, Some(dec))
}

// ---------------------------------------------------------------------------------------
// generated leg: check

fn bucket(n: usize) -> &'static str {
    match n {
        0 => "0",
        1 => "1",
        2..=9 => "2-9",
        10..=99 => "10-99",
        _ => ">=100",
    }
}

fn every_kind(s: &AnnotSheet, ex: &SheetExtra) -> bool {
    !s.merges.is_empty()
        && !s.names.is_empty()
        && s.links.iter().any(|l| !l.internal)
        && s.links.iter().any(|l| l.internal)
        && !s.comments.is_empty()
        && !s.validations.is_empty()
        && !s.cond_formats.is_empty()
        && s.auto_filter.is_some()
        && s.protection.is_some()
        && s.page.object_data.is_some()
        && (!ex.tables.is_empty() || s.table.is_some())
}

static DISCARD_NOTED: std::sync::atomic::AtomicBool = std::sync::atomic::AtomicBool::new(false);

fn check(case: &Case, obs: &mut Obs) -> Verdict {
    let layout = case.layout();
    let kept = case.annot.kept();
    let srcs: Vec<usize> = layout.iter().filter_map(|sl| sl.src).collect();
    let styled = !case.styles.is_empty() && srcs.iter().any(|i| !case.extra_of(*i).styled.is_empty());
    let mut rel_objects = 0;
    let mut mix = 0;
    let mut sheets_with_rels = 0;
    for &i in &srcs {
        let s = &case.annot.sheets[i];
        let ex = case.extra_of(i);
        let ext = s.links.iter().filter(|l| !l.internal).count();
        let tabs = ex.tables.len() + s.table.is_some() as usize;
        let n = ext + s.comments.len().min(1) * 2 + tabs + s.page.object_data.is_some() as usize + (ex.image || ex.chart) as usize;
        rel_objects += n;
        if n > 0 {
            sheets_with_rels += 1;
        }
        if ext > 0 && !s.comments.is_empty() && tabs > 0 {
            mix += 1;
        }
        obs.class(format!("sheet:extlinks:{}", bucket(ext)));
        obs.class(format!("sheet:comments:{}", bucket(s.comments.len())));
        obs.class(format!("sheet:tables:{}", bucket(tabs)));
        obs.class(format!("sheet:relationships:{}", bucket(n)));
        if every_kind(s, &ex) {
            obs.class("sheet-with-every-object-kind");
        }
        if ex.image {
            obs.class("drawing:image");
        }
        if ex.chart {
            obs.class("drawing:chart");
        }
    }
    obs.nontrivial(layout.len() >= 2 || rel_objects > 0 || case.macros.is_some() || styled);
    obs.class(if case.light { "writer:light" } else { "writer:standard" });
    obs.class(format!("sheets-saved:{}", bucket(layout.len())));
    if layout.len() <= 6 {
        obs.class(format!("sheets-saved={}", layout.len()));
    }
    if kept.len() < case.annot.sheets.len() {
        obs.class("sheet-removed-before-save");
    }
    if kept.iter().any(|i| case.extra.get(*i).map_or(false, |e| e.rename.is_some())) {
        obs.class("sheet-renamed-before-save");
    }
    for op in &case.history {
        match op {
            SheetOp::Copy { .. } => obs.class("history:copy"),
            SheetOp::InsertNew { .. } => obs.class("history:insert"),
            SheetOp::Move { .. } => obs.class("history:move"),
        }
    }
    // a scoped name held by a sheet whose position differs from where it was created
    // (below: removal in front; above: copy / insertion in front / move)
    for (k, sl) in layout.iter().enumerate() {
        if let Some(i) = sl.src {
            if case.annot.sheets[i].names.iter().any(|n| n.local) {
                if k > i {
                    obs.class("scoped-name:holder-moved-back(stored id too low)");
                } else if k < i {
                    obs.class("scoped-name:holder-moved-forward(stored id too high)");
                }
                if sl.is_copy {
                    obs.class("scoped-name:on-copied-sheet");
                }
            }
        }
        if sl.name.encode_utf16().count() == 31 {
            obs.class("sheet-name:31-units");
        }
    }
    if layout.len() == 2 {
        let st: Vec<u8> = layout.iter().map(|sl| sl.src.map_or(0, |i| case.annot.sheets[i].state)).collect();
        if st.contains(&3) && st.iter().any(|x| *x < 2) {
            obs.class("sheets:veryHidden+visible-pair");
        }
    }
    match &case.macros {
        None => obs.class("macro:none"),
        Some(m) if m.is_empty() => obs.class("macro:len0"),
        Some(m) if m.len() == 1 => obs.class("macro:len1"),
        Some(_) => obs.class("macro:len>1"),
    }
    if styled {
        obs.class("styled");
    }
    if !case.doc_props.is_empty() {
        obs.class("doc-props-set");
    }
    if srcs.iter().any(|i| case.annot.sheets[*i].page.object_data.as_ref().map_or(false, |b| b.is_empty())) {
        obs.class("printer-settings:len0");
    }
    obs.class(format!("styles:{}", bucket(case.styles.len())));
    if case.styles.len() >= 65 {
        obs.class("styles>=65");
    }
    obs.class(format!("sheets-with-rels:{}", sheets_with_rels.min(3)));
    if mix >= 1 {
        obs.class("sheet-with-extlink+comment+table");
    }
    if mix >= 2 {
        obs.class("two-sheets-with-extlink+comment+table");
    }
    let mut texts: BTreeSet<&str> = BTreeSet::new();
    let big = layout.len() > 8;
    for &i in &kept {
        if let Some(ex) = case.extra.get(i) {
            for c in ex.cells.iter() {
                if !big {
                    obs.class(format!("cell:{}", cell_feature(&mcell_of_spec(c))));
                }
                if let ValueSpec::Text(t) = &c.value {
                    texts.insert(t.as_str());
                    if t.chars().count() >= 32767 {
                        obs.class("text:32767-chars");
                    }
                }
            }
        }
    }
    if texts.len() >= 100 {
        obs.class("shared-strings>=100");
    }

    for x in &case.steered {
        obs.excluded(format!("steered:{}", x));
    }
    let book = match guard(|| build(case)) {
        Ok(b) => b,
        Err(p) => return Verdict::fail(format!("build/panic:{}", p.site()), p.short()),
    };
    let model = model_of_spec(case, &book);
    // the spec must agree with the API before saving, otherwise the case says nothing
    let pre = diff(&model, &model_of_book(&book));
    if let Some(d) = pre.first() {
        if !DISCARD_NOTED.swap(true, std::sync::atomic::Ordering::Relaxed) {
            eprintln!("HARNESS-NOTE: C02 generator/model mismatch before saving (case discarded): {} {}", d.key, truncate(&d.detail, 300));
        }
        return Verdict::Discard(format!("pre-save model mismatch: {} {}", d.key, d.detail));
    }
    let bytes = match guard(|| save(&book, case.light)) {
        Ok(Ok(b)) => b,
        Ok(Err(e)) => return Verdict::fail("save/error", e),
        Err(p) => return Verdict::fail(format!("save/panic:{}", p.site()), p.short()),
    };
    if let Ok(p) = std::env::var("VERIF_C02_KEEP") {
        // debugging aid for replays: keep the written file
        let _ = std::fs::write(&p, &bytes);
    }
    let (discs, _) = judge_bytes(&bytes, &model, Some(case.macros.as_deref()));
    verdict_of(&discs)
}

// ---------------------------------------------------------------------------------------
// strategies

/// What the clean strata leave out (input features of open known findings); the dirty
/// stratum puts them in.
#[derive(Debug, Clone, Copy, PartialEq)]
pub struct Steer {
    /// C0 controls / U+FFFE / U+FFFF in texts
    pub c0: bool,
    /// `_xHHHH_` look-alikes in texts
    pub xlook: bool,
    /// carriage returns in texts
    pub cr: bool,
    /// edge blanks in comment texts / authors, formula string results
    pub edge: bool,
    /// line breaks / tabs in table column names (attribute values)
    pub attr_ws: bool,
}

impl Steer {
    pub const NONE: Steer = Steer { c0: true, xlook: true, cr: true, edge: true, attr_ws: true };
}

fn open(pred: impl Fn(&str) -> bool) -> bool {
    known_keys().iter().any(|k| pred(k))
}

/// Which features have to be kept out of the clean strata: exactly those of the open entries.
pub fn steer_clean() -> Steer {
    Steer {
        c0: !open(|k| k.starts_with("invalid/xml.not-well-formed/")),
        xlook: !open(|k| k.contains("xstring-lookalike")),
        cr: !open(|k| k.contains("cr-becomes-lf")),
        edge: !open(|k| k.contains("edge-blank-without-xml-space")),
        attr_ws: !open(|k| k.starts_with("table-column:linebreak")),
    }
}

fn is_c0(c: char) -> bool {
    ((c as u32) < 0x20 && !matches!(c, '\t' | '\n' | '\r')) || c == '\u{fffe}' || c == '\u{ffff}'
}

fn has_xlook(s: &str) -> bool {
    // _xHHHH_
    let b: Vec<char> = s.chars().collect();
    if b.len() < 7 {
        return false;
    }
    for i in 0..=b.len() - 7 {
        if b[i] == '_' && b[i + 1] == 'x' && b[i + 6] == '_' && b[i + 2..i + 6].iter().all(|c| c.is_ascii_hexdigit()) {
            return true;
        }
    }
    false
}

/// Remove from a text what the steering excludes; returns the labels of what was removed.
fn clean_text(s: &mut String, st: Steer, edge_matters: bool, ex: &mut Vec<&'static str>) {
    if !st.c0 && s.chars().any(is_c0) {
        *s = s.chars().filter(|c| !is_c0(*c)).collect();
        ex.push("c0-control");
    }
    if !st.cr && s.contains('\r') {
        *s = s.replace('\r', "");
        ex.push("cr");
    }
    if !st.xlook && has_xlook(s) {
        *s = s.replace("_x", "_y");
        ex.push("xstring-lookalike");
    }
    if !st.edge && edge_matters && has_xml_edge_blank(s) {
        *s = s.trim_matches(is_edge_blank).to_string();
        ex.push("edge-blank");
    }
}

/// Apply the steering to a whole case; what was removed is reported through `Case`-external
/// counters (the check recomputes nothing from it, the labels are only for the evidence).
fn steer_case(mut case: Case, st: Steer) -> Case {
    let mut ex: Vec<&'static str> = Vec::new();
    if !st.attr_ws {
        for e in case.extra.iter_mut() {
            for t in e.tables.iter_mut() {
                for c in t.columns.iter_mut() {
                    if c.chars().any(|x| matches!(x, '\n' | '\t' | '\r')) {
                        *c = c.replace(['\n', '\t', '\r'], "-");
                        ex.push("table-column-linebreak");
                    }
                }
            }
        }
    }
    for e in case.extra.iter_mut() {
        for c in e.cells.iter_mut() {
            let is_formula = c.formula.is_some();
            match &mut c.value {
                ValueSpec::Text(s) => clean_text(s, st, is_formula, &mut ex),
                ValueSpec::Rich(runs) => {
                    for r in runs.iter_mut() {
                        clean_text(&mut r.text, st, false, &mut ex);
                        if r.text.is_empty() {
                            r.text = "r".into();
                        }
                    }
                }
                _ => {}
            }
        }
        for t in e.tables.iter_mut() {
            for c in t.columns.iter_mut() {
                clean_text(c, st, false, &mut ex);
            }
            dedupe_columns(&mut t.columns);
        }
    }
    for s in case.annot.sheets.iter_mut() {
        for c in s.comments.iter_mut() {
            clean_text(&mut c.author, st, true, &mut ex);
            for r in c.runs.iter_mut() {
                clean_text(r, st, true, &mut ex);
                if r.is_empty() {
                    *r = "c".into();
                }
            }
        }
    }
    case.steered = ex.into_iter().map(|s| s.to_string()).collect();
    case
}

fn dedupe_columns(cols: &mut [String]) {
    let mut seen: BTreeSet<String> = BTreeSet::new();
    for (j, c) in cols.iter_mut().enumerate() {
        if c.is_empty() || !seen.insert(c.to_lowercase()) {
            *c = format!("Column{}", j + 1);
            let mut k = 0;
            while !seen.insert(c.to_lowercase()) {
                k += 1;
                *c = format!("Column{}_{}", j + 1, k);
            }
        }
    }
}

fn bare_sheet(state: u8, removed: bool) -> AnnotSheet {
    AnnotSheet {
        name: String::new(),
        state,
        removed_before_save: removed,
        merges: Vec::new(),
        names: Vec::new(),
        links: Vec::new(),
        comments: Vec::new(),
        validations: Vec::new(),
        cond_formats: Vec::new(),
        auto_filter: None,
        tab_color: None,
        view: None,
        ws_active_cell: None,
        page: PageSpec::default(),
        header: None,
        footer: None,
        protection: None,
        table: None,
    }
}

/// Sheets without annotations (1..4, states, some removed before saving).
fn bare_wb() -> BoxedStrategy<AnnotWb> {
    let sheets = prop_oneof![
        8 => prop::collection::vec((0u8..4, prop::bool::weighted(0.12)), 1..=4),
        // exactly one veryHidden and one visible sheet, in both orders
        1 => prop::sample::select(vec![vec![(3u8, false), (0u8, false)], vec![(1u8, false), (3u8, false)]]),
    ];
    (sheet_names(6, 6), sheets, any::<u16>())
        .prop_map(|(names, sheets, active_raw)| {
            let wb = AnnotWb {
                sheets: sheets.into_iter().map(|(s, r)| bare_sheet(s, r)).collect(),
                active_tab: 0,
                set_active: false,
                wb_names: Vec::new(),
                wb_protection: None,
            };
            annot::normalise(wb, names, active_raw)
        })
        .boxed()
}

/// 0..=max tables in disjoint slots right of / below the small-position area.
fn table_specs(max: usize) -> BoxedStrategy<Vec<TableSpec>> {
    let col_name_s = prop_oneof![
        4 => "[A-Za-z][A-Za-z0-9 ]{0,8}".prop_map(|s| s.trim().to_string()),
        3 => nonempty_text(10),
        1 => prop::sample::select(vec!["A&B", "<c>", "\"q\"", "it's", "日本", "Total", "total", "x\ny", "a\tb", " pad ", "_x0041_", "100%", "Column1"]).prop_map(|s| s.to_string()),
    ];
    let one = (0u32..6, 0u32..3, 1u32..=5, 1u32..=5, prop::collection::vec(col_name_s, 5), any::<bool>(), prop::bool::weighted(0.7), "[A-Za-z_][A-Za-z0-9_.]{0,8}");
    prop::collection::vec(one, 0..=max)
        .prop_map(|v| {
            let mut used = BTreeSet::new();
            let mut out = Vec::new();
            for (sc, sr, w, h, cols, style_info, header_cells, name) in v {
                if !used.insert((sc, sr)) {
                    continue;
                }
                let c1 = 30 + sc * 6;
                let r1 = 200 + sr * 8;
                let mut columns: Vec<String> = cols.into_iter().take(w as usize).collect();
                dedupe_columns(&mut columns);
                out.push(TableSpec {
                    name,
                    rect: RectSpec { c1, r1, c2: c1 + w - 1, r2: r1 + h },
                    columns,
                    style_info,
                    header_cells,
                });
            }
            out
        })
        .boxed()
}

fn style_target() -> BoxedStrategy<StyleTarget> {
    prop_oneof![
        5 => (col_pos(), row_pos()).prop_map(|(c, r)| StyleTarget::Cell(c, r)),
        1 => row_pos().prop_map(StyleTarget::Row),
        1 => col_pos().prop_map(StyleTarget::Col),
    ]
    .boxed()
}

#[derive(Debug, Clone, Copy)]
struct Plan {
    /// 0 bare sheets, 1 full annotations, 2 hyperlink/comment heavy
    annot: u8,
    max_cells: usize,
    max_text: usize,
    grammar_formulas: bool,
    styles: bool,
    max_tables: usize,
    macros: bool,
    renames: bool,
    dirty: bool,
    /// sheet-list history before saving (copy / insert / move)
    history: bool,
    /// images and charts
    drawings: bool,
}

fn cell_spec2(max_text: usize, grammar: bool) -> BoxedStrategy<CellSpec> {
    if !grammar {
        return cell_spec(max_text);
    }
    let formula = prop_oneof![2 => simple_formula(), 3 => crate::gen::formula::formula_text()];
    (col_pos(), row_pos(), value_spec(max_text), prop::option::weighted(0.3, formula))
        .prop_map(|(col, row, value, formula)| {
            let formula = if matches!(value, ValueSpec::Rich(_)) { None } else { formula };
            CellSpec { col, row, value, formula, via_set_cell: false }
        })
        .boxed()
}

fn sheet_extra(p: Plan) -> BoxedStrategy<SheetExtra> {
    let cells = prop::collection::vec(cell_spec2(p.max_text, p.grammar_formulas), 0..=p.max_cells);
    let styled = if p.styles { prop::collection::vec((style_target(), any::<u16>()), 0..=8).boxed() } else { Just(Vec::new()).boxed() };
    let tables = if p.max_tables > 0 { table_specs(p.max_tables) } else { Just(Vec::new()).boxed() };
    let rename = if p.renames { prop::option::weighted(0.15, sheet_name()).boxed() } else { Just(None).boxed() };
    let dp = if p.drawings { 0.12 } else { 0.0 };
    let flag = move || if dp > 0.0 { prop::bool::weighted(dp).boxed() } else { Just(false).boxed() };
    (cells, styled, tables, rename, flag(), flag())
        .prop_map(|(cells, styled, tables, rename, image, chart)| SheetExtra { cells, styled, tables, rename, image, chart })
        .boxed()
}

/// Make a generated case legal: table names unique workbook-wide, rename targets distinct
/// from every other sheet name, column names unique per table.
fn fixup(mut case: Case) -> Case {
    let n = case.annot.sheets.len();
    case.extra.truncate(n);
    let mut names: BTreeSet<String> = case.annot.sheets.iter().map(|s| s.name.to_lowercase()).collect();
    for (i, e) in case.extra.iter_mut().enumerate() {
        if let Some(r) = e.rename.as_mut() {
            if !names.insert(r.to_lowercase()) {
                let base: String = r.chars().take(24).collect();
                *r = sanitize_sheet_name(&format!("{}_r{}", base, i));
                if !names.insert(r.to_lowercase()) {
                    e.rename = None;
                }
            }
        }
        for (k, t) in e.tables.iter_mut().enumerate() {
            t.name = format!("{}_{}_{}", t.name, i, k);
            dedupe_columns(&mut t.columns);
        }
    }
    for (j, op) in case.history.iter_mut().enumerate() {
        if let SheetOp::Copy { name, .. } | SheetOp::InsertNew { name, .. } = op {
            if !names.insert(name.to_lowercase()) {
                let base: String = name.chars().take(24).collect();
                *name = sanitize_sheet_name(&format!("{}_h{}", base, j));
                let mut k = 0;
                while !names.insert(name.to_lowercase()) {
                    k += 1;
                    *name = format!("H{}_{}", j, k);
                }
            }
        }
    }
    case
}

fn history_ops(max: usize) -> BoxedStrategy<Vec<SheetOp>> {
    let pos = prop_oneof![2 => Just(0u16), 1 => Just(u16::MAX), 3 => any::<u16>()];
    let op = prop_oneof![
        3 => (any::<u16>(), sheet_name()).prop_map(|(src, name)| SheetOp::Copy { src, name }),
        1 => (Just(0u16), prop::sample::select(vec!["Sheet1 (2)", "Copy of data", "a (2)"])).prop_map(|(src, name)| SheetOp::Copy { src, name: name.to_string() }),
        2 => (pos.clone(), sheet_name()).prop_map(|(at, name)| SheetOp::InsertNew { at, name }),
        2 => (any::<u16>(), pos).prop_map(|(from, to)| SheetOp::Move { from, to }),
    ];
    prop_oneof![
        3 => Just(Vec::new()),
        3 => prop::collection::vec(op.clone(), 1..=1),
        2 => prop::collection::vec(op, 1..=max),
    ]
    .boxed()
}

/// none / empty / one byte / a few hundred bytes / something that starts like a compound file
fn macro_payload() -> BoxedStrategy<Option<Vec<u8>>> {
    prop_oneof![
        6 => Just(None),
        1 => Just(Some(Vec::new())),
        1 => any::<u8>().prop_map(|b| Some(vec![b])),
        2 => prop::collection::vec(any::<u8>(), 2..400).prop_map(Some),
        1 => Just(Some(b"\xD0\xCF\x11\xE0\xA1\xB1\x1A\xE1 not really a compound file".to_vec())),
    ]
    .boxed()
}

fn case_strategy(p: Plan, tier: Tier) -> BoxedStrategy<Case> {
    let feat = if p.dirty { Feat::ALL } else { Feat::CLEAN };
    let annot = match p.annot {
        0 => bare_wb(),
        1 => annot::annot_wb(tier, feat),
        _ => annot::links_wb(tier),
    };
    let styles = if p.styles { style::style_set(3, 3, 10, false) } else { Just(Vec::new()).boxed() };
    let macros = if p.macros { macro_payload() } else { Just(None).boxed() };
    let history = if p.history { history_ops(3) } else { Just(Vec::new()).boxed() };
    let st = if p.dirty { Steer::NONE } else { steer_clean() };
    let doc_props = if p.drawings { prop_oneof![2 => Just(Vec::new()), 1 => prop::collection::vec(plain_text(16), 1..=6)].boxed() } else { Just(Vec::new()).boxed() };
    (annot, prop::collection::vec(sheet_extra(p), 6), styles, macros, any::<bool>(), history, doc_props)
        .prop_map(move |(annot, extra, styles, macros, light, history, doc_props)| steer_case(fixup(Case { annot, extra, styles, macros, light, steered: Vec::new(), history, doc_props }), st))
        .boxed()
}

fn strat_cells(t: Tier) -> BoxedStrategy<Case> {
    let (cells, text) = t.pick((30, 30), (60, 200));
    case_strategy(
        Plan {
            annot: 0,
            max_cells: cells,
            max_text: text,
            grammar_formulas: true,
            styles: true,
            max_tables: 0,
            macros: false,
            renames: true,
            dirty: false,
            history: true,
            drawings: false,
        },
        t,
    )
}

fn strat_annot(t: Tier) -> BoxedStrategy<Case> {
    case_strategy(
        Plan {
            annot: 1,
            max_cells: 4,
            max_text: 12,
            grammar_formulas: false,
            styles: false,
            max_tables: 0,
            macros: false,
            renames: false,
            dirty: false,
            history: true,
            drawings: false,
        },
        t,
    )
}

fn strat_rels(t: Tier) -> BoxedStrategy<Case> {
    case_strategy(
        Plan {
            annot: 2,
            max_cells: 6,
            max_text: 12,
            grammar_formulas: false,
            styles: false,
            max_tables: 3,
            macros: true,
            renames: false,
            dirty: false,
            history: true,
            drawings: true,
        },
        t,
    )
}

fn strat_combined(t: Tier) -> BoxedStrategy<Case> {
    let (cells, text) = t.pick((12, 20), (30, 80));
    case_strategy(
        Plan {
            annot: 1,
            max_cells: cells,
            max_text: text,
            grammar_formulas: true,
            styles: true,
            max_tables: 2,
            macros: true,
            renames: true,
            dirty: false,
            history: true,
            drawings: true,
        },
        t,
    )
}

fn dirty_text() -> BoxedStrategy<String> {
    prop_oneof![
        3 => c0_text(),
        2 => cr_text(),
        3 => prop::sample::select(vec!["_x0041_", "a_x000D_b", "_x005F_", "x_x0009_", "_x00e9_ _xHHHH_"]).prop_map(|s| s.to_string()),
        2 => (edge_blank(), "[a-z]{1,4}", edge_blank()).prop_map(|(a, b, c)| format!("{}{}{}", a, b, c)),
    ]
    .boxed()
}

fn strat_dirty(t: Tier) -> BoxedStrategy<Case> {
    let dirty_formula = prop::sample::select(vec!["\"a\rb\"&A1", "\"a\r\nb\"", "\" lead\"&\"trail \"", "\"_x0041_\"", "A1+\n B2", "\"tab\there\""]).prop_map(|s| s.to_string());
    let dirty_cell = (5u32..9, 1u32..9, 0u8..3, dirty_text(), dirty_text());
    (
        strat_dirty_base(t),
        prop::collection::vec((dirty_text(), prop::option::weighted(0.3, dirty_text())), 0..6),
        prop::collection::vec((1u32..4, 1u32..6, dirty_formula), 0..3),
        prop::collection::vec(dirty_cell, 0..6),
    )
        .prop_map(|(mut case, texts, formulas, cells)| {
            if let Some(e) = case.extra.first_mut() {
                for (col, row, f) in formulas {
                    e.cells.push(CellSpec { col, row, value: ValueSpec::Number(Num(1.0)), formula: Some(f), via_set_cell: false });
                }
                // the dirty alphabet in all three encodings of a text: shared string, rich
                // runs, cached string result of a formula
                for (col, row, kind, a, b) in cells {
                    let (value, formula) = match kind {
                        0 => (ValueSpec::Text(a), None),
                        1 => (
                            ValueSpec::Rich(vec![
                                RunSpec { text: if a.is_empty() { "r".into() } else { a }, bold: true, italic: false, size: None, font_name: None },
                                RunSpec { text: if b.is_empty() { "s".into() } else { b }, bold: false, italic: false, size: None, font_name: None },
                            ]),
                            None,
                        ),
                        _ => (ValueSpec::Text(a), Some("A1&B1".to_string())),
                    };
                    e.cells.push(CellSpec { col, row, value, formula, via_set_cell: false });
                }
            }
            // comments of the case get texts (and some authors) from the dirty alphabet
            let mut it = texts.into_iter();
            'outer: for s in case.annot.sheets.iter_mut() {
                for c in s.comments.iter_mut() {
                    let Some((text, author)) = it.next() else { break 'outer };
                    c.runs = vec![text];
                    if let Some(a) = author {
                        c.author = a;
                    }
                }
            }
            case
        })
        .boxed()
}

fn strat_dirty_base(t: Tier) -> BoxedStrategy<Case> {
    let _ = t;
    case_strategy(
        Plan {
            annot: 2,
            max_cells: 10,
            max_text: 16,
            grammar_formulas: false,
            styles: false,
            max_tables: 1,
            macros: false,
            renames: false,
            dirty: true,
            history: false,
            drawings: false,
        },
        t,
    )
}

/// Fill in every object kind a sheet can carry that the generated sheet happens to lack.
fn ensure_every_kind(s: &mut AnnotSheet) {
    use annot::*;
    let cell = |c: u32, r: u32| RectSpec { c1: c, r1: r, c2: c, r2: r };
    if s.merges.is_empty() {
        s.merges.push(RectSpec { c1: 20, r1: 40, c2: 21, r2: 41 });
    }
    if !s.names.iter().any(|n| n.local) {
        s.names.push(NameSpec {
            name: "_xlnm.Print_Area".into(),
            local: true,
            hidden: false,
            text: NameText::Areas { areas: vec![AreaSpec { sheet: 0, rect: RectSpec { c1: 1, r1: 1, c2: 5, r2: 9 }, absolute: true }], via_add_address: false },
        });
    }
    if !s.links.iter().any(|l| !l.internal) {
        s.links.push(LinkSpec { col: 22, row: 40, internal: false, target: "https://example.com/every?a=1&b=2".into(), tooltip: None });
    }
    if !s.links.iter().any(|l| l.internal) {
        s.links.push(LinkSpec { col: 23, row: 40, internal: true, target: "A1".into(), tooltip: None });
    }
    if s.comments.is_empty() {
        s.comments.push(CommentSpec { col: 24, row: 40, author: "every".into(), runs: vec!["kind".into()], with_shape: true });
    }
    if s.validations.is_empty() {
        s.validations.push(DvSpec {
            sqref: vec![cell(25, 40)],
            kind: 8,
            operator: 1,
            allow_blank: Some(true),
            show_input: None,
            show_error: None,
            prompt_title: None,
            prompt: None,
            error_title: None,
            error: None,
            formula1: Some("1".into()),
            formula2: Some("9".into()),
        });
    }
    if !s.cond_formats.iter().any(|c| c.rules.iter().any(|r| r.dxf.is_some())) {
        s.cond_formats.push(CfSpec {
            sqref: vec![cell(26, 40)],
            rules: vec![CfRuleSpec {
                kind: 2,
                operator: 5,
                priority: 9999,
                formula: Some("1".into()),
                dxf: Some(DxfSpec { bold: true, italic: false, font_argb: Some("FFFF0000".into()), bg_argb: Some("FFFFFF00".into()), strike: false, border_style: 1, border_argb: None, border_sides: 0, align: 1, wrap: false }),
                text: None,
                percent: None,
                bottom: None,
                rank: None,
                stop_if_true: None,
                std_dev: None,
                above_average: None,
                equal_average: None,
                time_period: 0,
                visual: 0,
                cfvo: Vec::new(),
                colors: Vec::new(),
            }],
        });
    }
    if s.auto_filter.is_none() {
        s.auto_filter = Some(RectSpec { c1: 1, r1: 1, c2: 4, r2: 9 });
    }
    if s.protection.is_none() {
        let mut flags = vec![None; 16];
        flags[0] = Some(true);
        s.protection = Some(SheetProtSpec { flags });
    }
    if s.page.object_data.is_none() {
        s.page.object_data = Some(vec![1, 2, 3, 4]);
    }
}

/// Big numbers: 10..12 sheets (sheet10.xml, comments10.xml, table10.xml, rId10 in the
/// workbook), a sheet with every object kind and >= 10 relationships, >= 100 shared strings,
/// >= 65 cell styles (and custom number formats), one 32 767-character text, a 31-character
/// sheet name, image + chart, macro payload of every length class.
fn strat_bulk(t: Tier) -> BoxedStrategy<Case> {
    let _ = t;
    let small = (annot::url(), annot::author(), nonempty_text(12), prop::bool::weighted(0.3), 0u8..4);
    (
        (sheet_names(12, 12), annot::annot_sheet(10, Feat::CLEAN), prop::collection::vec(small, 9..=11), prop::collection::vec(annot::url(), 10..=14)),
        (100usize..=300, "[a-z<&é ]{0,6}", prop::sample::select(vec!['x', 'é', '<', ' ', '😀']), 65usize..=90),
        (table_specs(1), macro_payload(), any::<bool>(), history_ops(2), any::<u16>()),
    )
        .prop_map(|((mut names, mut first, others, urls), (n_strings, suffix, long_ch, n_styles), (tables, macros, light, history, active_raw))| {
            // a sheet name of exactly 31 UTF-16 units
            names[1] = format!("{:_<31}", names[1].chars().filter(|c| c.len_utf16() == 1).take(20).collect::<String>());
            ensure_every_kind(&mut first);
            first.state = 0;
            first.removed_before_save = false;
            for (k, u) in urls.into_iter().enumerate() {
                let (col, row) = (40 + k as u32, 60);
                if !first.links.iter().any(|l| (l.col, l.row) == (col, row)) {
                    first.links.push(annot::LinkSpec { col, row, internal: false, target: u, tooltip: None });
                }
            }
            let mut sheets = vec![first];
            for (k, (u, author, text, printer, state)) in others.into_iter().enumerate() {
                let mut sh = bare_sheet(state, false);
                sh.links.push(annot::LinkSpec { col: 2, row: 2 + k as u32, internal: false, target: u, tooltip: None });
                sh.comments.push(annot::CommentSpec { col: 3, row: 3, author, runs: vec![text], with_shape: true });
                if printer {
                    // printer-settings blobs of length 0, 1, 2
                    sh.page.object_data = Some(vec![k as u8; k % 3]);
                }
                sheets.push(sh);
            }
            let n = sheets.len();
            let wb = AnnotWb { sheets, active_tab: 0, set_active: false, wb_names: Vec::new(), wb_protection: None };
            let annot = annot::normalise(wb, names, active_raw);
            // styles: distinct custom number formats (numFmtId 164..), every one on a cell
            let styles: Vec<StyleSpec> = (0..n_styles)
                .map(|k| StyleSpec { numfmt: Some(style::NumFmtSpec::Code(format!("0.{}\"u{}\"", "0".repeat(1 + k % 7), k))), ..StyleSpec::default() })
                .collect();
            let mut e0 = SheetExtra::default();
            for k in 0..n_strings {
                e0.cells.push(CellSpec { col: 1 + (k % 4) as u32, row: 100 + (k / 4) as u32, value: ValueSpec::Text(format!("s{}{}", k, suffix)), formula: None, via_set_cell: false });
            }
            e0.cells.push(CellSpec { col: 6, row: 100, value: ValueSpec::Text(std::iter::repeat(long_ch).take(if long_ch == '😀' { 16383 } else { 32767 }).collect()), formula: None, via_set_cell: false });
            for k in 0..n_styles {
                let raw = (((k as u64) << 16) + n_styles as u64 - 1) / n_styles as u64;
                e0.styled.push((StyleTarget::Cell(8 + (k % 5) as u32, 100 + (k / 5) as u32), raw.min(65535) as u16));
            }
            e0.tables = tables.clone();
            e0.image = true;
            e0.chart = true;
            let mut extra = vec![e0];
            for k in 1..n {
                let mut e = SheetExtra::default();
                e.tables = tables.clone();
                e.image = k == 9;
                e.chart = k == 10;
                e.cells.push(CellSpec { col: 1, row: 1, value: ValueSpec::Text(format!("sheet {}", k + 1)), formula: None, via_set_cell: false });
                extra.push(e);
            }
            steer_case(fixup(Case { annot, extra, styles, macros, light, steered: Vec::new(), history, doc_props: vec![suffix.clone(), "A&B <c>".into(), "line1\nline2".into()] }), steer_clean())
        })
        .boxed()
}

fn subs() -> Vec<Box<dyn DynSub>> {
    vec![
        Box::new(Sub { name: "cells", strategy: strat_cells, cases: (120, 4000), check, max_shrink_iters: 1500 }),
        Box::new(Sub { name: "annot", strategy: strat_annot, cases: (120, 2000), check, max_shrink_iters: 1500 }),
        Box::new(Sub { name: "rels", strategy: strat_rels, cases: (250, 4000), check, max_shrink_iters: 1500 }),
        Box::new(Sub { name: "combined", strategy: strat_combined, cases: (150, 2500), check, max_shrink_iters: 1500 }),
        Box::new(Sub { name: "bulk", strategy: strat_bulk, cases: (5, 60), check, max_shrink_iters: 300 }),
        Box::new(Sub { name: "dirty", strategy: strat_dirty, cases: (40, 600), check, max_shrink_iters: 1500 }),
    ]
}

// ---------------------------------------------------------------------------------------
// corpus leg

#[derive(Debug, Clone, Serialize, Deserialize)]
pub struct CorpusCase {
    pub file: String,
    pub light: bool,
    /// after loading, every worksheet gets an external and an internal hyperlink, a comment
    /// and a table through the public API (exercises the numbering of relationships next to
    /// the drawings, images, charts, OLE objects and printer settings the file already has)
    #[serde(default)]
    pub edit: bool,
    /// replay only the discrepancies with this key (witness of one finding)
    #[serde(default)]
    pub key: Option<String>,
}

pub struct CorpusResult {
    pub discs: Vec<Disc>,
    pub nontrivial: bool,
    pub reader_differs: usize,
    pub sheets: usize,
}

fn edit_book(book: &mut Spreadsheet, odec: &Decoded) {
    for (i, ws) in book.get_sheet_collection_mut().iter_mut().enumerate() {
        if odec.sheets.get(i).map_or(true, |s| s.kind != "worksheet") {
            continue;
        }
        ws.get_cell_mut((50u32, 500u32)).get_hyperlink_mut().set_url(format!("https://example.com/c02?sheet={}&x=<y>", i));
        ws.get_cell_mut((51u32, 500u32)).get_hyperlink_mut().set_url("A1").set_location(true);
        ws.get_cell_mut((49u32, 500u32)).get_hyperlink_mut().set_url(format!("https://example.org/{}/first", i));
        let mut co = umya_spreadsheet::Comment::default();
        co.new_comment((52u32, 500u32));
        co.set_author("C02 editor");
        co.set_text_string("added by the check");
        ws.add_comments(co);
        let mut t = Table::new(&format!("C02AddedTable{}", i), ((60u32, 600u32), (62u32, 603u32)));
        for c in ["alpha", "beta & gamma", "delta"] {
            t.add_column(TableColumn::new(c));
        }
        ws.add_table(t);
    }
}

pub fn check_corpus_file(file: &str, light: bool, edit: bool) -> Result<CorpusResult, String> {
    let path = format!("{}/{}", crate::props::c03::corpus_dir(), file);
    let bytes = std::fs::read(&path).map_err(|e| format!("cannot read {}: {}", path, e))?;
    let (oviol, odec) = pyworker::both_path(&path);
    let odec = odec.map_err(|e| format!("original not decodable: {}", e))?;
    if !oviol.is_empty() {
        return Err(format!("validator rejects the ORIGINAL: {:?}", oviol.iter().map(|v| &v.rule).collect::<Vec<_>>()));
    }
    let mut discs = Vec::new();
    let mut book = match guard(|| load(&bytes)) {
        Err(p) => return Err(format!("load panics (C03/C11): {}", p.short())),
        Ok(Err(e)) => return Err(format!("load error: {}", e)),
        Ok(Ok(b)) => b,
    };
    let reader_differs = diff(&model_of_decoded(&odec), &model_of_book(&book)).len();
    if edit {
        if let Err(p) = guard(|| edit_book(&mut book, &odec)) {
            return Ok(CorpusResult {
                discs: vec![Disc { key: format!("edit/panic:{}", p.site()), detail: p.short() }],
                nontrivial: true,
                reader_differs,
                sheets: odec.sheets.len(),
            });
        }
    }
    let model = match guard(|| model_of_book(&book)) {
        Ok(m) => m,
        Err(p) => return Err(format!("getter panics: {}", p.short())),
    };
    // calibration: a count rule that fires on the producer's original is not applied
    let mut ocount = Vec::new();
    count_discs(&odec, &mut ocount);
    count_attr_discs(&bytes, &mut ocount);
    if std::env::var("VERIF_C02_DUMP").is_ok() {
        for d in &ocount {
            eprintln!("CALIBRATE original {} | {} | {}", file, d.key, d.detail);
        }
    }
    let ocount: BTreeSet<String> = ocount.into_iter().map(|d| d.key).collect();
    let saved = match guard(|| save(&book, light)) {
        Ok(Ok(b)) => b,
        Ok(Err(e)) => {
            disc(&mut discs, "save/error", e);
            Vec::new()
        }
        Err(p) => {
            disc(&mut discs, format!("save/panic:{}", p.site()), p.short());
            Vec::new()
        }
    };
    let mut nontrivial = odec.sheets.len() >= 2;
    if !saved.is_empty() {
        let macros = book.get_macros_code();
        let (d, dec) = judge_bytes(&saved, &model, Some(macros));
        discs.extend(d.into_iter().filter(|d| !ocount.contains(&d.key)));
        if let Some(dec) = dec {
            nontrivial |= dec.sheets.len() >= 2
                || dec.sheets.iter().any(|s| s.hyperlinks.iter().any(|h| h.rid.is_some()) || !s.comments.is_empty() || !s.tables.is_empty())
                || dec.styles.counts.cell_xfs > 1
                || dec.parts.iter().any(|p| p.contains("/drawings/") || p.contains("/media/") || p.contains("vbaProject"));
        }
    }
    Ok(CorpusResult {
        discs,
        nontrivial,
        reader_differs,
        sheets: odec.sheets.len(),
    })
}

fn extra(ctx: &Ctx) {
    if !pyworker::ping() {
        eprintln!("HARNESS-ERROR: python worker does not answer");
        std::process::exit(2);
    }
    let files = crate::props::c04::corpus_files();
    let mut jobs: Vec<(String, bool, bool)> = Vec::new();
    for f in &files {
        let heavy = crate::props::c04::HEAVY.contains(&f.as_str());
        if !(heavy && ctx.tier == Tier::Quick) {
            jobs.push((f.clone(), true, false));
            jobs.push((f.clone(), false, true));
            jobs.push((f.clone(), true, true));
        }
    }
    // the heavy files first (they decide the wall time), then the rest
    let mut first: Vec<(String, bool, bool)> = files.iter().map(|f| (f.clone(), false, false)).collect();
    first.sort_by_key(|j| !crate::props::c04::HEAVY.contains(&j.0.as_str()));
    first.extend(jobs);
    let jobs = first;
    let results: Vec<((String, bool, bool), Result<CorpusResult, String>)> = jobs.par_iter().map(|j| (j.clone(), check_corpus_file(&j.0, j.1, j.2))).collect();
    let mut skipped = Vec::new();
    for ((file, light, edit), r) in results {
        match r {
            Err(why) => {
                skipped.push(json!({"file": file, "light": light, "edit": edit, "why": why}));
                ctx.add_class("corpus/skipped", 1);
            }
            Ok(res) => {
                ctx.count_case(fnv(format!("{}|{}|{}", file, light, edit).as_bytes()), res.nontrivial);
                ctx.add_class(if edit { "corpus/edited-x-writers" } else { "corpus/files-x-writers" }, 1);
                if res.reader_differs > 0 && !light && !edit {
                    ctx.add_class("corpus/reader-differs-from-original(items)", res.reader_differs as u64);
                    ctx.add_excluded("corpus/reader-differs-from-original (C03)", res.reader_differs as u64);
                }
                if res.nontrivial {
                    ctx.add_sample(json!({"sub": "corpus", "case": {"file": file, "light": light, "edit": edit}, "sheets": res.sheets}));
                }
                if std::env::var("VERIF_C02_DUMP").is_ok() {
                    for d in &res.discs {
                        eprintln!("DUMP {} light={} edit={} | {} | {}", file, light, edit, d.key, truncate(&d.detail, 300));
                    }
                }
                let mut seen: BTreeSet<String> = BTreeSet::new();
                for d in res.discs {
                    if seen.insert(d.key.clone()) {
                        ctx.judge("corpus", &CorpusCase { file: file.clone(), light, edit, key: Some(d.key.clone()) }, Verdict::fail(d.key.clone(), d.detail.clone()));
                    }
                }
            }
        }
    }
    ctx.set_extra("corpus_skipped", Value::Array(skipped));
}

fn replay_extra(_ctx: &Ctx, sub: &str, case: &Value) -> Option<Verdict> {
    match sub {
        "corpus" => {
            let c: CorpusCase = serde_json::from_value(case.clone()).ok()?;
            match check_corpus_file(&c.file, c.light, c.edit) {
                Err(why) => Some(Verdict::Discard(why)),
                Ok(res) => {
                    let discs: Vec<Disc> = res.discs.into_iter().filter(|d| c.key.as_ref().map_or(true, |k| &d.key == k)).collect();
                    Some(verdict_of(&discs))
                }
            }
        }
        _ => None,
    }
}
