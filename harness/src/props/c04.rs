//! C04 — re-saving is stable: no drift, no loss of untouched content.
use super::Prop;
use crate::dump::*;
use crate::engine::*;
use crate::gen::wb::*;
use crate::props::c01::{load, save};
use proptest::prelude::*;
use serde::{Deserialize, Serialize};
use serde_json::{json, Value};
use std::collections::BTreeMap;
use std::io::Read;
use umya_spreadsheet::Spreadsheet;

pub fn prop() -> Prop {
    Prop {
        id: "C04",
        describe,
        subs,
        extra,
        replay_extra,
        watchdog_s: (1800, 14400),
    }
}

fn describe(ctx: &Ctx) {
    ctx.rule("sources: every readable file of /repo/tests/test_files (plain, and with generated single-cell edits incl. edits on a lazily reopened first re-save), generated workbooks (cells of all kinds, formulas, a share placed through set_cell), styled workbooks (C05's case type: style families, setter histories, row/column settings), annotated workbooks (C06's spec), Excel-2010 (x14) data validations, sheets whose only drawing objects are one-cell-anchored shapes; chain orig -> L0 -> save -> L1 -> save -> L2 -> save -> L3 in memory; oracles: (i) dump(L1)==dump(L2)==dump(L3) on the full public-getter dump (styles through the effective-style projection), (ii) semantic projection + C06 keyed annotation projection equal between L0 and L1, (iii) a single-cell edit changes exactly that cell (plus the row/column entry the API creates for it), (iv) saving the same workbook twice gives the same part names and the same reloaded content, (v) Python legs: every generation passes the independent validator, decode(orig) ~ decode(gen1) on the resolved projection incl. styles, decode(gen1)==decode(gen2)==decode(gen3) modulo numbering. Non-trivial = source has a formula, hyperlink, non-default style, or text needing XML escaping (x14/shape sources always); distinct by (source, edit)");
    ctx.assume("dump = Debug rendering of what public getters return, keyed by sheet/cell/row/column/part; cells that show nothing (no value, no formula, default style, no hyperlink) are dropped (declared normalisation)");
    ctx.assume("the style table (xf numbering), shared-string indexes and relationship ids are not part of the dump: renumbering is a declared normalisation");
}

pub fn corpus_dir() -> String {
    std::env::var("VERIF_CORPUS").unwrap_or_else(|_| "/repo/tests/test_files".to_string())
}

pub fn corpus_files() -> Vec<String> {
    let mut v: Vec<String> = std::fs::read_dir(corpus_dir())
        .map(|rd| {
            rd.flatten()
                .map(|e| e.file_name().to_string_lossy().to_string())
                .filter(|n| (n.ends_with(".xlsx") || n.ends_with(".xlsm")) && n != "aaa_large_string.xlsx")
                .collect()
        })
        .unwrap_or_default();
    v.sort();
    v
}

pub fn part_names(bytes: &[u8]) -> Result<Vec<String>, String> {
    let mut z = zip::ZipArchive::new(std::io::Cursor::new(bytes)).map_err(|e| format!("{:?}", e))?;
    let mut v = Vec::new();
    for i in 0..z.len() {
        let f = z.by_index(i).map_err(|e| format!("{:?}", e))?;
        if !f.name().ends_with('/') {
            v.push(f.name().to_string());
        }
    }
    v.sort();
    Ok(v)
}

pub fn parts(bytes: &[u8]) -> Result<BTreeMap<String, Vec<u8>>, String> {
    let mut z = zip::ZipArchive::new(std::io::Cursor::new(bytes)).map_err(|e| format!("{:?}", e))?;
    let mut m = BTreeMap::new();
    for i in 0..z.len() {
        let mut f = z.by_index(i).map_err(|e| format!("{:?}", e))?;
        if f.name().ends_with('/') {
            continue;
        }
        let mut b = Vec::new();
        f.read_to_end(&mut b).map_err(|e| format!("{:?}", e))?;
        m.insert(f.name().to_string(), b);
    }
    Ok(m)
}

#[derive(Debug, Clone, Serialize, Deserialize)]
pub struct Edit {
    pub sheet_raw: u16,
    /// pick an existing cell (by raw index) or a new position
    pub existing_raw: Option<u16>,
    pub col: u32,
    pub row: u32,
    pub value: ValueSpec,
}

#[derive(Debug, Clone, Serialize, Deserialize)]
pub enum Source {
    Corpus(String),
    Generated(WbSpec),
    /// styled cells, rows and columns (the case type of C05)
    Styled(crate::props::c05::Case),
    /// annotations of every kind (the spec of C06)
    Annot(crate::gen::annot::AnnotWb),
    /// Excel-2010 (x14, extLst) data validations with one or two bounds on another sheet
    X14(Vec<X14Spec>),
    /// a sheet whose only drawing objects are one-cell-anchored shapes (text boxes), at the
    /// given (col,row) cells; the bool adds a second sheet that also has a two-cell object
    Shapes(Vec<(u32, u32)>),
}

#[derive(Debug, Clone, Serialize, Deserialize)]
pub struct X14Spec {
    pub kind: u8,
    pub op: u8,
    pub f1: (u32, u32),
    pub f2: Option<(u32, u32)>,
    pub at: (u32, u32, u32, u32),
}

fn build_x14(items: &[X14Spec]) -> Spreadsheet {
    use umya_spreadsheet::structs::office::excel::Formula;
    use umya_spreadsheet::structs::office2010::excel::{DataValidation, DataValidationForumla1, DataValidationForumla2, DataValidations};
    use umya_spreadsheet::{Address, DataValidationOperatorValues as Op, DataValidationValues as Ty};
    let formula = |c: (u32, u32)| {
        let mut a = Address::default();
        a.set_address(format!("Limits!${}${}", crate::props::c17::ref_col_name(c.0), c.1));
        let mut f = Formula::default();
        f.set_value(a);
        f
    };
    // not new_file(): it calls Worksheet::set_active_cell, which is C06's open finding
    // worksheet-active-cell/lost
    let mut book = umya_spreadsheet::new_file_empty_worksheet();
    book.new_sheet("Sheet1").unwrap();
    book.new_sheet("Limits").unwrap();
    let mut list = DataValidations::default();
    for x in items {
        let mut dv = DataValidation::default();
        let ty = [Ty::Whole, Ty::Decimal, Ty::Date, Ty::TextLength, Ty::Time][x.kind as usize % 5].clone();
        let op = [Op::Between, Op::NotBetween, Op::GreaterThan, Op::LessThanOrEqual, Op::Equal][x.op as usize % 5].clone();
        dv.set_type(ty).set_operator(op).set_allow_blank(true);
        let mut f1 = DataValidationForumla1::default();
        f1.set_value(formula(x.f1));
        dv.set_formula1(f1);
        if let Some(c) = x.f2 {
            let mut f2 = DataValidationForumla2::default();
            f2.set_value(formula(c));
            dv.set_formula2(f2);
        }
        let (c1, r1, c2, r2) = x.at;
        dv.get_reference_sequence_mut().set_sqref(format!(
            "{}{}:{}{}",
            crate::props::c17::ref_col_name(c1.min(c2)),
            r1.min(r2),
            crate::props::c17::ref_col_name(c1.max(c2)),
            r1.max(r2)
        ));
        list.add_data_validation_list(dv);
    }
    let ws = book.get_sheet_by_name_mut("Sheet1").unwrap();
    ws.get_cell_mut("A1").set_value_number(1);
    if !items.is_empty() {
        ws.set_data_validations_2010(list);
    }
    book
}

fn build_shapes(cells: &[(u32, u32)]) -> Spreadsheet {
    use umya_spreadsheet::structs::drawing::spreadsheet::{MarkerType, OneCellAnchor, Shape};
    let mut book = umya_spreadsheet::new_file_empty_worksheet();
    book.new_sheet("Sheet1").unwrap();
    let ws = book.get_sheet_by_name_mut("Sheet1").unwrap();
    ws.get_cell_mut("A1").set_value_number(1);
    for (k, (col, row)) in cells.iter().enumerate() {
        let mut marker = MarkerType::default();
        marker.set_coordinate(format!("{}{}", crate::props::c17::ref_col_name(*col), row));
        let mut shape = Shape::default();
        shape
            .get_non_visual_shape_properties_mut()
            .get_non_visual_drawing_properties_mut()
            .set_id(2 + k as u32)
            .set_name(format!("TextBox {}", k + 1));
        let mut anchor = OneCellAnchor::default();
        anchor.set_from_marker(marker);
        anchor.get_extent_mut().set_cx(1905000 + 1000 * k as i64).set_cy(952500);
        anchor.set_shape(shape);
        ws.get_worksheet_drawing_mut().add_one_cell_anchor_collection(anchor);
    }
    book
}

fn shapes_strategy(_t: Tier) -> BoxedStrategy<Case> {
    (prop::collection::vec((1u32..=8, 1u32..=20), 1..=3), prop::option::weighted(0.3, edit_strategy()), any::<bool>())
        .prop_map(|(cells, edit, light)| Case {
            source: Source::Shapes(cells),
            edit,
            light,
            lazy_edit: false,
        })
        .boxed()
}

fn x14_strategy(_t: Tier) -> BoxedStrategy<Case> {
    let item = (0u8..5, 0u8..5, (1u32..=6, 1u32..=9), prop::option::weighted(0.6, (1u32..=6, 1u32..=9)), (1u32..=8, 1u32..=20, 1u32..=8, 1u32..=20))
        .prop_map(|(kind, op, f1, f2, at)| X14Spec { kind, op, f1, f2, at });
    (prop::collection::vec(item, 1..=4), prop::option::weighted(0.3, edit_strategy()), any::<bool>())
        .prop_map(|(items, edit, light)| Case {
            source: Source::X14(items),
            edit,
            light,
            lazy_edit: false,
        })
        .boxed()
}

#[derive(Debug, Clone, Serialize, Deserialize)]
pub struct Case {
    pub source: Source,
    pub edit: Option<Edit>,
    pub light: bool,
    /// the edited workbook is opened lazily (only the edited sheet gets materialised)
    #[serde(default)]
    pub lazy_edit: bool,
}

fn edit_strategy() -> BoxedStrategy<Edit> {
    (
        any::<u16>(),
        prop::option::weighted(0.5, any::<u16>()),
        1u32..=30,
        1u32..=60,
        prop_oneof![
            3 => crate::gen::text::plain_text(20).prop_map(|s| ValueSpec::Text(if s.is_empty() { "edited".into() } else { s })),
            2 => finite_f64().prop_map(|f| ValueSpec::Number(Num(f))),
            1 => any::<bool>().prop_map(ValueSpec::Bool),
        ],
    )
        .prop_map(|(sheet_raw, existing_raw, col, row, value)| Edit {
            sheet_raw,
            existing_raw,
            col,
            row,
            value,
        })
        .boxed()
}

fn gen_strategy(t: Tier) -> BoxedStrategy<Case> {
    let (cells, text) = t.pick((25, 30), (60, 120));
    (wb_spec(3, cells, text), prop::option::weighted(0.7, edit_strategy()), any::<bool>())
        .prop_map(|(wb, edit, light)| Case {
            source: Source::Generated(wb),
            edit,
            light,
            lazy_edit: false,
        })
        .boxed()
}

/// Files whose chain of five saves and loads takes tens of seconds: in the quick tier they
/// run once (standard writer, no edit); the thorough tier treats them like all others.
pub const HEAVY: [&str; 4] = ["issue_216.xlsx", "issue_233.xlsx", "issue_188_3.xlsx", "aaa_large.xlsx"];

fn styled_strategy(t: Tier) -> BoxedStrategy<Case> {
    (crate::props::c05::small_case(t), prop::option::weighted(0.5, edit_strategy()), any::<bool>())
        .prop_map(|(c, edit, light)| Case {
            source: Source::Styled(c),
            edit,
            light,
            lazy_edit: false,
        })
        .boxed()
}

fn annot_strategy(t: Tier) -> BoxedStrategy<Case> {
    (crate::gen::annot::annot_wb(t, crate::gen::annot::Feat::CLEAN), prop::option::weighted(0.5, edit_strategy()), any::<bool>())
        .prop_map(|(wb, edit, light)| Case {
            source: Source::Annot(wb),
            edit,
            light,
            lazy_edit: false,
        })
        .boxed()
}

fn corpus_strategy(t: Tier) -> BoxedStrategy<Case> {
    // the heavy files run in the plain leg only (each chain of five saves and loads of such a
    // file holds gigabytes; 16 of them at once exhaust the machine)
    let _ = t;
    let mut files = corpus_files();
    files.retain(|f| !HEAVY.contains(&f.as_str()));
    (prop::sample::select(files), edit_strategy(), any::<bool>(), any::<bool>())
        .prop_map(|(f, edit, light, lazy_edit)| Case {
            source: Source::Corpus(f),
            edit: Some(edit),
            light,
            lazy_edit,
        })
        .boxed()
}

/// The Python leg runs on every generated chain and on every corpus file once (standard
/// writer, no edit); in the quick tier the files whose decode takes seconds are left out.
fn python_leg_applies(case: &Case) -> bool {
    match &case.source {
        Source::Generated(_) | Source::Styled(_) | Source::Annot(_) | Source::X14(_) | Source::Shapes(_) => true,
        Source::Corpus(name) => {
            let quick = std::env::var("VERIF_TIER").map(|t| t != "thorough").unwrap_or(true);
            case.edit.is_none() && !case.light && !(quick && (HEAVY.contains(&name.as_str()) || name == "issue_194_2.xlsx"))
        }
    }
}

fn g<R>(what: &str, f: impl FnOnce() -> Result<R, String>) -> Result<R, Verdict> {
    match guard(f) {
        Ok(Ok(r)) => Ok(r),
        Ok(Err(e)) => Err(Verdict::fail(format!("{}/error", what), e)),
        Err(p) => Err(Verdict::fail(format!("{}/panic:{}", what, p.site()), p.short())),
    }
}

fn loc_class(loc: &str) -> String {
    // "sheet[0]/cell/(3, 4)" -> "cell"; "sheet[1]/part/"comments"" -> "part:comments"; "book/"theme"" -> "book:theme"
    let parts: Vec<&str> = loc.split('/').collect();
    let strip = |s: &str| s.trim_matches('"').to_string();
    if parts[0] == "book" {
        return format!("book:{}", strip(parts.get(1).unwrap_or(&"")));
    }
    match parts.get(1) {
        Some(&"part") => format!("part:{}", strip(parts.get(2).unwrap_or(&""))),
        Some(k) => k.to_string(),
        None => parts[0].to_string(),
    }
}

fn source_nontrivial(d: &BookDump) -> bool {
    d.sheets.iter().any(|s| {
        s.cells.values().any(|c| {
            !c.contains("formula=None") || !c.contains("hyperlink=None") || c.contains('&') || c.contains('<') || c.contains("font: Some") || c.contains("fill: Some")
        })
    })
}

/// Semantic comparison of an original with its first re-save.  For files from other
/// producers one difference is expected and belongs to C03's open finding
/// `implicit-xf0/style-not-applied`: a cell whose style equals the file's own default record
/// `cellXfs[0]` is (correctly) written without `s=`, and the library's reader then shows the
/// library default instead of the file's record.  The written file is right; such a cell
/// (row, column) is skipped here and counted, every other difference is reported.
fn sem_diff(a: &BookDump, b: &BookDump, foreign: bool, obs: &mut Obs) -> Option<(String, String, String)> {
    if !foreign {
        return diff_books(a, b);
    }
    let default_style = style_text(&umya_spreadsheet::Style::default());
    let strip = |d: &BookDump| -> BookDump {
        let mut d = d.clone();
        for s in d.sheets.iter_mut() {
            // a blank cell that carries only the file's default record comes back as no cell
            s.cells.retain(|_, v| !v.starts_with("kind=blank text=\"\" formula=\"\" link=None"));
            for m in [&mut s.cells] {
                for v in m.values_mut() {
                    if let Some(i) = v.rfind(" style=") {
                        v.truncate(i);
                    }
                }
            }
            for m in [&mut s.rows, &mut s.cols] {
                for v in m.values_mut() {
                    if let Some(i) = v.rfind(" style=") {
                        v.truncate(i);
                    }
                }
            }
        }
        d
    };
    // everything but styles, strictly
    if let Some(d) = diff_books(&strip(a), &strip(b)) {
        return Some(d);
    }
    // styles: strict unless the re-saved side shows the library default
    let style_of = |v: &str| v.rfind(" style=").map(|i| v[i + 7..].to_string()).unwrap_or_default();
    for (i, (x, y)) in a.sheets.iter().zip(b.sheets.iter()).enumerate() {
        for (what, ma, mb) in [("cell", &x.cells, &y.cells)] {
            for (k, va) in ma {
                if let Some(vb) = mb.get(k) {
                    let (sa, sb) = (style_of(va), style_of(vb));
                    if sa != sb {
                        if sb == default_style {
                            obs.class("tolerated:implicit-xf0");
                            continue;
                        }
                        return Some((format!("sheet[{}]/{}/{:?}", i, what, k), va.clone(), vb.clone()));
                    }
                }
            }
        }
        for (what, ma, mb) in [("row", &x.rows, &y.rows), ("col", &x.cols, &y.cols)] {
            for (k, va) in ma {
                if let Some(vb) = mb.get(k) {
                    let (sa, sb) = (style_of(va), style_of(vb));
                    if sa != sb {
                        if sb == default_style {
                            obs.class("tolerated:implicit-xf0");
                            continue;
                        }
                        return Some((format!("sheet[{}]/{}/{:?}", i, what, k), va.clone(), vb.clone()));
                    }
                }
            }
        }
    }
    None
}

pub fn check_case(case: &Case, obs: &mut Obs) -> Verdict {
    let light = case.light;
    let mut orig_bytes: Option<Vec<u8>> = None;
    let l0 = match &case.source {
        Source::Corpus(name) => {
            obs.class(format!("corpus:{}", name));
            let bytes = match std::fs::read(format!("{}/{}", corpus_dir(), name)) {
                Ok(b) => b,
                Err(e) => return Verdict::Discard(format!("cannot read corpus file {}: {}", name, e)),
            };
            orig_bytes = Some(bytes.clone());
            match g("load-orig", || load(&bytes)) {
                Ok(b) => b,
                // an unreadable corpus file is outside "readable xlsx file"
                Err(_) => return Verdict::Discard(format!("corpus file {} not readable", name)),
            }
        }
        Source::Generated(spec) => {
            obs.class("generated");
            match guard(|| build(spec)) {
                Ok(b) => b,
                Err(p) => return Verdict::fail(format!("build/panic:{}", p.site()), p.short()),
            }
        }
        Source::Styled(c) => {
            obs.class("styled");
            match guard(|| crate::props::c05::build_all(c)) {
                Ok(b) => b,
                Err(p) => return Verdict::fail(format!("build/panic:{}", p.site()), p.short()),
            }
        }
        Source::Annot(wb) => {
            obs.class("annotated");
            match guard(|| crate::gen::annot::build(wb)) {
                Ok(b) => b,
                Err(p) => return Verdict::fail(format!("build/panic:{}", p.site()), p.short()),
            }
        }
        Source::Shapes(cells) => {
            obs.class("one-cell-anchored-shapes");
            obs.nontrivial(true);
            match guard(|| build_shapes(cells)) {
                Ok(b) => b,
                Err(p) => return Verdict::fail(format!("build/panic:{}", p.site()), p.short()),
            }
        }
        Source::X14(items) => {
            obs.class("x14-validations");
            obs.nontrivial(true);
            match guard(|| build_x14(items)) {
                Ok(b) => b,
                Err(p) => return Verdict::fail(format!("build/panic:{}", p.site()), p.short()),
            }
        }
    };
    let src = match &case.source {
        Source::Corpus(_) => "corpus",
        Source::Generated(_) => "generated",
        Source::Styled(_) => "styled",
        Source::Annot(_) => "annotated",
        Source::X14(_) => "x14",
        Source::Shapes(_) => "shapes",
    };
    let d0 = dump_book(&l0);
    obs.nontrivial(source_nontrivial(&d0));
    let b1 = match g("save1", || save(&l0, light)) {
        Ok(b) => b,
        Err(v) => return v,
    };
    let l1 = match g("load1", || load(&b1)) {
        Ok(b) => b,
        Err(v) => return v,
    };
    let d1 = dump_book(&l1);
    // (ii) orig ~ gen1 (for generated workbooks L0 is the built model itself)
    if let Some((loc, a, b)) = sem_diff(&sem_book(&l0), &sem_book(&l1), matches!(case.source, Source::Corpus(_)), obs) {
        return Verdict::fail(
            format!("{}/gen0-vs-gen1/{}", src, loc_class(&loc)),
            format!("{}: original vs one re-save: {}", loc, focus_diff(&a, &b)),
        );
    }
    // annotations of every kind: C06's projection (sets keyed by anchor cell / name)
    match guard(|| crate::props::c06::diff(&crate::props::c06::project(&l0), &crate::props::c06::project(&l1))) {
        Ok(fails) => {
            if let Some((key, detail)) = fails.into_iter().next() {
                return Verdict::fail(format!("{}/gen0-vs-gen1/annot:{}", src, key), detail);
            }
        }
        Err(p) => return Verdict::fail(format!("{}/gen0-vs-gen1/projection-panic:{}", src, p.site()), p.short()),
    }
    // (i) fixed point
    let b2 = match g("save2", || save(&l1, light)) {
        Ok(b) => b,
        Err(v) => return v,
    };
    let l2 = match g("load2", || load(&b2)) {
        Ok(b) => b,
        Err(v) => return v,
    };
    let d2 = dump_book(&l2);
    if let Some((loc, a, b)) = diff_books(&d1, &d2) {
        return Verdict::fail(
            format!("{}/gen1-vs-gen2/{}", src, loc_class(&loc)),
            format!("{}: gen1 vs gen2: {}", loc, focus_diff(&a, &b)),
        );
    }
    let b3 = match g("save3", || save(&l2, light)) {
        Ok(b) => b,
        Err(v) => return v,
    };
    let l3 = match g("load3", || load(&b3)) {
        Ok(b) => b,
        Err(v) => return v,
    };
    let d3 = dump_book(&l3);
    if let Some((loc, a, b)) = diff_books(&d2, &d3) {
        return Verdict::fail(
            format!("{}/gen2-vs-gen3/{}", src, loc_class(&loc)),
            format!("{}: gen2 vs gen3: {}", loc, focus_diff(&a, &b)),
        );
    }
    match (part_names(&b2), part_names(&b3)) {
        (Ok(n2), Ok(n3)) => {
            if n2 != n3 {
                return Verdict::fail(format!("{}/part-names-drift", src), format!("gen2 parts {:?} | gen3 parts {:?}", n2, n3));
            }
        }
        (Err(e), _) | (_, Err(e)) => return Verdict::fail(format!("{}/zip-unreadable", src), e),
    }
    // Python leg: an independent decoder on the bytes of the chain (validity of gen1..3,
    // orig ~ gen1 incl. resolved styles, gen1 == gen2 == gen3 exactly, table sizes stable)
    if python_leg_applies(case) {
        obs.class("python-leg");
        let big = d0.sheets.iter().map(|s| s.cells.len()).sum::<usize>() > crate::props::pyleg::BIG_CELLS;
        if let Err(d) = crate::props::pyleg::c04_leg(src, orig_bytes.as_deref(), &b1, &b2, &b3, big) {
            return Verdict::fail(d.key, d.detail);
        }
    }
    // (iv) saving the same unchanged workbook twice
    let b1b = match g("save1-again", || save(&l0, light)) {
        Ok(b) => b,
        Err(v) => return v,
    };
    match (part_names(&b1), part_names(&b1b)) {
        (Ok(a), Ok(b)) => {
            if a != b {
                return Verdict::fail(format!("{}/two-saves/part-names", src), format!("first {:?} | second {:?}", a, b));
            }
        }
        (Err(e), _) | (_, Err(e)) => return Verdict::fail(format!("{}/zip-unreadable", src), e),
    }
    let l1b = match g("load1-again", || load(&b1b)) {
        Ok(b) => b,
        Err(v) => return v,
    };
    if let Some((loc, a, b)) = diff_books(&d1, &dump_book(&l1b)) {
        return Verdict::fail(
            format!("{}/two-saves/{}", src, loc_class(&loc)),
            format!("{}: first vs second save: {}", loc, focus_diff(&a, &b)),
        );
    }
    // (iii) single-cell edit
    if let Some(e) = &case.edit {
        let mut le = if case.lazy_edit {
            // the first re-save, opened lazily: only the edited sheet gets materialised
            obs.class("edit:lazy");
            match g("load1-lazy", || umya_spreadsheet::reader::xlsx::read_reader(std::io::Cursor::new(b1.clone()), false).map_err(|e| format!("{:?}", e))) {
                Ok(b) => b,
                Err(v) => return v,
            }
        } else {
            l0
        };
        let n = le.get_sheet_count();
        if n == 0 {
            return Verdict::Pass;
        }
        let si = pick_idx(e.sheet_raw, n);
        let (col, row, is_new) = {
            let mut existing: Vec<(u32, u32)> = d0.sheets[si].cells.keys().cloned().collect();
            existing.sort();
            match e.existing_raw {
                Some(r) if !existing.is_empty() => {
                    let (row, col) = existing[pick_idx(r, existing.len())];
                    (col, row, false)
                }
                _ => {
                    let is_new = !d0.sheets[si].cells.contains_key(&(e.row, e.col));
                    (e.col, e.row, is_new)
                }
            }
        };
        obs.class(if is_new { "edit:new-cell" } else { "edit:existing-cell" });
        if let Err(p) = guard(|| {
            let ws = le.get_sheet_mut(&si).unwrap();
            let cell = ws.get_cell_mut((col, row));
            apply_value(cell, &e.value);
        }) {
            return Verdict::fail(format!("edit/panic:{}", p.site()), p.short());
        }
        let be = match g("save-edited", || save(&le, light)) {
            Ok(b) => b,
            Err(v) => return v,
        };
        let lr = match g("load-edited", || load(&be)) {
            Ok(b) => b,
            Err(v) => return v,
        };
        let dr = dump_book(&lr);
        let detailed = all_diffs_detailed(&d1, &dr, 12);
        let diffs: Vec<String> = detailed.iter().map(|d| d.0.clone()).collect();
        let cell_loc = format!("sheet[{}]/cell/{:?}", si, (row, col));
        let row_loc = format!("sheet[{}]/row/{:?}", si, row);
        let col_loc = format!("sheet[{}]/col/{:?}", si, col);
        let dims_loc = format!("sheet[{}]/part/\"sheet_format_properties\"", si);
        for dloc in &diffs {
            // get_cell_mut documents that it creates the row and the column entry of the cell
            // it returns when they do not exist yet (also for a cell that already exists in
            // a loaded file without such entries)
            let allowed = dloc == &cell_loc || dloc == &row_loc || dloc == &col_loc || dloc == &dims_loc;
            if !allowed {
                return Verdict::fail(
                    format!("{}/edit-not-local/{}", src, loc_class(dloc)),
                    format!(
                        "edit of {} changed {} as well: {} (all differences: {:?})",
                        cell_loc,
                        dloc,
                        detailed.iter().find(|d| &d.0 == dloc).map(|d| d.1.clone()).unwrap_or_default(),
                        diffs
                    ),
                );
            }
        }
        // the edit itself must be present
        let got = lr.get_sheet(&si).and_then(|ws| ws.get_cell((col, row)).map(|c| c.get_value().to_string()));
        let want = e.value.text();
        if got.as_deref().unwrap_or("") != want {
            return Verdict::fail(format!("{}/edit-lost", src), format!("{} should show {:?}, shows {:?}", cell_loc, want, got));
        }
    }
    Verdict::Pass
}

fn extra(ctx: &Ctx) {
    // every corpus file once without an edit, deterministic order
    use rayon::prelude::*;
    let files = corpus_files();
    ctx.add_class("corpus-files", files.len() as u64);
    let results: Vec<(Case, Verdict, bool)> = files
        .par_iter()
        .flat_map(|f| {
            let variants: Vec<bool> = if ctx.tier == Tier::Quick && HEAVY.contains(&f.as_str()) { vec![false] } else { vec![false, true] };
            variants
                .into_iter()
                .map(|light| {
                    let case = Case {
                        source: Source::Corpus(f.clone()),
                        edit: None,
                        light,
                        lazy_edit: false,
                    };
                    let mut obs = Obs::default();
                    let t0 = std::time::Instant::now();
                    let v = match guard(|| check_case(&case, &mut obs)) {
                        Ok(v) => v,
                        Err(p) => Verdict::fail(format!("harness-panic:{}", p.site()), p.short()),
                    };
                    if std::env::var("VERIF_TIMING").is_ok() {
                        eprintln!("timing {} light={} {:.2}s", f, light, t0.elapsed().as_secs_f64());
                    }
                    (case, v, obs.nontrivial)
                })
                .collect::<Vec<_>>()
        })
        .collect();
    for (case, v, nt) in results {
        ctx.count_case(fnv(serde_json::to_string(&case).unwrap().as_bytes()), nt);
        if nt {
            ctx.add_sample(json!({"sub":"corpus-plain","case":case}));
        }
        ctx.judge("corpus-plain", &case, v);
    }
}

fn replay_extra(_ctx: &Ctx, sub: &str, case: &Value) -> Option<Verdict> {
    if sub == "corpus-plain" {
        let c: Case = serde_json::from_value(case.clone()).ok()?;
        let mut obs = Obs::default();
        return Some(check_case(&c, &mut obs));
    }
    None
}

fn subs() -> Vec<Box<dyn DynSub>> {
    vec![
        Box::new(Sub {
            name: "corpus-edit",
            strategy: corpus_strategy,
            cases: (4, 60),
            check: check_case,
            max_shrink_iters: 300,
        }),
        Box::new(Sub {
            name: "generated",
            strategy: gen_strategy,
            cases: (60, 3000),
            check: check_case,
            max_shrink_iters: 3000,
        }),
        Box::new(Sub {
            name: "styled",
            strategy: styled_strategy,
            cases: (40, 2000),
            check: check_case,
            max_shrink_iters: 2000,
        }),
        Box::new(Sub {
            name: "shapes",
            strategy: shapes_strategy,
            cases: (10, 400),
            check: check_case,
            max_shrink_iters: 400,
        }),
        Box::new(Sub {
            name: "x14",
            strategy: x14_strategy,
            cases: (20, 800),
            check: check_case,
            max_shrink_iters: 800,
        }),
        Box::new(Sub {
            name: "annotated",
            strategy: annot_strategy,
            cases: (30, 1500),
            check: check_case,
            max_shrink_iters: 1500,
        }),
    ]
}

#[allow(dead_code)]
fn _unused(_: &Spreadsheet) {}
