use crate::engine::*;
use serde_json::Value;

pub struct Prop {
    pub id: &'static str,
    pub describe: fn(&Ctx),
    pub subs: fn() -> Vec<Box<dyn DynSub>>,
    /// hand-written enumerations (exhaustive legs, fault sweeps, corpus loops)
    pub extra: fn(&Ctx),
    pub replay_extra: fn(&Ctx, &str, &Value) -> Option<Verdict>,
    /// watchdog seconds (quick, thorough): exit 2 when exceeded
    pub watchdog_s: (u64, u64),
}

pub fn no_extra(_: &Ctx) {}
pub fn no_replay_extra(_: &Ctx, _: &str, _: &Value) -> Option<Verdict> {
    None
}
pub fn no_subs() -> Vec<Box<dyn DynSub>> {
    Vec::new()
}

pub mod c17;
pub mod c18;

pub fn all() -> Vec<Prop> {
    vec![c17::prop(), c18::prop()]
}

pub fn helper_main(_args: &[String]) -> i32 {
    2
}
