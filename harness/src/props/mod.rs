use crate::engine::*;
use serde_json::Value;

pub struct Prop {
    pub id: &'static str,
    pub describe: fn(&Ctx),
    pub subs: fn() -> Vec<Box<dyn DynSub>>,
    /// hand-written enumerations (exhaustive legs, fault sweeps, corpus loops)
    pub extra: fn(&Ctx),
    pub replay_extra: fn(&Ctx, &str, &Value) -> Option<Verdict>,
    /// watchdog seconds (quick, thorough): exit 2 when exceeded
    pub watchdog_s: (u64, u64),
}

pub fn no_extra(_: &Ctx) {}
pub fn no_replay_extra(_: &Ctx, _: &str, _: &Value) -> Option<Verdict> {
    None
}
pub fn no_subs() -> Vec<Box<dyn DynSub>> {
    Vec::new()
}

pub mod pyleg;
pub mod c01;
pub mod c02;
pub mod c03;
pub mod c04;
pub mod c05;
pub mod c06;
pub mod c07;
pub mod c08;
pub mod c09;
pub mod c10;
pub mod c11;
pub mod c12;
pub mod c13;
pub mod c14;
pub mod c15;
pub mod c16;
pub mod c17;
pub mod c18;
pub mod c19;
pub mod c20;

pub fn all() -> Vec<Prop> {
    vec![
        c01::prop(),
        c02::prop(),
        c03::prop(),
        c04::prop(),
        c05::prop(),
        c06::prop(),
        c07::prop(),
        c08::prop(),
        c09::prop(),
        c10::prop(),
        c11::prop(),
        c12::prop(),
        c13::prop(),
        c14::prop(),
        c15::prop(),
        c16::prop(),
        c17::prop(),
        c18::prop(),
        c19::prop(),
        c20::prop(),
    ]
}

/// `verif helper <name> <args..>`: single-purpose helper processes (fault injection,
/// crash points, ...).  Each property module that needs one adds an arm here.
pub fn helper_main(args: &[String]) -> i32 {
    match args.first().map(|s| s.as_str()) {
        Some("fault-save") => crate::gen::faultsave::helper_fault_save(&args[1..]),
        // C14/C15: vectors of the reference hash iterations, compared with Python hashlib
        // by pytools/offcrypto_selftest.py
        Some("offcrypto-vectors") => {
            if let Err(e) = crate::model::offcrypto::internal_selftest() {
                eprintln!("offcrypto self-test failed: {}", e);
                return 2;
            }
            for v in crate::model::offcrypto::selftest_vectors() {
                println!("{}", v);
            }
            0
        }
        Some("numcsv-selftest") => crate::model::selftest_numcsv::main(&args[1..]),
        _ => {
            eprintln!("unknown helper {:?}", args);
            2
        }
    }
}
