//! C15 — stub (not built yet; not registered in MANIFEST.json).
use super::*;

pub fn prop() -> Prop {
    Prop {
        id: "C15",
        describe: |_| {},
        subs: no_subs,
        extra: no_extra,
        replay_extra: no_replay_extra,
        watchdog_s: (900, 7200),
    }
}
