//! C15 — protection password hashes verify per ECMA-376; no clear-text password.
//!
//! Projection compared (exactly what the statement names): after `set_password` /
//! `set_workbook_password` / `set_revisions_password` the stored (algorithm name, salt,
//! spin count, hash) reproduce under the ECMA-376 iteration for the same password and do
//! not for another one; a second call stores a different salt; the raw-password getter is
//! empty; the saved XML carries the same four values, no legacy `password` /
//! `workbookPassword` / `revisionsPassword` attribute and not the clear text; the four
//! values and the empty raw getter survive save + reload.  Not demanded: particular
//! algorithm, salt length or spin count (any the reference implements is accepted).
use super::Prop;
use crate::engine::*;
use crate::gen::password::{password, pw_class, utf16_len, wrong_of};
use crate::model::offcrypto as oc;
use proptest::prelude::*;
use serde::{Deserialize, Serialize};
use std::io::Read;
use umya_spreadsheet::Spreadsheet;

pub fn prop() -> Prop {
    Prop {
        id: "C15",
        describe,
        subs,
        extra,
        replay_extra: super::no_replay_extra,
        watchdog_s: (900, 14400),
    }
}

fn describe(ctx: &Ctx) {
    ctx.rule("(kind in sheet/workbook/revisions, password, wrong-password mode, legacy attribute present before the call, target sheet, writer flavour); every case is judged on the model, on the saved XML and after reload. Non-trivial = non-ASCII or >15-character password, or a legacy hash attribute present before the call; distinct by serialized case");
    ctx.assume("reference = ecma_protection_hash in harness/src/model/offcrypto.rs (H0=H(salt||UTF-16LE(pw)), Hi=H(Hi-1||LE32(i))), cross-checked against Python hashlib in every run and against three Excel-written hashes of the corpus (sheet_lock.xlsx, book_lock.xlsx, password \"password\")");
    ctx.assume("clear-text search is applied to passwords of >= 8 UTF-16 units or with a non-ASCII character that do not already occur in the same workbook saved without the password (shorter ones occur in any XML by chance); the legacy-attribute and raw-getter checks apply to every case");
    ctx.assume("passwords are at most 255 characters (up to 510 UTF-16 code units with non-BMP characters; class over255units-password), no NUL / lone surrogates; wrong passwords include strings that agree with the password on its first 255 UTF-16 units / 255 UTF-16 bytes / 255 UTF-8 bytes");
    ctx.assume("salt freshness is judged by inequality of the salts of two calls (false alarm probability 2^-128)");
}

#[derive(Debug, Clone, Serialize, Deserialize)]
pub struct ProtCase {
    /// 0 sheet, 1 workbook, 2 revisions
    pub kind: u8,
    pub password: String,
    pub wrong_mode: u8,
    /// a legacy 16-bit hash attribute is on the object before the call
    pub legacy_before: bool,
    pub extra_sheets: u8,
    pub sheet_raw: u16,
    /// set a lock flag as the documented examples do
    pub flag: bool,
    pub light: bool,
}

const KINDS: [&str; 3] = ["sheet", "workbook", "revisions"];
const LEGACY_ATTR: [&str; 3] = ["password", "workbookPassword", "revisionsPassword"];
const ATTRS: [[&str; 4]; 3] = [
    ["algorithmName", "saltValue", "spinCount", "hashValue"],
    ["workbookAlgorithmName", "workbookSaltValue", "workbookSpinCount", "workbookHashValue"],
    ["revisionsAlgorithmName", "revisionsSaltValue", "revisionsSpinCount", "revisionsHashValue"],
];

#[derive(Debug, Clone, PartialEq, Eq)]
struct Stored {
    alg: String,
    salt: String,
    spin: u32,
    hash: String,
    raw: String,
}

fn stored(book: &Spreadsheet, kind: u8, si: usize) -> Option<Stored> {
    match kind {
        0 => book.get_sheet(&si)?.get_sheet_protection().map(|p| Stored {
            alg: p.get_algorithm_name().to_string(),
            salt: p.get_salt_value().to_string(),
            spin: *p.get_spin_count(),
            hash: p.get_hash_value().to_string(),
            raw: p.get_password_raw().to_string(),
        }),
        1 => book.get_workbook_protection().map(|p| Stored {
            alg: p.get_workbook_algorithm_name().to_string(),
            salt: p.get_workbook_salt_value().to_string(),
            spin: *p.get_workbook_spin_count(),
            hash: p.get_workbook_hash_value().to_string(),
            raw: p.get_workbook_password_raw().to_string(),
        }),
        _ => book.get_workbook_protection().map(|p| Stored {
            alg: p.get_revisions_algorithm_name().to_string(),
            salt: p.get_revisions_salt_value().to_string(),
            spin: *p.get_revisions_spin_count(),
            hash: p.get_revisions_hash_value().to_string(),
            raw: p.get_revisions_password_raw().to_string(),
        }),
    }
}

fn base_book(c: &ProtCase) -> (Spreadsheet, usize) {
    let mut book = umya_spreadsheet::new_file();
    for i in 0..c.extra_sheets {
        book.new_sheet(format!("Extra{}", i + 1)).unwrap();
    }
    let si = pick_idx(c.sheet_raw, 1 + c.extra_sheets as usize);
    book.get_sheet_mut(&0).unwrap().get_cell_mut("A1").set_value_string("content");
    if c.legacy_before {
        match c.kind {
            0 => {
                // as loaded from another producer's file: a legacy hash and a foreign spin count
                book.get_sheet_mut(&si).unwrap().get_sheet_protection_mut().set_password_raw("CC1A").set_spin_count(1000);
            }
            1 => {
                book.get_workbook_protection_mut().set_workbook_password_raw("83AF").set_workbook_spin_count(1000);
            }
            _ => {
                book.get_workbook_protection_mut().set_revisions_password_raw("DAA7").set_revisions_spin_count(1000);
            }
        }
    }
    (book, si)
}

fn set_pw(book: &mut Spreadsheet, c: &ProtCase, si: usize) {
    match c.kind {
        0 => {
            let p = book.get_sheet_mut(&si).unwrap().get_sheet_protection_mut();
            p.set_password(&c.password);
            if c.flag {
                p.set_sheet(true);
            }
        }
        1 => {
            let p = book.get_workbook_protection_mut();
            p.set_workbook_password(&c.password);
            if c.flag {
                p.set_lock_structure(true);
            }
        }
        _ => {
            let p = book.get_workbook_protection_mut();
            p.set_revisions_password(&c.password);
            if c.flag {
                p.set_lock_revision(true);
            }
        }
    }
}

fn save(book: &Spreadsheet, light: bool) -> Result<Vec<u8>, String> {
    let mut buf = std::io::Cursor::new(Vec::new());
    let r = if light {
        umya_spreadsheet::writer::xlsx::write_writer_light(book, &mut buf)
    } else {
        umya_spreadsheet::writer::xlsx::write_writer(book, &mut buf)
    };
    r.map_err(|e| format!("{:?}", e))?;
    Ok(buf.into_inner())
}

fn unzip(bytes: &[u8]) -> Result<Vec<(String, Vec<u8>)>, String> {
    let mut z = zip::ZipArchive::new(std::io::Cursor::new(bytes)).map_err(|e| e.to_string())?;
    let mut out = Vec::new();
    for i in 0..z.len() {
        let mut f = z.by_index(i).map_err(|e| e.to_string())?;
        let mut v = Vec::new();
        f.read_to_end(&mut v).map_err(|e| e.to_string())?;
        out.push((f.name().to_string(), v));
    }
    Ok(out)
}

fn contains(hay: &[u8], needle: &[u8]) -> bool {
    !needle.is_empty() && hay.len() >= needle.len() && hay.windows(needle.len()).any(|w| w == needle)
}

fn xml_escaped(s: &str) -> String {
    s.replace('&', "&amp;").replace('<', "&lt;").replace('>', "&gt;").replace('"', "&quot;").replace('\'', "&apos;")
}

/// The ways a clear-text password could sit in a part.
fn clear_forms(pw: &str) -> Vec<Vec<u8>> {
    let mut v = vec![pw.as_bytes().to_vec(), xml_escaped(pw).into_bytes(), oc::utf16le(pw)];
    v.push(pw.replace('&', "&amp;").replace('<', "&lt;").replace('>', "&gt;").replace('"', "&quot;").into_bytes());
    v.push(pw.replace('&', "&amp;").replace('<', "&lt;").into_bytes());
    v.sort();
    v.dedup();
    v
}

fn find_clear(parts: &[(String, Vec<u8>)], pw: &str) -> Option<String> {
    for (name, data) in parts {
        for f in clear_forms(pw) {
            if contains(data, &f) {
                return Some(name.clone());
            }
        }
    }
    None
}

/// Attributes of the first `<tag ...>` in a part, parsed by the harness's own XML reader.
fn element_attrs(part: &[u8], tag: &str) -> Result<Option<oc::XmlEl>, String> {
    let text = std::str::from_utf8(part).map_err(|e| e.to_string())?;
    let open = format!("<{}", tag);
    let mut from = 0;
    while let Some(p) = text[from..].find(&open) {
        let start = from + p;
        let after = text[start + open.len()..].chars().next();
        if matches!(after, Some(c) if c.is_whitespace() || c == '/' || c == '>') {
            let end = text[start..].find('>').ok_or("unterminated tag")? + start;
            let mut frag = text[start..=end].to_string();
            if !frag.ends_with("/>") {
                frag.pop();
                frag.push_str("/>");
            }
            return oc::parse_xml(&frag).map(Some);
        }
        from = start + open.len();
    }
    Ok(None)
}

fn prot_case(kind: u8) -> BoxedStrategy<ProtCase> {
    (password(true), any::<u8>(), prop::bool::weighted(0.35), 0u8..3, any::<u16>(), any::<bool>(), prop::bool::weighted(0.25))
        .prop_map(move |(password, wrong_mode, legacy_before, extra_sheets, sheet_raw, flag, light)| ProtCase {
            kind,
            password,
            wrong_mode,
            legacy_before,
            extra_sheets,
            sheet_raw,
            flag,
            light,
        })
        .boxed()
}

fn sheet_cases(_t: Tier) -> BoxedStrategy<ProtCase> {
    prot_case(0)
}
fn workbook_cases(_t: Tier) -> BoxedStrategy<ProtCase> {
    prot_case(1)
}
fn revisions_cases(_t: Tier) -> BoxedStrategy<ProtCase> {
    prot_case(2)
}

/// The statement's core: the stored values verify the password and no other.
fn verify_stored(kind: &str, s: &Stored, pw: &str, wrong: &str, stage: &str) -> Result<(), Verdict> {
    let pwc = pw_class(pw);
    let alg = oc::HashAlg::from_protection_name(&s.alg).ok_or_else(|| {
        Verdict::fail(
            format!("{}/algorithm-name", kind),
            format!("{}: algorithm name {:?} is not an ECMA-376 hash algorithm name the reference implements (SHA-256/384/512)", stage, s.alg),
        )
    })?;
    let salt = oc::b64_decode(&s.salt).map_err(|e| Verdict::fail(format!("{}/salt-not-base64", kind), format!("{}: salt {:?}: {}", stage, s.salt, e)))?;
    let hash = oc::b64_decode(&s.hash).map_err(|e| Verdict::fail(format!("{}/hash-not-base64", kind), format!("{}: hash {:?}: {}", stage, s.hash, e)))?;
    if salt.is_empty() {
        return Err(Verdict::fail(format!("{}/salt-empty", kind), format!("{}: no salt stored", stage)));
    }
    let want = oc::ecma_protection_hash(alg, &salt, pw, s.spin);
    if want != hash {
        // diagnosis only
        let mut why = String::new();
        if oc::agile_iterated_hash(alg, &salt, pw, s.spin) == hash {
            why = " (it is the file-encryption order H(LE32(i)||h))".into();
        } else if s.spin > 0 && oc::ecma_protection_hash(alg, &salt, pw, s.spin - 1) == hash {
            why = " (it is the hash after spinCount-1 iterations)".into();
        } else if oc::ecma_protection_hash(alg, &salt, pw, s.spin.saturating_add(1)) == hash {
            why = " (it is the hash after spinCount+1 iterations)".into();
        }
        return Err(Verdict::fail(
            format!("{}/{}/hash-mismatch", kind, pwc),
            format!(
                "{}: stored hash {} is not the ECMA-376 hash {} of the password ({} UTF-16 units) under {} / salt {} / spin {}{}",
                stage,
                s.hash,
                oc::b64_encode(&want),
                utf16_len(pw),
                s.alg,
                s.salt,
                s.spin,
                why
            ),
        ));
    }
    if oc::ecma_protection_hash(alg, &salt, wrong, s.spin) == hash {
        return Err(Verdict::fail(
            format!("{}/{}/other-password-verifies", kind, pwc),
            format!("{}: the stored hash of {:?} also verifies {:?}", stage, pw, wrong),
        ));
    }
    Ok(())
}

fn check_prot(c: &ProtCase, obs: &mut Obs) -> Verdict {
    let kind = KINDS[c.kind as usize % 3];
    let k = c.kind as usize % 3;
    obs.class(pw_class(&c.password));
    if c.legacy_before {
        obs.class("legacy-attribute-before");
    }
    obs.nontrivial(!c.password.is_ascii() || c.password.chars().count() > 15 || c.legacy_before);
    let wrong = wrong_of(&c.password, c.wrong_mode);

    // baseline: the same workbook without the password (for the clear-text search)
    let distinctive = utf16_len(&c.password) >= 8 || !c.password.is_ascii();
    let baseline_parts = if distinctive {
        let base = guard(|| {
            let mut cc = c.clone();
            cc.legacy_before = false;
            let (b, _) = base_book(&cc);
            save(&b, c.light)
        });
        match base {
            Ok(Ok(bytes)) => match unzip(&bytes) {
                Ok(p) => Some(p),
                Err(e) => return Verdict::Discard(format!("baseline save is not a zip: {}", e)),
            },
            Ok(Err(e)) => return Verdict::Discard(format!("baseline save failed: {}", e)),
            Err(p) => return Verdict::Discard(format!("baseline save panicked: {}", p.short())),
        }
    } else {
        None
    };
    let search_clear = match &baseline_parts {
        Some(p) => find_clear(p, &c.password).is_none(),
        None => false,
    };
    obs.class(if search_clear { "clear-text-searched" } else { "clear-text-search-skipped" });

    // the calls under test: two calls, the second one is the state that is judged
    let r = guard(|| {
        let (mut book, si) = base_book(c);
        set_pw(&mut book, c, si);
        let first = stored(&book, c.kind, si);
        set_pw(&mut book, c, si);
        let second = stored(&book, c.kind, si);
        (book, si, first, second)
    });
    let (book, si, first, second) = match r {
        Ok(x) => x,
        Err(p) => return Verdict::fail(format!("{}/panic:{}", kind, p.site()), format!("setting a {} password of {} UTF-16 units: {}", kind, utf16_len(&c.password), p.short())),
    };
    let (Some(first), Some(s)) = (first, second) else {
        return Verdict::fail(format!("{}/no-protection-object", kind), "the protection object is absent after the password was set");
    };
    // before save
    if let Err(v) = verify_stored(kind, &s, &c.password, &wrong, "model") {
        return v;
    }
    if first.salt == s.salt {
        return Verdict::fail(format!("{}/salt-reused", kind), format!("two calls stored the same salt {}", s.salt));
    }
    if !s.raw.is_empty() {
        return Verdict::fail(
            format!("{}/raw-password-in-model", kind),
            format!("raw password getter returns {:?} after the hashed password was set{}", s.raw, if s.raw == c.password { " (the clear text)" } else { "" }),
        );
    }
    // saved file
    let bytes = match guard(|| save(&book, c.light)) {
        Ok(Ok(b)) => b,
        Ok(Err(e)) => return Verdict::fail(format!("{}/save-error", kind), e),
        Err(p) => return Verdict::fail(format!("{}/save-panic:{}", kind, p.site()), p.short()),
    };
    let parts = match unzip(&bytes) {
        Ok(p) => p,
        Err(e) => return Verdict::fail(format!("{}/saved-not-a-zip", kind), e),
    };
    let (part_name, tag) = if k == 0 { (format!("xl/worksheets/sheet{}.xml", si + 1), "sheetProtection") } else { ("xl/workbook.xml".to_string(), "workbookProtection") };
    let Some((_, part)) = parts.iter().find(|(n, _)| *n == part_name) else {
        return Verdict::Discard(format!("part {} not in the saved package", part_name));
    };
    let el = match element_attrs(part, tag) {
        Ok(Some(e)) => e,
        Ok(None) => return Verdict::fail(format!("{}/saved-element-missing", kind), format!("no <{}> in {}", tag, part_name)),
        Err(e) => return Verdict::Discard(format!("cannot parse <{}> of {}: {}", tag, part_name, e)),
    };
    if let Some(v) = el.attr(LEGACY_ATTR[k]) {
        return Verdict::fail(
            format!("{}/legacy-attribute-saved", kind),
            format!("<{}> in {} carries {}={:?} next to the hashed password{}", tag, part_name, LEGACY_ATTR[k], v, if v == c.password { " (the clear text)" } else { "" }),
        );
    }
    let spin_s = s.spin.to_string();
    let wants = [&s.alg, &s.salt, &spin_s, &s.hash];
    for (name, want) in ATTRS[k].iter().zip(wants.iter()) {
        if el.attr(name) != Some(want.as_str()) {
            return Verdict::fail(
                format!("{}/saved-field-differs", kind),
                format!("<{}> {}={:?} in the file, the model has {:?}", tag, name, el.attr(name), want),
            );
        }
    }
    if search_clear {
        if let Some(p) = find_clear(&parts, &c.password) {
            return Verdict::fail(format!("{}/clear-text-in-file", kind), format!("the password {:?} occurs in {}", c.password, p));
        }
    }
    // reload
    let back = match guard(|| umya_spreadsheet::reader::xlsx::read_reader(std::io::Cursor::new(bytes.clone()), true)) {
        Ok(Ok(b)) => b,
        Ok(Err(e)) => return Verdict::fail(format!("{}/reload-error", kind), format!("{:?}", e)),
        Err(p) => return Verdict::fail(format!("{}/reload-panic:{}", kind, p.site()), p.short()),
    };
    let after = match guard(|| stored(&back, c.kind, si)) {
        Ok(Some(a)) => a,
        Ok(None) => return Verdict::fail(format!("{}/lost-on-reload", kind), "the protection object is absent after save and reload"),
        Err(p) => return Verdict::fail(format!("{}/reload-panic:{}", kind, p.site()), p.short()),
    };
    if after != s {
        let what = if after.alg != s.alg {
            "algorithm-name"
        } else if after.salt != s.salt {
            "salt"
        } else if after.spin != s.spin {
            "spin-count"
        } else if after.hash != s.hash {
            "hash"
        } else {
            "raw-password"
        };
        return Verdict::fail(format!("{}/reload-changes-{}", kind, what), format!("before {:?}, after reload {:?}", s, after));
    }
    Verdict::Pass
}

fn subs() -> Vec<Box<dyn DynSub>> {
    vec![
        Box::new(Sub { name: "sheet", strategy: sheet_cases, cases: (20, 300), check: check_prot, max_shrink_iters: 32 }),
        Box::new(Sub { name: "workbook", strategy: workbook_cases, cases: (20, 300), check: check_prot, max_shrink_iters: 32 }),
        Box::new(Sub { name: "revisions", strategy: revisions_cases, cases: (20, 300), check: check_prot, max_shrink_iters: 32 }),
    ]
}

fn extra(ctx: &Ctx) {
    super::c14::run_selftests(ctx);
}
