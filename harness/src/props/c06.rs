//! C06 — sheet list and annotations survive save/reload on the same cells.
//!
//! Oracle: build the workbook of an `AnnotWb` spec through the public API, take the
//! *projection* P(book) (public getters only, exactly the items the statement lists), save to
//! memory, reload eagerly, take P(reloaded) and compare item by item.  Every annotation kind
//! is compared as a set keyed by its anchor (cell / first range / scope+name), so a swap, a
//! move, a loss, an addition and a duplicate each get their own finding key while a mere
//! reordering of a list passes.  A second, independent look at the written bytes (own zip +
//! XML walk, none of the library's code) checks hyperlinks, merged ranges and defined names
//! in the file itself.
//!
//! Normalisations (each one is a statement about what carries no meaning):
//! * order of the lists of merges / comments / validations / conditional formats / names;
//! * for workbook-scope defined names (no `localSheetId`) the list they are stored in
//!   (workbook list or a sheet's list): the reader re-homes them by the sheet named in the
//!   address; for sheet-scope names the owning sheet *is* compared;
//! * defined-name text is parsed by a small reference-address parser on both sides, so
//!   `Sheet1!$A$1` and `'Sheet1'!$A$1` are the same list of areas; anything that is not a list
//!   of areas is compared character for character;
//! * a sheet state that was never set and `visible` are the same state.
use super::Prop;
use crate::engine::*;
use crate::gen::annot::*;
use crate::props::c01::{load, save};
use proptest::prelude::*;
use serde::{Deserialize, Serialize};
use std::collections::{BTreeMap, BTreeSet};
use std::sync::OnceLock;
use umya_spreadsheet::{Spreadsheet, Worksheet};

pub fn prop() -> Prop {
    Prop {
        id: "C06",
        describe,
        subs,
        extra: super::no_extra,
        replay_extra: super::no_replay_extra,
        watchdog_s: (900, 14400),
    }
}

fn describe(ctx: &Ctx) {
    ctx.rule("generated workbooks (1..6 sheets with legal names incl. XML specials / non-ASCII, states unset/visible/hidden/veryHidden with >=1 visible, active tab on a visible sheet, optionally sheets removed again before saving; per sheet 0..24 each of merged ranges, defined names (workbook/sheet scope; cell, range, multi-area, constant/formula; sheet names needing quotes), hyperlinks (external/internal, tooltip), comments (unsorted, authors with duplicates/empty/non-ASCII, 1..3 runs, with and without note shape), data validations, conditional formats (every rule kind the API offers, dxf), auto-filter, tab colour, panes + selections, page setup/margins/print options/printer settings, header/footer, sheet and workbook protection flags) built through the public API, saved to memory (standard or light writer) and reloaded eagerly; the projection (public getters) before saving and after reloading is compared as sets keyed by anchor cell / range / scope+name, and the hyperlinks, merged ranges, defined names, sheet list and active tab are also decoded from the written bytes without the library. Stage two (half of the cases): the bytes just written are reopened lazily (read_reader(.., false)), a generated subset of sheets is materialised in a generated order through read_sheet / get_sheet_mut / get_sheet_by_name_mut / read_sheet_by_name / read_sheet_collection, optionally a cell is edited and a sheet is added, removed or renamed while others are still unloaded, the workbook is saved again, reloaded eagerly and compared in the same way (keys prefixed lazy:). Sub-checks: roundtrip (everything, clean), hyperlinks (2..24 links per sheet, a third of them internal, plus what shares their relationship numbering: printer settings, comments, a table; 4 saves per case), dirty (adds the input features of the open findings). Non-trivial = some sheet has >=2 annotations of one kind, or a sheet name / defined name / hyperlink target / author contains an XML special or non-ASCII character; distinct by full case");
    ctx.assume("passwords of protections are not generated (property C15)");
    ctx.assume("defined-name texts with a top-level double quote, or with a top-level comma between pieces that are not cell references (print titles), are not generated: DefinedName::set_address changes them when they are handed to the API, before any save");
    ctx.assume("formula-like texts (validation formulas, conditional-format formulas, defined-name formulas) carry no leading/trailing blanks; header/footer texts with such blanks only in the dirty stratum");
    ctx.assume("for workbook-scope defined names the list that stores them (workbook or sheet) is not compared; for sheet-scope names the owning sheet is compared and localSheetId must name the owner after reload");
    ctx.assume("stage two removes or renames only sheets that no defined name refers to, and removes a sheet only when the active tab still points at a visible sheet afterwards (what such an edit does to names and to the active tab is the edit's business, not save/reload's)");
    ctx.assume("the expected value of every item is what the public getters show before saving; the spec is checked against that view first (mismatch = discard, none observed)");
}

#[derive(Debug, Clone, Serialize, Deserialize)]
pub struct Case {
    pub wb: AnnotWb,
    pub light: bool,
    /// stage two: reopen the saved bytes lazily, materialise some sheets, save again
    #[serde(default)]
    pub lazy: Option<LazyPlan>,
}

/// What is done to the lazily reopened workbook (`read_reader(.., false)`) before it is saved a
/// second time.  Sheet indices are raw values mapped monotonically onto the sheet list of the
/// moment.
#[derive(Debug, Clone, Serialize, Deserialize)]
pub struct LazyPlan {
    pub steps: Vec<LazyStep>,
    /// light writer for the second save
    pub light: bool,
}

#[derive(Debug, Clone, Serialize, Deserialize)]
pub enum LazyStep {
    /// `Spreadsheet::read_sheet(i)`
    ReadSheet(u16),
    /// `Spreadsheet::get_sheet_mut(&i)`
    GetSheetMut(u16),
    /// `Spreadsheet::get_sheet_by_name_mut(name)`
    GetByNameMut(u16),
    /// `Spreadsheet::read_sheet_by_name(name)`
    ReadByName(u16),
    /// `Spreadsheet::read_sheet_collection()`
    ReadAll,
    /// materialise through `get_sheet_mut` and set one cell's text
    EditCell { sheet: u16, col: u32, row: u32, text: String },
    /// `new_sheet` (appended, visible)
    AddSheet,
    /// `remove_sheet` of the first sheet at or behind the index that no defined name refers to
    /// and whose removal leaves the active tab on a visible sheet (skipped when there is none)
    RemoveSheet(u16),
    /// `set_sheet_name` of the first sheet at or behind the index that no defined name refers to
    Rename(u16),
}

// ---------------------------------------------------------------------------------------
// projection

/// one annotation: ordered (field, value) pairs
type Item = Vec<(&'static str, String)>;
/// one annotation kind on one sheet: (anchor, item) in storage order
type Keyed = Vec<(String, Item)>;

#[derive(Debug, Clone, Default)]
pub struct SheetProj {
    pub name: String,
    pub state: String,
    pub kinds: BTreeMap<&'static str, Keyed>,
}

#[derive(Debug, Clone, Default)]
pub struct Proj {
    pub sheets: Vec<SheetProj>,
    pub active_tab: u32,
    pub wb_protection: Keyed,
    /// anchor = scope \u{1} name
    pub names: Keyed,
}

fn b(v: &bool) -> String {
    if *v { "1" } else { "0" }.to_string()
}

fn color_item(c: &umya_spreadsheet::Color) -> String {
    format!("argb={} theme={} indexed={} tint={:?}", c.get_argb(), c.get_theme_index(), c.get_indexed(), c.get_tint())
}

/// Reference parser for defined-name texts: a comma separated list of `sheet!range` areas
/// (sheet bare or in apostrophes with inner apostrophes doubled) is turned into a canonical
/// form; anything else is kept verbatim.
pub fn canon_name_text(t: &str) -> String {
    fn split_top(t: &str) -> Vec<String> {
        let mut out = Vec::new();
        let mut cur = String::new();
        let mut in_q = false;
        for c in t.chars() {
            match c {
                '\'' => {
                    in_q = !in_q;
                    cur.push(c);
                }
                ',' if !in_q => out.push(std::mem::take(&mut cur)),
                _ => cur.push(c),
            }
        }
        out.push(cur);
        out
    }
    fn is_cell(s: &str) -> bool {
        let s = s.strip_prefix('$').unwrap_or(s);
        let letters = s.chars().take_while(|c| c.is_ascii_uppercase()).count();
        if !(1..=3).contains(&letters) {
            return false;
        }
        let rest = &s[letters..];
        let rest = rest.strip_prefix('$').unwrap_or(rest);
        !rest.is_empty() && rest.chars().all(|c| c.is_ascii_digit())
    }
    fn area(p: &str) -> Option<(String, String)> {
        let (sheet, range) = if let Some(rest) = p.strip_prefix('\'') {
            // quoted: up to the apostrophe that is not doubled
            let cs: Vec<char> = rest.chars().collect();
            let mut name = String::new();
            let mut i = 0;
            loop {
                if i >= cs.len() {
                    return None;
                }
                if cs[i] == '\'' {
                    if i + 1 < cs.len() && cs[i + 1] == '\'' {
                        name.push('\'');
                        i += 2;
                        continue;
                    }
                    break;
                }
                name.push(cs[i]);
                i += 1;
            }
            let tail: String = cs[i + 1..].iter().collect();
            let range = tail.strip_prefix('!')?.to_string();
            (name, range)
        } else {
            let (s, r) = p.split_once('!')?;
            if s.is_empty() || s.contains('\'') {
                return None;
            }
            (s.to_string(), r.to_string())
        };
        let mut parts = range.split(':');
        let a = parts.next()?;
        let bq = parts.next();
        if parts.next().is_some() {
            return None;
        }
        // cell, cell:cell, or a whole-column / whole-row pair ($A:$B, $1:$3)
        let is_col = |s: &str| {
            let s = s.strip_prefix('$').unwrap_or(s);
            (1..=3).contains(&s.len()) && s.chars().all(|c| c.is_ascii_uppercase())
        };
        let is_row = |s: &str| {
            let s = s.strip_prefix('$').unwrap_or(s);
            !s.is_empty() && s.chars().all(|c| c.is_ascii_digit())
        };
        let ok = match bq {
            None => is_cell(a),
            Some(bq) => (is_cell(a) && is_cell(bq)) || (is_col(a) && is_col(bq)) || (is_row(a) && is_row(bq)),
        };
        if !ok {
            return None;
        }
        Some((sheet, range))
    }
    let pieces = split_top(t);
    let mut out = Vec::new();
    for p in &pieces {
        match area(p) {
            Some((s, r)) => out.push(format!("{}\u{1}{}", s, r)),
            None => return format!("text:{}", t),
        }
    }
    format!("areas:{}", out.join("\u{2}"))
}

fn show_canon(s: &str) -> String {
    s.replace('\u{1}', " ! ").replace('\u{2}', " , ")
}

fn project_sheet(ws: &Worksheet) -> SheetProj {
    let mut p = SheetProj {
        name: ws.get_name().to_string(),
        state: state_name(ws.get_state()).to_string(),
        kinds: BTreeMap::new(),
    };
    // merged ranges: anchor = top-left cell
    let mut merges = Keyed::new();
    for r in ws.get_merge_cells() {
        let t = r.get_range();
        let anchor = t.split(':').next().unwrap_or("").to_string();
        merges.push((anchor, vec![("range", t)]));
    }
    p.kinds.insert("merge", merges);
    // hyperlinks: anchor = cell
    let mut links = Keyed::new();
    let mut cells: Vec<&umya_spreadsheet::Cell> = ws.get_cell_collection();
    cells.sort_by_key(|c| (*c.get_coordinate().get_row_num(), *c.get_coordinate().get_col_num()));
    for c in cells {
        if let Some(h) = c.get_hyperlink() {
            let anchor = format!("{}{}", col_name(*c.get_coordinate().get_col_num()), c.get_coordinate().get_row_num());
            links.push((
                anchor,
                vec![("kind", if *h.get_location() { "internal" } else { "external" }.to_string()), ("target", h.get_url().to_string()), ("tooltip", h.get_tooltip().to_string())],
            ));
        }
    }
    p.kinds.insert("hyperlink", links);
    // comments: anchor = cell
    let mut comments = Keyed::new();
    for c in ws.get_comments() {
        let co = c.get_coordinate();
        let anchor = format!("{}{}", col_name(*co.get_col_num()), co.get_row_num());
        let runs: Vec<String> = c.get_text().get_rich_text_elements().iter().map(|e| e.get_text().to_string()).collect();
        let cd = c.get_shape().get_client_data();
        let shape = match (cd.get_comment_column_target(), cd.get_comment_row_target()) {
            (Some(cc), Some(rr)) => format!("{}{}", col_name(*cc.get_value() + 1), *rr.get_value() + 1),
            (None, None) => "none".to_string(),
            (a, bb) => format!("partial:{:?}/{:?}", a.map(|v| *v.get_value()), bb.map(|v| *v.get_value())),
        };
        comments.push((anchor, vec![("author", c.get_author().to_string()), ("text", format!("{:?}", runs)), ("shape-cell", shape)]));
    }
    p.kinds.insert("comment", comments);
    // data validations: anchor = sqref
    let mut dvs = Keyed::new();
    if let Some(list) = ws.get_data_validations() {
        for d in list.get_data_validation_list() {
            dvs.push((
                d.get_sequence_of_references().get_sqref(),
                vec![
                    ("type", dv_type_name(d.get_type()).to_string()),
                    ("operator", dv_op_name(d.get_operator()).to_string()),
                    ("allow-blank", b(d.get_allow_blank())),
                    ("show-input", b(d.get_show_input_message())),
                    ("show-error", b(d.get_show_error_message())),
                    ("prompt-title", d.get_prompt_title().to_string()),
                    ("prompt", d.get_prompt().to_string()),
                    ("error-title", d.get_error_title().to_string()),
                    ("error", d.get_error_message().to_string()),
                    ("formula1", d.get_formula1().to_string()),
                    ("formula2", d.get_formula2().to_string()),
                ],
            ));
        }
    }
    p.kinds.insert("data-validation", dvs);
    // conditional formats: anchor = sqref + priority of the rule (one entry per rule), plus one
    // entry per range list so that a format without rules is still seen
    let mut cfs = Keyed::new();
    for cf in ws.get_conditional_formatting_collection() {
        let sq = cf.get_sequence_of_references().get_sqref();
        cfs.push((format!("{} (range list)", sq), vec![("rules", cf.get_conditional_collection().len().to_string())]));
        for r in cf.get_conditional_collection() {
            // the whole differential style, part by part (font, fill, border, alignment are what a
            // dxf carries), so that a key says which part a rule got from a sibling
            let side = |x: &umya_spreadsheet::Border| format!("{}/{}", x.get_border_style(), color_item(x.get_color()));
            let st = r.get_style();
            let dxf_font = st.map_or("no-style".to_string(), |st| {
                st.get_font().map_or("none".to_string(), |f| {
                    format!(
                        "name={} size={:?} bold={} italic={} underline={} strike={} color={}",
                        f.get_name(),
                        f.get_size(),
                        b(f.get_bold()),
                        b(f.get_italic()),
                        f.get_underline(),
                        b(f.get_strikethrough()),
                        color_item(f.get_color())
                    )
                })
            });
            let dxf_fill = st.map_or("no-style".to_string(), |st| {
                st.get_fill().and_then(|f| f.get_pattern_fill()).map_or("none".to_string(), |pf| {
                    format!(
                        "pattern={:?} fg={} bg={}",
                        pf.get_pattern_type(),
                        pf.get_foreground_color().map_or("none".to_string(), color_item),
                        pf.get_background_color().map_or("none".to_string(), color_item)
                    )
                })
            });
            let dxf_border = st.map_or("no-style".to_string(), |st| {
                st.get_borders().map_or("none".to_string(), |bs| {
                    format!(
                        "left={} right={} top={} bottom={} diagonal={}",
                        side(bs.get_left()),
                        side(bs.get_right()),
                        side(bs.get_top()),
                        side(bs.get_bottom()),
                        side(bs.get_diagonal())
                    )
                })
            });
            let dxf_align = st.map_or("no-style".to_string(), |st| {
                st.get_alignment()
                    .map_or("none".to_string(), |al| format!("horizontal={:?} vertical={:?} wrap={} rotation={}", al.get_horizontal(), al.get_vertical(), b(al.get_wrap_text()), al.get_text_rotation()))
            });
            let vis = |cfvo: &[umya_spreadsheet::ConditionalFormatValueObject], cols: &[umya_spreadsheet::Color]| {
                format!(
                    "cfvo={:?} colors={:?}",
                    cfvo.iter().map(|o| format!("{}:{}", cfvo_type_name(o.get_type()), o.get_val())).collect::<Vec<_>>(),
                    cols.iter().map(color_item).collect::<Vec<_>>()
                )
            };
            cfs.push((
                format!("{} #{}", sq, r.get_priority()),
                vec![
                    ("type", cf_type_name(r.get_type()).to_string()),
                    ("operator", cf_op_name(r.get_operator()).to_string()),
                    ("formula", r.get_formula().map_or("none".to_string(), |f| f.get_address_str())),
                    ("dxf-font", dxf_font),
                    ("dxf-fill", dxf_fill),
                    ("dxf-border", dxf_border),
                    ("dxf-alignment", dxf_align),
                    ("text", r.get_text().to_string()),
                    ("percent", b(r.get_percent())),
                    ("bottom", b(r.get_bottom())),
                    ("rank", r.get_rank().to_string()),
                    ("stop-if-true", b(r.get_stop_if_true())),
                    ("std-dev", r.get_std_dev().to_string()),
                    ("above-average", b(r.get_above_average())),
                    ("equal-average", b(r.get_equal_average())),
                    ("time-period", time_period_name(r.get_time_period()).to_string()),
                    ("color-scale", r.get_color_scale().map_or("none".to_string(), |o| vis(o.get_cfvo_collection(), o.get_color_collection()))),
                    ("icon-set", r.get_icon_set().map_or("none".to_string(), |o| vis(o.get_cfvo_collection(), o.get_color_collection()))),
                    ("data-bar", r.get_data_bar().map_or("none".to_string(), |o| vis(o.get_cfvo_collection(), o.get_color_collection()))),
                ],
            ));
        }
    }
    p.kinds.insert("cond-format", cfs);
    let single = |item: Option<Item>| -> Keyed { item.map(|i| vec![("-".to_string(), i)]).unwrap_or_default() };
    p.kinds.insert("auto-filter", single(ws.get_auto_filter().map(|a| vec![("range", a.get_range().get_range())])));
    p.kinds.insert("tab-color", single(ws.get_tab_color().map(|c| vec![("color", color_item(c))])));
    // sheet views: panes and selections; anchor = index of the view
    let mut panes = Keyed::new();
    let mut sels = Keyed::new();
    let mut tabsel = Keyed::new();
    for (vi, v) in ws.get_sheets_views().get_sheet_view_list().iter().enumerate() {
        if *v.get_tab_selected() {
            tabsel.push((format!("view{}", vi), vec![("tab-selected", "1".to_string())]));
        }
        if let Some(pa) = v.get_pane() {
            panes.push((
                format!("view{}", vi),
                vec![
                    ("x-split", format!("{:?}", pa.get_horizontal_split())),
                    ("y-split", format!("{:?}", pa.get_vertical_split())),
                    ("top-left", pa.get_top_left_cell().get_coordinate()),
                    ("active-pane", pane_name(pa.get_active_pane()).to_string()),
                    ("state", pane_state_name(pa.get_state()).to_string()),
                ],
            ));
        }
        for (si, s) in v.get_selection().iter().enumerate() {
            sels.push((
                format!("view{} selection{}", vi, si),
                vec![
                    ("pane", pane_name(s.get_pane()).to_string()),
                    ("active-cell", s.get_active_cell().map_or("none".to_string(), |c| c.get_coordinate())),
                    ("sqref", s.get_sequence_of_references().get_sqref()),
                ],
            ));
        }
    }
    p.kinds.insert("pane", panes);
    p.kinds.insert("selection", sels);
    p.kinds.insert("tab-selected", tabsel);
    p.kinds.insert("worksheet-active-cell", single(if ws.get_active_cell().is_empty() { None } else { Some(vec![("cell", ws.get_active_cell().to_string())]) }));
    let ps = ws.get_page_setup();
    let pm = ws.get_page_margins();
    let po = ws.get_print_options();
    p.kinds.insert(
        "page-setup",
        single(Some(vec![
            ("paper-size", ps.get_paper_size().to_string()),
            ("orientation", orientation_name(ps.get_orientation()).to_string()),
            ("scale", ps.get_scale().to_string()),
            ("fit-to-height", ps.get_fit_to_height().to_string()),
            ("fit-to-width", ps.get_fit_to_width().to_string()),
            ("horizontal-dpi", ps.get_horizontal_dpi().to_string()),
            ("vertical-dpi", ps.get_vertical_dpi().to_string()),
            ("printer-settings", format!("{:?}", ps.get_object_data())),
            (
                "margins",
                format!("{:?} {:?} {:?} {:?} {:?} {:?}", pm.get_left(), pm.get_right(), pm.get_top(), pm.get_bottom(), pm.get_header(), pm.get_footer()),
            ),
            ("horizontal-centered", b(po.get_horizontal_centered())),
            ("vertical-centered", b(po.get_vertical_centered())),
        ])),
    );
    let hf = ws.get_header_footer();
    p.kinds.insert("header-footer", single(Some(vec![("header", hf.get_odd_header().get_value().to_string()), ("footer", hf.get_odd_footer().get_value().to_string())])));
    p.kinds.insert(
        "sheet-protection",
        single(ws.get_sheet_protection().map(|sp| {
            vec![
                ("sheet", b(sp.get_sheet())),
                ("objects", b(sp.get_objects())),
                ("deleteRows", b(sp.get_delete_rows())),
                ("insertColumns", b(sp.get_insert_columns())),
                ("deleteColumns", b(sp.get_delete_columns())),
                ("insertHyperlinks", b(sp.get_insert_hyperlinks())),
                ("autoFilter", b(sp.get_auto_filter())),
                ("scenarios", b(sp.get_scenarios())),
                ("formatCells", b(sp.get_format_cells())),
                ("formatColumns", b(sp.get_format_columns())),
                ("insertRows", b(sp.get_insert_rows())),
                ("formatRows", b(sp.get_format_rows())),
                ("pivotTables", b(sp.get_pivot_tables())),
                ("selectLockedCells", b(sp.get_select_locked_cells())),
                ("selectUnlockedCells", b(sp.get_select_unlocked_cells())),
                ("sort", b(sp.get_sort())),
            ]
        })),
    );
    p
}

pub fn project(book: &Spreadsheet) -> Proj {
    let mut p = Proj::default();
    let n = book.get_sheet_count();
    for i in 0..n {
        p.sheets.push(project_sheet(book.get_sheet(&i).unwrap()));
    }
    p.active_tab = *book.get_workbook_view().get_active_tab();
    if let Some(wp) = book.get_workbook_protection() {
        p.wb_protection.push((
            "-".to_string(),
            vec![("lockStructure", b(wp.get_lock_structure())), ("lockWindows", b(wp.get_lock_windows())), ("lockRevision", b(wp.get_lock_revision()))],
        ));
    }
    let add = |home: Option<usize>, d: &umya_spreadsheet::DefinedName, p: &mut Proj| {
        let (scope, home_ok) = if d.has_local_sheet_id() {
            let raw = *d.get_local_sheet_id() as usize;
            match home {
                // kept in a sheet's list: that sheet owns it
                Some(h) => (format!("sheet:{}", p.sheets[h].name), raw == h),
                None => (p.sheets.get(raw).map_or(format!("sheet-index:{}", raw), |s| format!("sheet:{}", s.name)), true),
            }
        } else {
            ("workbook".to_string(), true)
        };
        p.names.push((
            format!("{}\u{1}{}", scope, d.get_name()),
            vec![("hidden", b(d.get_hidden())), ("text", canon_name_text(&d.get_address())), ("post:local-id-is-owner", b(&home_ok))],
        ));
    };
    for d in book.get_defined_names() {
        add(None, d, &mut p);
    }
    for i in 0..n {
        for d in book.get_sheet(&i).unwrap().get_defined_names() {
            add(Some(i), d, &mut p);
        }
    }
    p
}

// ---------------------------------------------------------------------------------------
// comparison

pub type Fails = Vec<(String, String)>;

fn special_name(kind: &str, field: &str, exp: &str, got: &str, from_sibling: bool) -> String {
    match (kind, field) {
        ("hyperlink", "tooltip") if got.is_empty() => "hyperlink/tooltip-lost".to_string(),
        ("comment", "author") if exp.is_empty() => "comment/empty-author-replaced".to_string(),
        ("comment", "author") if from_sibling => "comment/author-shifted".to_string(),
        ("cond-format", "text") if got.is_empty() => "cond-format/text-lost".to_string(),
        ("cond-format", "icon-set") | ("cond-format", "data-bar") if exp != "none" && got == "none" => format!("cond-format/{}-lost", field),
        ("header-footer", _) if exp.trim() == got && exp != got => "header-footer/edge-blank-trimmed".to_string(),
        _ if from_sibling => format!("{}/{}-swapped", kind, field),
        _ => format!("{}/{}-changed", kind, field),
    }
}

fn same_item(a: &Item, b: &Item) -> bool {
    a.len() == b.len() && a.iter().zip(b.iter()).all(|(x, y)| x.0 == y.0 && (x.0.starts_with("post:") || x.1 == y.1))
}

/// Keyed-set comparison of one annotation kind.
pub fn diff_keyed(kind: &str, at: &str, exp: &Keyed, got: &Keyed, fails: &mut Fails) {
    let show = |a: &str| show_canon(a);
    let mut em: BTreeMap<&str, Vec<&Item>> = BTreeMap::new();
    for (a, i) in exp {
        em.entry(a.as_str()).or_default().push(i);
    }
    let mut gm: BTreeMap<&str, Vec<&Item>> = BTreeMap::new();
    for (a, i) in got {
        gm.entry(a.as_str()).or_default().push(i);
    }
    let lost: Vec<&str> = em.keys().filter(|a| !gm.contains_key(*a)).cloned().collect();
    let extra: Vec<&str> = gm.keys().filter(|a| !em.contains_key(*a)).cloned().collect();
    let mut extra_used: BTreeSet<&str> = BTreeSet::new();
    for a in &lost {
        let item = em[a][0];
        if let Some(x) = extra.iter().find(|x| !extra_used.contains(*x) && same_item(gm[*x][0], item)) {
            extra_used.insert(x);
            fails.push((format!("{}/moved", kind), format!("{}: {} at {} is at {} after reload: {:?}", at, kind, show(a), show(x), item)));
        } else {
            fails.push((format!("{}/lost", kind), format!("{}: {} at {} is missing after reload: {:?}", at, kind, show(a), item)));
        }
    }
    for x in &extra {
        if !extra_used.contains(x) {
            fails.push((format!("{}/extra", kind), format!("{}: {} at {} appeared after reload: {:?}", at, kind, show(x), gm[x][0])));
        }
    }
    for (a, gis) in &gm {
        let Some(eis) = em.get(a) else { continue };
        if gis.len() > eis.len() {
            fails.push((format!("{}/duplicated", kind), format!("{}: {} at {} occurs {} times after reload, {} before", at, kind, show(a), gis.len(), eis.len())));
            continue;
        }
        if gis.len() < eis.len() {
            fails.push((format!("{}/lost", kind), format!("{}: {} at {} occurs {} times after reload, {} before", at, kind, show(a), gis.len(), eis.len())));
            continue;
        }
        for (e, g) in eis.iter().zip(gis.iter()) {
            for ((f, ev), (_, gv)) in e.iter().zip(g.iter()) {
                // "post:" fields are conditions on the reloaded workbook alone, not compared
                if let Some(cond) = f.strip_prefix("post:") {
                    if gv != "1" {
                        fails.push((format!("{}/{}-violated", kind, cond), format!("{}: {} at {}: {} does not hold after reload", at, kind, show(a), cond)));
                    }
                    continue;
                }
                if ev != gv {
                    // does the value come from a sibling?
                    let from_sibling = exp.iter().any(|(oa, oi)| oa != a && oi.iter().any(|(of, ov)| of == f && ov == gv));
                    fails.push((
                        special_name(kind, f, ev, gv, from_sibling),
                        format!("{}: {} at {}: {} {:?} reloaded as {:?}", at, kind, show(a), f, show_canon(ev), show_canon(gv)),
                    ));
                }
            }
        }
    }
}

pub fn diff(exp: &Proj, got: &Proj) -> Fails {
    let mut fails = Fails::new();
    let en: Vec<&str> = exp.sheets.iter().map(|s| s.name.as_str()).collect();
    let gn: Vec<&str> = got.sheets.iter().map(|s| s.name.as_str()).collect();
    if en != gn {
        let key = if en.len() != gn.len() {
            "sheets/count"
        } else {
            let mut a = en.clone();
            let mut bq = gn.clone();
            a.sort();
            bq.sort();
            if a == bq {
                "sheets/order"
            } else {
                "sheets/name-changed"
            }
        };
        fails.push((key.to_string(), format!("sheet list {:?} reloaded as {:?}", en, gn)));
        return fails;
    }
    if exp.active_tab != got.active_tab {
        fails.push(("active-tab/changed".to_string(), format!("active tab {} reloaded as {}", exp.active_tab, got.active_tab)));
    }
    diff_keyed("workbook-protection", "workbook", &exp.wb_protection, &got.wb_protection, &mut fails);
    diff_keyed("defined-name", "workbook", &exp.names, &got.names, &mut fails);
    for (i, (e, g)) in exp.sheets.iter().zip(got.sheets.iter()).enumerate() {
        let at = format!("sheet {} {:?}", i, e.name);
        if e.state != g.state {
            fails.push((format!("sheet-state/{}-becomes-{}", e.state, g.state), format!("{}: state {} reloaded as {}", at, e.state, g.state)));
        }
        for (kind, ek) in &e.kinds {
            let empty = Keyed::new();
            let gk = g.kinds.get(kind).unwrap_or(&empty);
            diff_keyed(kind, &at, ek, gk, &mut fails);
        }
    }
    fails
}

// ---------------------------------------------------------------------------------------
// the spec must be what the API shows before saving (otherwise the case says nothing)

fn field<'a>(i: &'a Item, name: &str) -> &'a str {
    i.iter().find(|(f, _)| *f == name).map_or("", |(_, v)| v.as_str())
}

fn spec_agrees(spec: &AnnotWb, p: &Proj) -> Result<(), String> {
    let kept = spec.kept();
    if kept.len() != p.sheets.len() {
        return Err(format!("{} sheets built, {} expected", p.sheets.len(), kept.len()));
    }
    if p.active_tab != spec.active_tab {
        return Err(format!("active tab {} vs {}", p.active_tab, spec.active_tab));
    }
    let mut names_expected: BTreeMap<String, String> = BTreeMap::new();
    for n in &spec.wb_names {
        names_expected.insert(format!("workbook\u{1}{}", n.name), canon_name_text(&spec.render_name_text(&n.text)));
    }
    for (k, i) in kept.iter().enumerate() {
        let s = &spec.sheets[*i];
        let sp = &p.sheets[k];
        if sp.name != s.name {
            return Err(format!("sheet {} is {:?}, spec {:?}", k, sp.name, s.name));
        }
        let st = ["visible", "visible", "hidden", "veryHidden"][s.state as usize % 4];
        if sp.state != st {
            return Err(format!("sheet {} state {} vs {}", k, sp.state, st));
        }
        let count = |kind: &str| sp.kinds.get(kind).map_or(0, |v| v.len());
        let checks = [
            ("merge", s.merges.len()),
            ("hyperlink", s.links.len()),
            ("comment", s.comments.len()),
            ("data-validation", s.validations.len()),
            ("cond-format", s.cond_formats.iter().map(|c| 1 + c.rules.len()).sum()),
            ("auto-filter", s.auto_filter.is_some() as usize),
            ("tab-color", s.tab_color.is_some() as usize),
            ("pane", s.view.as_ref().map_or(0, |v| v.pane.is_some() as usize)),
            ("selection", s.view.as_ref().map_or(0, |v| v.selections.len())),
            ("sheet-protection", s.protection.is_some() as usize),
            ("worksheet-active-cell", s.ws_active_cell.is_some() as usize),
        ];
        for (kind, n) in checks {
            if count(kind) != n {
                return Err(format!("sheet {}: {} {} built, {} in the spec", k, count(kind), kind, n));
            }
        }
        let find = |kind: &str, anchor: &str| -> Option<&Item> { sp.kinds.get(kind).and_then(|v| v.iter().find(|(a, _)| a == anchor).map(|(_, i)| i)) };
        for m in &s.merges {
            let a = format!("{}{}", col_name(m.c1), m.r1);
            match find("merge", &a) {
                Some(i) if i[0].1 == m.a1_range() => {}
                o => return Err(format!("sheet {}: merge {} shows as {:?}", k, m.a1_range(), o)),
            }
        }
        for l in &s.links {
            let a = format!("{}{}", col_name(l.col), l.row);
            match find("hyperlink", &a) {
                Some(i) if i[1].1 == l.target && (i[0].1 == "internal") == l.internal && i[2].1 == l.tooltip.clone().unwrap_or_default() => {}
                o => return Err(format!("sheet {}: hyperlink {:?} shows as {:?}", k, l, o)),
            }
        }
        for c in &s.comments {
            let a = format!("{}{}", col_name(c.col), c.row);
            match find("comment", &a) {
                Some(i) if i[0].1 == c.author && i[1].1 == format!("{:?}", c.runs) && (i[2].1 == a) == c.with_shape => {}
                o => return Err(format!("sheet {}: comment {:?} shows as {:?}", k, c, o)),
            }
        }
        for v in &s.validations {
            let a = v.sqref.iter().map(|r| r.a1()).collect::<Vec<_>>().join(" ");
            match find("data-validation", &a) {
                Some(i) if i[9].1 == v.formula1.clone().unwrap_or_default() && i[6].1 == v.prompt.clone().unwrap_or_default() => {}
                o => return Err(format!("sheet {}: validation {} shows as {:?}", k, a, o)),
            }
        }
        for c in &s.cond_formats {
            let a = c.sqref.iter().map(|r| r.a1()).collect::<Vec<_>>().join(" ");
            for r in &c.rules {
                match find("cond-format", &format!("{} #{}", a, r.priority)) {
                    Some(i)
                        if field(i, "type") == CF_TYPES[r.kind as usize]
                            && field(i, "formula") == r.formula.clone().unwrap_or("none".to_string())
                            && field(i, "text") == r.text.clone().unwrap_or_default()
                            && (field(i, "dxf-font") == "no-style") == r.dxf.is_none()
                            && r.dxf.as_ref().map_or(true, |d| {
                                let left = d.border_style > 0 && (d.border_sides & 15 == 0 || d.border_sides & 1 == 1);
                                !left || field(i, "dxf-border").contains(&format!("left={}/", BORDER_STYLES[(d.border_style as usize - 1) % BORDER_STYLES.len()]))
                            }) => {}
                    o => return Err(format!("sheet {}: rule {} #{} shows as {:?}", k, a, r.priority, o)),
                }
            }
        }
        if let Some(r) = &s.auto_filter {
            if find("auto-filter", "-").map(|i| i[0].1.clone()) != Some(r.a1_range()) {
                return Err(format!("sheet {}: auto filter {} shows as {:?}", k, r.a1_range(), find("auto-filter", "-")));
            }
        }
        let hf = find("header-footer", "-").unwrap();
        if hf[0].1 != s.header.clone().unwrap_or_default() || hf[1].1 != s.footer.clone().unwrap_or_default() {
            return Err(format!("sheet {}: header/footer {:?}", k, hf));
        }
        for n in &s.names {
            let scope = if n.local { format!("sheet:{}", s.name) } else { "workbook".to_string() };
            names_expected.insert(format!("{}\u{1}{}", scope, n.name), canon_name_text(&spec.render_name_text(&n.text)));
        }
    }
    if names_expected.len() != p.names.len() {
        return Err(format!("{} defined names built, {} in the spec", p.names.len(), names_expected.len()));
    }
    for (a, i) in &p.names {
        match names_expected.get(a) {
            Some(t) if *t == i[1].1 => {}
            o => return Err(format!("defined name {} shows as {:?}, spec {:?}", show_canon(a), show_canon(&i[1].1), o.map(|s| show_canon(s)))),
        }
    }
    Ok(())
}

// ---------------------------------------------------------------------------------------
// independent look at the written file (own zip + XML walk)

mod filecheck {
    use quick_xml::events::Event;
    use quick_xml::Reader;
    use std::collections::BTreeMap;
    use std::io::Read;

    fn part(zip: &mut zip::ZipArchive<std::io::Cursor<&[u8]>>, name: &str) -> Option<String> {
        let mut f = zip.by_name(name).ok()?;
        let mut s = String::new();
        f.read_to_string(&mut s).ok()?;
        Some(s)
    }

    fn attrs(e: &quick_xml::events::BytesStart) -> BTreeMap<String, String> {
        let mut m = BTreeMap::new();
        for a in e.attributes().with_checks(false).flatten() {
            let k = String::from_utf8_lossy(a.key.as_ref()).to_string();
            let v = a.unescape_value().map(|v| v.to_string()).unwrap_or_default();
            m.insert(k, v);
        }
        m
    }

    /// elements (name, attributes, text content) of a part in document order
    fn elements(xml: &str) -> Result<Vec<(String, BTreeMap<String, String>, String)>, String> {
        let mut r = Reader::from_str(xml);
        let mut out: Vec<(String, BTreeMap<String, String>, String)> = Vec::new();
        let mut stack: Vec<usize> = Vec::new();
        loop {
            match r.read_event() {
                Ok(Event::Start(e)) => {
                    out.push((String::from_utf8_lossy(e.name().as_ref()).to_string(), attrs(&e), String::new()));
                    stack.push(out.len() - 1);
                }
                Ok(Event::Empty(e)) => out.push((String::from_utf8_lossy(e.name().as_ref()).to_string(), attrs(&e), String::new())),
                Ok(Event::Text(t)) => {
                    if let Some(i) = stack.last() {
                        out[*i].2.push_str(&t.unescape().map_err(|e| format!("{:?}", e))?);
                    }
                }
                Ok(Event::End(_)) => {
                    stack.pop();
                }
                Ok(Event::Eof) => break,
                Err(e) => return Err(format!("{:?}", e)),
                _ => {}
            }
        }
        Ok(out)
    }

    pub struct FileSheet {
        pub name: String,
        pub state: String,
        /// ref -> (kind, target, tooltip)
        pub links: Vec<(String, String, String, String)>,
        pub merges: Vec<String>,
    }
    pub struct FileView {
        pub sheets: Vec<FileSheet>,
        pub active_tab: u32,
        /// (localSheetId, name, text)
        pub names: Vec<(Option<u32>, String, String)>,
    }

    pub fn decode(bytes: &[u8]) -> Result<FileView, String> {
        let mut zip = zip::ZipArchive::new(std::io::Cursor::new(bytes)).map_err(|e| format!("zip: {:?}", e))?;
        let wb = part(&mut zip, "xl/workbook.xml").ok_or("no xl/workbook.xml")?;
        let rels = part(&mut zip, "xl/_rels/workbook.xml.rels").ok_or("no workbook rels")?;
        let mut rel_target: BTreeMap<String, String> = BTreeMap::new();
        for (n, a, _) in elements(&rels)? {
            if n == "Relationship" {
                rel_target.insert(a.get("Id").cloned().unwrap_or_default(), a.get("Target").cloned().unwrap_or_default());
            }
        }
        let mut view = FileView {
            sheets: Vec::new(),
            active_tab: 0,
            names: Vec::new(),
        };
        for (n, a, text) in elements(&wb)? {
            match n.as_str() {
                "workbookView" => view.active_tab = a.get("activeTab").and_then(|v| v.parse().ok()).unwrap_or(0),
                "sheet" => {
                    let rid = a.get("r:id").cloned().unwrap_or_default();
                    let target = rel_target.get(&rid).ok_or(format!("sheet r:id {} not in workbook rels", rid))?;
                    let path = if let Some(t) = target.strip_prefix('/') { t.to_string() } else { format!("xl/{}", target) };
                    let xml = part(&mut zip, &path).ok_or(format!("no part {}", path))?;
                    let (dir, file) = path.rsplit_once('/').unwrap_or(("", &path));
                    let srels = part(&mut zip, &format!("{}/_rels/{}.rels", dir, file));
                    let mut ext: BTreeMap<String, (String, String)> = BTreeMap::new();
                    if let Some(sr) = srels {
                        for (n, a, _) in elements(&sr)? {
                            if n == "Relationship" {
                                if ext
                                    .insert(a.get("Id").cloned().unwrap_or_default(), (a.get("Target").cloned().unwrap_or_default(), a.get("Type").cloned().unwrap_or_default()))
                                    .is_some()
                                {
                                    return Err(format!("duplicate relationship Id in rels of {}", path));
                                }
                            }
                        }
                    }
                    let mut fs = FileSheet {
                        name: a.get("name").cloned().unwrap_or_default(),
                        state: a.get("state").cloned().unwrap_or("visible".to_string()),
                        links: Vec::new(),
                        merges: Vec::new(),
                    };
                    for (n, a, _) in elements(&xml)? {
                        match n.as_str() {
                            "mergeCell" => fs.merges.push(a.get("ref").cloned().unwrap_or_default()),
                            "hyperlink" => {
                                let r = a.get("ref").cloned().unwrap_or_default();
                                let tip = a.get("tooltip").cloned().unwrap_or_default();
                                if let Some(id) = a.get("r:id") {
                                    let (t, ty) = ext.get(id).ok_or(format!("hyperlink {} r:id {} not in the sheet rels", r, id))?;
                                    if !ty.ends_with("/hyperlink") {
                                        return Err(format!("hyperlink {} r:id {} has relationship type {}", r, id, ty));
                                    }
                                    fs.links.push((r, "external".to_string(), t.clone(), tip));
                                } else {
                                    fs.links.push((r, "internal".to_string(), a.get("location").cloned().unwrap_or_default(), tip));
                                }
                            }
                            _ => {}
                        }
                    }
                    view.sheets.push(fs);
                }
                "definedName" => view.names.push((a.get("localSheetId").and_then(|v| v.parse().ok()), a.get("name").cloned().unwrap_or_default(), text)),
                _ => {}
            }
        }
        Ok(view)
    }
}

/// The written file, decoded without the library, against the projection before saving.
fn file_agrees(exp: &Proj, bytes: &[u8], fails: &mut Fails) {
    let v = match filecheck::decode(bytes) {
        Ok(v) => v,
        Err(e) => {
            fails.push(("file/undecodable".to_string(), e));
            return;
        }
    };
    let en: Vec<&str> = exp.sheets.iter().map(|s| s.name.as_str()).collect();
    let gn: Vec<&str> = v.sheets.iter().map(|s| s.name.as_str()).collect();
    if en != gn {
        fails.push(("file/sheet-list".to_string(), format!("sheet list {:?} written as {:?}", en, gn)));
        return;
    }
    if v.active_tab != exp.active_tab {
        fails.push(("file/active-tab".to_string(), format!("active tab {} written as {}", exp.active_tab, v.active_tab)));
    }
    for (i, (e, g)) in exp.sheets.iter().zip(v.sheets.iter()).enumerate() {
        let at = format!("file, sheet {} {:?}", i, e.name);
        if e.state != g.state {
            fails.push((format!("file/sheet-state-{}-written-{}", e.state, g.state), format!("{}: state {} written as {}", at, e.state, g.state)));
        }
        let gl: Keyed = g.links.iter().map(|(r, k, t, tip)| (r.clone(), vec![("kind", k.clone()), ("target", t.clone()), ("tooltip", tip.clone())])).collect();
        let mut f2 = Fails::new();
        diff_keyed("hyperlink", &at, &e.kinds["hyperlink"], &gl, &mut f2);
        let gm: Keyed = g.merges.iter().map(|r| (r.split(':').next().unwrap_or("").to_string(), vec![("range", r.clone())])).collect();
        diff_keyed("merge", &at, &e.kinds["merge"], &gm, &mut f2);
        for (k, d) in f2 {
            fails.push((format!("file:{}", k), d));
        }
    }
    // defined names: scope by localSheetId
    let gnames: Keyed = v
        .names
        .iter()
        .map(|(l, n, t)| {
            let scope = match l {
                Some(i) => v.sheets.get(*i as usize).map_or(format!("sheet-index:{}", i), |s| format!("sheet:{}", s.name)),
                None => "workbook".to_string(),
            };
            (format!("{}\u{1}{}", scope, n), vec![("text", canon_name_text(t))])
        })
        .collect();
    let enames: Keyed = exp.names.iter().map(|(a, i)| (a.clone(), vec![("text", i[1].1.clone())])).collect();
    let mut f2 = Fails::new();
    diff_keyed("defined-name", "file", &enames, &gnames, &mut f2);
    for (k, d) in f2 {
        fails.push((format!("file:{}", k), d));
    }
}

// ---------------------------------------------------------------------------------------
// check

fn open_known() -> &'static BTreeSet<String> {
    static K: OnceLock<BTreeSet<String>> = OnceLock::new();
    K.get_or_init(|| load_known().into_iter().filter(|k| k.property == "C06" && k.status == "open").map(|k| k.key).collect())
}

/// Of all discrepancies of a case report one that is not an open known finding, if there is
/// one (a known discrepancy must never hide an unknown one in the same case).
fn verdict_of(fails: Fails) -> Verdict {
    if fails.is_empty() {
        return Verdict::Pass;
    }
    let known = open_known();
    let n = fails.len();
    let (k, d) = fails.iter().find(|(k, _)| !known.contains(k)).unwrap_or(&fails[0]).clone();
    Verdict::fail(k, if n > 1 { format!("{} (+{} more discrepancies: {:?})", d, n - 1, fails.iter().map(|f| f.0.as_str()).collect::<BTreeSet<_>>()) } else { d })
}

fn special(s: &str) -> bool {
    !s.is_ascii() || crate::gen::text::needs_xml_escape(s)
}

fn label(spec: &AnnotWb, obs: &mut Obs) {
    let kept = spec.kept();
    let mut nt = false;
    obs.class(format!("sheets:{}", kept.len()));
    if kept.len() < spec.sheets.len() {
        obs.class("sheet-removed-before-save");
    }
    let mut totals: BTreeMap<&str, usize> = BTreeMap::new();
    for i in &kept {
        let s = &spec.sheets[*i];
        nt |= special(&s.name);
        obs.class(format!("state:{}", ["unset", "visible", "hidden", "veryHidden"][s.state as usize % 4]));
        let ext = s.links.iter().filter(|l| !l.internal).count();
        for (k, n) in [
            ("merge", s.merges.len()),
            ("defined-name", s.names.len()),
            ("hyperlink", s.links.len()),
            ("hyperlink-external", ext),
            ("comment", s.comments.len()),
            ("data-validation", s.validations.len()),
            ("cond-format", s.cond_formats.len()),
        ] {
            *totals.entry(k).or_default() += n;
            if n >= 2 {
                nt = true;
                obs.class(format!("{}>=2", k));
            }
            if n >= 9 {
                obs.class(format!("{}>=9", k));
            }
        }
        nt |= s.links.iter().any(|l| special(&l.target));
        nt |= s.names.iter().any(|n| special(&n.name));
        nt |= s.comments.iter().any(|c| special(&c.author));
        if s.links.iter().any(|l| special(&l.target)) {
            obs.class("hyperlink:special-target");
        }
        // a degenerate external target (empty, blanks only, blanks at the edges) in front of other
        // external links: both parts must still number the links alike
        {
            let mut sorted: Vec<&LinkSpec> = s.links.iter().collect();
            sorted.sort_by_key(|l| (l.row, l.col));
            for (k, l) in sorted.iter().enumerate() {
                if l.internal {
                    continue;
                }
                if let Some(c) = degenerate_url_class(&l.target) {
                    obs.class(format!("hyperlink:degenerate-url:{}", c));
                    if sorted[k + 1..].iter().any(|x| !x.internal) {
                        obs.class(format!(
                            "hyperlink:degenerate-url-before-external{}{}{}",
                            if s.comments.is_empty() { "" } else { "+comments" },
                            if s.page.object_data.is_some() { "+printer-settings" } else { "" },
                            if s.table.is_some() { "+table" } else { "" }
                        ));
                    }
                }
            }
        }
        // an internal link that is written before an external one (the writers go by row, then
        // column): the sheet part and the relationships part must agree that only external
        // links take a relationship id
        let mut sorted: Vec<&LinkSpec> = s.links.iter().collect();
        sorted.sort_by_key(|l| (l.row, l.col));
        let first_internal = sorted.iter().position(|l| l.internal);
        let last_external = sorted.iter().rposition(|l| !l.internal);
        if let (Some(a), Some(bq)) = (first_internal, last_external) {
            if a < bq {
                obs.class("hyperlink:internal-before-external");
                obs.class(format!(
                    "hyperlink:internal-before-external{}{}{}",
                    if s.comments.is_empty() { "" } else { "+comments" },
                    if s.page.object_data.is_some() { "+printer-settings" } else { "" },
                    if s.table.is_some() { "+table" } else { "" }
                ));
            }
        }
        if s.comments.iter().any(|c| c.author.is_empty()) {
            obs.class("comment:empty-author");
        }
        let mut authors = BTreeSet::new();
        if s.comments.iter().any(|c| !authors.insert(&c.author)) {
            obs.class("comment:duplicate-author");
        }
        if s.names.iter().any(|n| n.local) {
            obs.class("defined-name:sheet-scope");
        }
        for n in &s.names {
            match &n.text {
                NameText::Areas { areas, .. } => {
                    if areas.len() > 1 {
                        obs.class("defined-name:multi-area");
                    }
                    if areas.iter().any(|a| quote_sheet(spec.sheet_name_of(a.sheet)).starts_with('\'')) {
                        obs.class("defined-name:quoted-sheet");
                    }
                }
                NameText::Formula { .. } => obs.class("defined-name:formula"),
            }
        }
        for c in &s.cond_formats {
            for r in &c.rules {
                obs.class(format!("cf:{}", CF_TYPES[r.kind as usize]));
                if r.formula.as_deref() == Some("") {
                    obs.class("empty:cf-formula");
                }
                if r.text.as_deref() == Some("") {
                    obs.class("empty:cf-text");
                }
                if r.cfvo.iter().any(|(_, v)| v.as_deref() == Some("")) {
                    obs.class("empty:cfvo-val");
                }
            }
        }
        for v in &s.validations {
            let f1 = v.formula1.as_deref();
            match (f1, v.formula2.as_deref()) {
                (Some(a), Some("")) if !a.is_empty() => obs.class("empty:dv-formula2-behind-formula1"),
                (_, Some("")) => obs.class("empty:dv-formula2"),
                _ => {}
            }
            if f1 == Some("") {
                obs.class("empty:dv-formula1");
            }
            for (n, t) in [("prompt-title", &v.prompt_title), ("prompt", &v.prompt), ("error-title", &v.error_title), ("error", &v.error)] {
                if t.as_deref() == Some("") {
                    obs.class(format!("empty:dv-{}", n));
                }
            }
        }
        if s.links.iter().any(|l| l.tooltip.as_deref() == Some("")) {
            obs.class("empty:tooltip");
        }
        if s.header.as_deref() == Some("") {
            obs.class("empty:header");
        }
        if s.footer.as_deref() == Some("") {
            obs.class("empty:footer");
        }
        if s.comments.iter().any(|c| c.runs.iter().any(|r| r.is_empty())) {
            obs.class("empty:comment-run");
        }
        for (k, on) in [
            ("auto-filter", s.auto_filter.is_some()),
            ("tab-color", s.tab_color.is_some()),
            ("pane", s.view.as_ref().map_or(false, |v| v.pane.is_some())),
            ("selection", s.view.as_ref().map_or(false, |v| !v.selections.is_empty())),
            ("header-footer", s.header.is_some() || s.footer.is_some()),
            ("sheet-protection", s.protection.is_some()),
            ("printer-settings", s.page.object_data.is_some()),
        ] {
            if on {
                obs.class(k);
            }
        }
    }
    {
        // differential styles of the whole workbook: pairs that differ in exactly one part
        let parts = |d: &DxfSpec| {
            let border = if d.border_style == 0 { String::new() } else { format!("{}/{:?}/{}", d.border_style, d.border_argb, if d.border_sides & 15 == 0 { 15 } else { d.border_sides & 15 }) };
            [format!("{}{}{}{:?}", d.bold, d.italic, d.strike, d.font_argb), format!("{:?}", d.bg_argb), border, format!("{}{}", d.align, d.wrap)]
        };
        let mut all: Vec<(usize, [String; 4])> = Vec::new();
        for i in &kept {
            for c in &spec.sheets[*i].cond_formats {
                for r in &c.rules {
                    if let Some(d) = &r.dxf {
                        all.push((*i, parts(d)));
                    }
                }
            }
        }
        let names = ["font", "fill", "border", "alignment"];
        let mut seen = BTreeSet::new();
        for (x, (sx, a)) in all.iter().enumerate() {
            for (sy, bq) in all.iter().skip(x + 1) {
                let differing: Vec<usize> = (0..4).filter(|k| a[*k] != bq[*k]).collect();
                if differing.len() == 1 {
                    seen.insert(format!("dxf:pair-differs-only-in-{}{}", names[differing[0]], if sx != sy { "/across-sheets" } else { "" }));
                }
            }
        }
        for l in seen {
            obs.class(l);
        }
    }
    if !spec.wb_names.is_empty() {
        obs.class("defined-name:workbook-list");
    }
    nt |= spec.wb_names.iter().any(|n| special(&n.name));
    if spec.wb_protection.is_some() {
        obs.class("workbook-protection");
    }
    if spec.active_tab > 0 {
        obs.class("active-tab>0");
    }
    obs.nontrivial(nt);
}

/// `rounds`: how often the same workbook is saved and reloaded.  Every save is judged on its
/// own; more than one round is used where the library's result may differ from save to save
/// (anything gathered through a HashMap), so that a defect that shows with probability p per
/// save is seen with probability 1-(1-p)^rounds per case.
fn check_rounds(case: &Case, obs: &mut Obs, rounds: usize) -> Verdict {
    let spec = &case.wb;
    label(spec, obs);
    let book = match guard(|| build(spec)) {
        Ok(b) => b,
        Err(p) => return Verdict::Discard(format!("build panicked: {}", p.short())),
    };
    let exp = project(&book);
    if let Err(e) = spec_agrees(spec, &exp) {
        if std::env::var("VERIF_SHOW_DISCARDS").is_ok() {
            eprintln!("discard: {}", e);
        }
        return Verdict::Discard(format!("pre-save model mismatch: {}", e));
    }
    let mut fails = Fails::new();
    for round in 0..rounds {
        let bytes = match guard(|| save(&book, case.light)) {
            Ok(Ok(b)) => b,
            Ok(Err(e)) => return Verdict::fail("save/error", e),
            Err(p) => return Verdict::fail(format!("save/panic:{}", p.site()), p.short()),
        };
        let mut base: Option<Proj> = None;
        match guard(|| load(&bytes)) {
            Ok(Ok(loaded)) => {
                let got = project(&loaded);
                fails.extend(diff(&exp, &got));
                base = Some(got);
            }
            Ok(Err(e)) => fails.push(("reload/error".to_string(), e)),
            Err(p) => fails.push((format!("reload/panic:{}", p.site()), p.short())),
        }
        file_agrees(&exp, &bytes, &mut fails);
        // stage two: the same statement on the lazy code path.  The workbook of this stage is the
        // file just written, so its expectation starts from what the eager reload of that file
        // showed (identical to `exp` whenever stage one held).
        if let (Some(plan), Some(base)) = (&case.lazy, &base) {
            lazy_stage(plan, base, &bytes, round == 0, obs, &mut fails);
        }
        if !fails.is_empty() {
            break;
        }
    }
    verdict_of(fails)
}

/// Sheets that a defined name refers to in any way (owner of a sheet-scope name, sheet of an
/// area, or mentioned in a formula text): renaming or removing those would change defined
/// names by the rules of the edit itself, which is not what this property is about.
fn sheets_in_names(p: &Proj) -> BTreeSet<String> {
    let mut busy = BTreeSet::new();
    for (anchor, item) in &p.names {
        let scope = anchor.split('\u{1}').next().unwrap_or("");
        if let Some(n) = scope.strip_prefix("sheet:") {
            busy.insert(n.to_string());
        }
        let text = &item[1].1;
        if let Some(areas) = text.strip_prefix("areas:") {
            for a in areas.split('\u{2}') {
                busy.insert(a.split('\u{1}').next().unwrap_or("").to_string());
            }
        } else {
            for s in &p.sheets {
                if text.contains(&s.name) || text.contains(&s.name.replace('\'', "''")) {
                    busy.insert(s.name.clone());
                }
            }
        }
    }
    busy
}

fn fresh_sheet_name(base: &str, taken: &[SheetProj]) -> String {
    let mut k = 0;
    loop {
        let n = if k == 0 { base.to_string() } else { format!("{} {}", base, k) };
        if !taken.iter().any(|s| s.name.to_lowercase() == n.to_lowercase()) {
            return n;
        }
        k += 1;
    }
}

/// Apply the plan to the lazily opened workbook and, in step, to the expectation.
fn run_plan(book: &mut Spreadsheet, plan: &LazyPlan, exp: &mut Proj, labels: &mut Vec<String>) {
    let busy = sheets_in_names(exp);
    // loaded[i] belongs to exp.sheets[i]
    let mut loaded: Vec<bool> = vec![false; exp.sheets.len()];
    let mut original: Vec<bool> = vec![true; exp.sheets.len()];
    let mut list_change_while_unloaded = false;
    let mut edited = false;
    for st in &plan.steps {
        let n = exp.sheets.len();
        match st {
            LazyStep::ReadSheet(i) => {
                let i = pick_idx(*i, n);
                book.read_sheet(i);
                loaded[i] = true;
            }
            LazyStep::GetSheetMut(i) => {
                let i = pick_idx(*i, n);
                let _ = book.get_sheet_mut(&i).expect("sheet index in range");
                loaded[i] = true;
            }
            LazyStep::GetByNameMut(i) => {
                let i = pick_idx(*i, n);
                let name = exp.sheets[i].name.clone();
                let _ = book.get_sheet_by_name_mut(&name).expect("sheet of that name exists");
                loaded[i] = true;
            }
            LazyStep::ReadByName(i) => {
                let i = pick_idx(*i, n);
                let name = exp.sheets[i].name.clone();
                book.read_sheet_by_name(&name);
                loaded[i] = true;
            }
            LazyStep::ReadAll => {
                book.read_sheet_collection();
                loaded.iter_mut().for_each(|l| *l = true);
            }
            LazyStep::EditCell { sheet, col, row, text } => {
                let i = pick_idx(*sheet, n);
                book.get_sheet_mut(&i).expect("sheet index in range").get_cell_mut((*col, *row)).set_value_string(text.clone());
                loaded[i] = true;
                edited = true;
            }
            LazyStep::AddSheet => {
                let name = fresh_sheet_name("Added&<1>", &exp.sheets);
                book.new_sheet(name.clone()).expect("fresh name");
                let mut scratch = umya_spreadsheet::new_file_empty_worksheet();
                let sp = project_sheet(scratch.new_sheet(name).expect("fresh name"));
                list_change_while_unloaded |= loaded.iter().any(|l| !*l);
                exp.sheets.push(sp);
                loaded.push(true);
                original.push(false);
            }
            LazyStep::RemoveSheet(i) => {
                let start = pick_idx(*i, n);
                let active = exp.active_tab as usize;
                let pick = (0..n).map(|k| (start + k) % n).find(|j| {
                    if n < 2 || busy.contains(&exp.sheets[*j].name) || active >= n - 1 {
                        return false;
                    }
                    // the sheet the active tab points at once j is gone
                    let after = if active >= *j { active + 1 } else { active };
                    exp.sheets[after].state == "visible"
                });
                if let Some(j) = pick {
                    list_change_while_unloaded |= loaded.iter().any(|l| !*l);
                    book.remove_sheet(j).expect("index in range");
                    exp.sheets.remove(j);
                    loaded.remove(j);
                    original.remove(j);
                }
            }
            LazyStep::Rename(i) => {
                let start = pick_idx(*i, n);
                if let Some(j) = (0..n).map(|k| (start + k) % n).find(|j| !busy.contains(&exp.sheets[*j].name)) {
                    let name = fresh_sheet_name("Renamed 'x'", &exp.sheets);
                    list_change_while_unloaded |= loaded.iter().any(|l| !*l);
                    book.set_sheet_name(j, name.clone()).expect("fresh name");
                    exp.sheets[j].name = name;
                }
            }
        }
    }
    let orig_loaded: Vec<bool> = loaded.iter().zip(original.iter()).filter(|(_, o)| **o).map(|(l, _)| *l).collect();
    let k = orig_loaded.iter().filter(|l| **l).count();
    labels.push(format!("lazy:materialised-{}", if k == 0 { "none" } else if k == orig_loaded.len() { "all" } else { "some" }));
    let needs_rels = |s: &SheetProj| {
        !s.kinds["comment"].is_empty() || s.kinds["hyperlink"].iter().any(|(_, i)| i[0].1 == "external") || s.kinds["page-setup"].iter().any(|(_, i)| i[7].1 != "None")
    };
    let mut unloaded_before = false;
    let mut behind = false;
    let mut behind_rels = false;
    for (i, l) in loaded.iter().enumerate() {
        if !*l {
            unloaded_before = true;
        } else if unloaded_before {
            behind = true;
            behind_rels |= needs_rels(&exp.sheets[i]);
        }
    }
    if behind {
        labels.push("lazy:loaded-behind-unloaded".to_string());
    }
    if behind_rels {
        labels.push("lazy:loaded-behind-unloaded+comments/links/printer-settings".to_string());
    }
    if list_change_while_unloaded {
        labels.push("lazy:sheet-list-change-while-unloaded".to_string());
    }
    if edited {
        labels.push("lazy:cell-edit".to_string());
    }
}

fn lazy_stage(plan: &LazyPlan, base: &Proj, bytes: &[u8], first_round: bool, obs: &mut Obs, fails: &mut Fails) {
    let mut book = match guard(|| umya_spreadsheet::reader::xlsx::read_reader(std::io::Cursor::new(bytes.to_vec()), false)) {
        Ok(Ok(b)) => b,
        Ok(Err(e)) => {
            fails.push(("lazy:open/error".to_string(), format!("{:?}", e)));
            return;
        }
        Err(p) => {
            fails.push((format!("lazy:open/panic:{}", p.site()), p.short()));
            return;
        }
    };
    let mut exp = base.clone();
    let mut labels = Vec::new();
    if let Err(p) = guard(|| run_plan(&mut book, plan, &mut exp, &mut labels)) {
        fails.push((format!("lazy:materialise/panic:{}", p.site()), p.short()));
        return;
    }
    if first_round {
        for l in labels {
            obs.class(l);
        }
    }
    let bytes2 = match guard(|| save(&book, plan.light)) {
        Ok(Ok(b)) => b,
        Ok(Err(e)) => {
            fails.push(("lazy:save/error".to_string(), e));
            return;
        }
        Err(p) => {
            fails.push((format!("lazy:save/panic:{}", p.site()), p.short()));
            return;
        }
    };
    let mut f2 = Fails::new();
    match guard(|| load(&bytes2)) {
        Ok(Ok(loaded)) => f2.extend(diff(&exp, &project(&loaded))),
        Ok(Err(e)) => f2.push(("reload/error".to_string(), e)),
        Err(p) => f2.push((format!("reload/panic:{}", p.site()), p.short())),
    }
    file_agrees(&exp, &bytes2, &mut f2);
    for (k, d) in f2 {
        fails.push((format!("lazy:{}", k), format!("after lazy reopen, {:?}, second save: {}", plan.steps, d)));
    }
}

fn check(case: &Case, obs: &mut Obs) -> Verdict {
    check_rounds(case, obs, 1)
}

fn check_links(case: &Case, obs: &mut Obs) -> Verdict {
    obs.excluded("worksheet-active-cell/lost");
    check_rounds(case, obs, 4)
}

/// Clean strata: the input features of open known findings are left out (and counted).
fn check_clean(case: &Case, obs: &mut Obs) -> Verdict {
    // the clean strata never call Worksheet::set_active_cell and never put a blank at the edge
    // of a header/footer text (input features of the two open findings)
    obs.excluded("worksheet-active-cell/lost");
    if case.wb.sheets.iter().any(|s| s.header.is_some() || s.footer.is_some()) {
        obs.excluded("header-footer/edge-blank-trimmed");
    }
    check(case, obs)
}

pub fn lazy_plan() -> BoxedStrategy<LazyPlan> {
    let step = prop_oneof![
        3 => any::<u16>().prop_map(LazyStep::ReadSheet),
        3 => any::<u16>().prop_map(LazyStep::GetSheetMut),
        2 => any::<u16>().prop_map(LazyStep::GetByNameMut),
        1 => any::<u16>().prop_map(LazyStep::ReadByName),
        1 => Just(LazyStep::ReadAll),
        2 => (any::<u16>(), crate::gen::wb::col_pos(), crate::gen::wb::row_pos(), crate::gen::text::nonempty_text(8)).prop_map(|(sheet, col, row, text)| LazyStep::EditCell { sheet, col, row, text }),
        1 => Just(LazyStep::AddSheet),
        1 => any::<u16>().prop_map(LazyStep::RemoveSheet),
        1 => any::<u16>().prop_map(LazyStep::Rename),
    ];
    (prop::collection::vec(step, 0..=5), prop::bool::weighted(0.2)).prop_map(|(steps, light)| LazyPlan { steps, light }).boxed()
}

fn strategy_clean(t: Tier) -> BoxedStrategy<Case> {
    (annot_wb(t, Feat::CLEAN), prop::bool::weighted(0.2), prop::option::weighted(0.5, lazy_plan())).prop_map(|(wb, light, lazy)| Case { wb, light, lazy }).boxed()
}

fn strategy_links(t: Tier) -> BoxedStrategy<Case> {
    (links_wb(t), prop::bool::weighted(0.2), prop::option::weighted(0.6, lazy_plan())).prop_map(|(wb, light, lazy)| Case { wb, light, lazy }).boxed()
}

fn strategy_dirty(t: Tier) -> BoxedStrategy<Case> {
    (annot_wb(t, Feat::ALL), prop::bool::weighted(0.2), prop::option::weighted(0.5, lazy_plan())).prop_map(|(wb, light, lazy)| Case { wb, light, lazy }).boxed()
}

fn subs() -> Vec<Box<dyn DynSub>> {
    vec![
        Box::new(Sub {
            name: "roundtrip",
            strategy: strategy_clean,
            cases: (280, 6000),
            check: check_clean,
            max_shrink_iters: 800,
        }),
        Box::new(Sub {
            name: "hyperlinks",
            strategy: strategy_links,
            cases: (150, 3000),
            check: check_links,
            max_shrink_iters: 500,
        }),
        Box::new(Sub {
            name: "dirty",
            strategy: strategy_dirty,
            cases: (30, 600),
            check,
            max_shrink_iters: 800,
        }),
    ]
}
