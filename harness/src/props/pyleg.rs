//! Python legs shared by C04 and C11: what an independent decoder (pytools/ooxml_decode.py)
//! says about the files of a save chain / of a lazily saved workbook.
//!
//! * `validate_clean`   — the validator of DESIGN 3.6 accepts the bytes;
//! * `sheet_projection` — what the library models of one decoded sheet: cells (kind, value,
//!   formula, RESOLVED style through cellXfs), merges, hyperlinks, comments, validation and
//!   conditional-format ranges.  Style / shared-string / relationship numbering is not part
//!   of it (renumbering is a declared normalisation);
//! * `book_projection`  — sheet list + defined names + every sheet projection;
//! * `diff_exact`       — first difference between two complete decodes (generations 1/2/3
//!   must be identical down to table sizes).
use crate::engine::*;
use crate::props::c03::normalise_sheet_quotes;
use crate::pyworker::{self, DApply, DColor, DSheet, DXf, Decoded, RuleViolation};
use serde_json::{json, Value};
use std::collections::BTreeMap;

/// Finding from a Python leg: key suffix (the caller prefixes the source class) and detail.
#[derive(Debug, Clone)]
pub struct PyDisc {
    pub key: String,
    pub detail: String,
}

pub fn validate_and_decode(bytes: &[u8], what: &str) -> Result<Decoded, PyDisc> {
    let (viol, dec) = pyworker::both(bytes);
    rules_clean(&viol, what)?;
    dec.map_err(|e| PyDisc { key: format!("{}/python-cannot-decode", what), detail: e })
}

pub fn rules_clean(viol: &[RuleViolation], what: &str) -> Result<(), PyDisc> {
    if let Some(v) = viol.first() {
        let mut rules: Vec<&str> = viol.iter().map(|v| v.rule.as_str()).collect();
        rules.sort();
        rules.dedup();
        return Err(PyDisc {
            key: format!("{}/invalid-package/{}", what, v.rule),
            detail: format!("{}: {} [{}] (all rules: {:?})", what, v.detail, v.part, rules),
        });
    }
    Ok(())
}

fn color(c: &Option<DColor>) -> Value {
    match c {
        None => Value::Null,
        Some(c) => {
            // a tint of 0 and no tint are the same colour
            let tint = c.tint.as_ref().and_then(|t| t.trim().parse::<f64>().ok()).filter(|t| *t != 0.0);
            if c.rgb.is_none() && c.theme.is_none() && c.indexed.is_none() {
                // <color auto="1"/> or an empty colour element: the automatic colour, like no element
                return Value::Null;
            }
            json!({"rgb": c.rgb.as_ref().map(|s| s.to_uppercase()), "theme": c.theme, "indexed": c.indexed, "tint": tint})
        }
    }
}

fn off(xf: &DXf, pick: fn(&DApply) -> Option<bool>) -> bool {
    pick(&xf.apply) == Some(false) || xf.style_apply.as_ref().map_or(false, |a| pick(a) == Some(false))
}

fn num(s: &Option<String>) -> Value {
    match s.as_ref().and_then(|x| x.trim().parse::<f64>().ok()) {
        Some(f) => json!(f),
        None => json!(s),
    }
}

/// Resolved style of one cellXfs record, restricted to what the library models.  A component
/// whose applyX flag is explicitly 0 is `"flag-off"` (readers disagree about it; it is
/// compared only as such).
pub fn style_projection(xf: &DXf) -> Value {
    let numfmt = if off(xf, |a| a.number_format) {
        json!("flag-off")
    } else if xf.num_fmt_builtin {
        if xf.num_fmt_id == 0 {
            Value::Null
        } else {
            json!({"builtin": xf.num_fmt_id})
        }
    } else if xf.num_fmt_code.as_deref() == Some("General") {
        Value::Null
    } else {
        json!({"code": xf.num_fmt_code})
    };
    let font = if off(xf, |a| a.font) {
        json!("flag-off")
    } else {
        match &xf.font {
            None => Value::Null,
            Some(f) => json!({"name": f.name, "size": num(&f.size), "b": f.bold, "i": f.italic, "strike": f.strike,
                "u": f.underline.clone().filter(|u| u != "none"), "color": color(&f.color), "vert": f.vert_align,
                "family": f.family, "charset": f.charset, "scheme": f.scheme}),
        }
    };
    let fill = if off(xf, |a| a.fill) {
        json!("flag-off")
    } else {
        match &xf.fill {
            None => Value::Null,
            Some(f) if f.kind == "pattern" => {
                let p = f.pattern.clone().unwrap_or_else(|| "none".into());
                if p == "none" && f.fg.is_none() && f.bg.is_none() {
                    Value::Null
                } else {
                    json!({"pattern": p, "fg": color(&f.fg), "bg": color(&f.bg)})
                }
            }
            Some(f) => json!({"kind": f.kind}),
        }
    };
    let border = if off(xf, |a| a.border) {
        json!("flag-off")
    } else {
        match &xf.border {
            None => Value::Null,
            Some(b) => {
                let side = |s: &Option<pyworker::DBorderSide>| -> Value {
                    match s {
                        Some(s) if s.style.as_deref().map_or(false, |x| x != "none") => json!({"style": s.style, "color": color(&s.color)}),
                        _ => Value::Null,
                    }
                };
                let v = json!({"l": side(&b.left), "r": side(&b.right), "t": side(&b.top), "b": side(&b.bottom), "d": side(&b.diagonal),
                    "up": b.diagonal_up && b.diagonal.as_ref().map_or(false, |d| d.style.is_some()), "down": b.diagonal_down && b.diagonal.as_ref().map_or(false, |d| d.style.is_some())});
                if v == json!({"l": null, "r": null, "t": null, "b": null, "d": null, "up": false, "down": false}) {
                    Value::Null
                } else {
                    v
                }
            }
        }
    };
    let alignment = if off(xf, |a| a.alignment) || (xf.alignment.is_none() && xf.style_alignment.is_some()) {
        // no <alignment> of its own while the cellStyleXfs record has one: Excel shows the
        // default, readers that fall back to the style record (this library) show that one
        json!("flag-off")
    } else {
        match &xf.alignment {
            None => Value::Null,
            Some(a) => {
                let h = a.horizontal.clone().filter(|x| x != "general");
                let v = a.vertical.clone().filter(|x| x != "bottom");
                let w = a.wrap_text.unwrap_or(false);
                let r = a.text_rotation.as_ref().and_then(|s| s.trim().parse::<u32>().ok()).unwrap_or(0);
                if h.is_none() && v.is_none() && !w && r == 0 {
                    Value::Null
                } else {
                    json!({"h": h, "v": v, "wrap": w, "rot": r})
                }
            }
        }
    };
    let protection = if off(xf, |a| a.protection) || (xf.protection.is_none() && xf.style_protection.is_some()) {
        json!("flag-off")
    } else {
        match &xf.protection {
            None => Value::Null,
            Some(p) => {
                let l = p.locked.unwrap_or(true);
                let h = p.hidden.unwrap_or(false);
                if l && !h {
                    Value::Null
                } else {
                    json!({"locked": l, "hidden": h})
                }
            }
        }
    };
    json!({"numfmt": numfmt, "font": font, "fill": fill, "border": border, "alignment": alignment, "protection": protection})
}

fn a1_key(row: u32, col: u32) -> String {
    format!("{:07}:{:05}", row, col)
}

/// What the library models of one sheet, as location -> canonical JSON text.
pub fn sheet_projection(d: &Decoded, s: &DSheet) -> BTreeMap<String, String> {
    let styles: Vec<Value> = d.styles.cell_xfs.iter().map(style_projection).collect();
    let default_style = styles.first().cloned().unwrap_or(Value::Null);
    let mut m = BTreeMap::new();
    for c in &s.cells {
        let style = styles.get(c.s as usize).cloned().unwrap_or(Value::Null);
        let empty_value = c.kind == "blank" || ((c.kind == "text" || c.kind == "rich") && c.value.is_empty());
        let formula = if c.f_uncertain { Some("<uncertain>".to_string()) } else { c.formula.clone().filter(|f| !f.is_empty()) };
        if empty_value && formula.is_none() && style == default_style {
            continue; // shows nothing: dropped (declared normalisation)
        }
        let value = match c.kind.as_str() {
            "number" => json!({"n": c.bits}),
            "text" | "rich" => {
                if c.ws_ambiguous {
                    json!({"t": c.value.trim_matches(|x| x == ' ' || x == '\t' || x == '\r' || x == '\n')})
                } else {
                    json!({"t": c.value})
                }
            }
            k => json!({k: c.value}),
        };
        let kind = if empty_value { "blank" } else { c.kind.as_str() };
        let runs: Option<Vec<&str>> = c.runs.as_ref().map(|r| r.iter().map(|x| x.text.as_str()).collect());
        m.insert(
            format!("cell/{}/{}", a1_key(c.row, c.col), c.r),
            json!({"kind": kind, "value": if empty_value { Value::Null } else { value }, "formula": formula.map(|f| f.trim().to_string()), "runs": runs, "style": style}).to_string(),
        );
    }
    // column settings: <col min max> spans are split / merged freely by writers, so they are
    // brought into canonical maximal intervals first
    let mut ivals: Vec<(u32, u32, String)> = Vec::new();
    for c in &s.cols {
        let (Some(mn), Some(mx)) = (c.min, c.max) else { continue };
        let st = c.style.and_then(|i| styles.get(i as usize).cloned()).unwrap_or(default_style.clone());
        // widths are left to the library-side dump (C05): writers add default-width entries
        // for touched columns, which an independent decoder cannot tell from "no entry"
        if !c.hidden && st == default_style {
            continue;
        }
        let props = json!({"hidden": c.hidden, "style": if st == default_style { Value::Null } else { st }}).to_string();
        ivals.push((mn, mx, props));
    }
    ivals.sort();
    let mut merged_cols: Vec<(u32, u32, String)> = Vec::new();
    for (mn, mx, p) in ivals {
        match merged_cols.last_mut() {
            Some(last) if last.2 == p && last.1 + 1 >= mn => last.1 = last.1.max(mx),
            _ => merged_cols.push((mn, mx, p)),
        }
    }
    for (mn, mx, p) in merged_cols {
        m.insert(format!("col/{:05}-{:05}", mn, mx), p);
    }
    for r in &s.rows {
        let st = r.s.and_then(|i| styles.get(i as usize).cloned()).unwrap_or(default_style.clone());
        let ht = if r.custom_height || r.ht.is_some() { num(&r.ht) } else { Value::Null };
        if ht.is_null() && !r.hidden && st == default_style {
            continue;
        }
        m.insert(format!("row/{:07}", r.r), json!({"ht": ht, "hidden": r.hidden, "style": if st == default_style { Value::Null } else { st }}).to_string());
    }
    for r in &s.merged {
        if let Some(r) = r {
            m.insert(format!("merge/{}", r), "1".into());
        }
    }
    for h in &s.hyperlinks {
        let r = h.r.clone().unwrap_or_default();
        m.insert(format!("hyperlink/{}", r), json!({"target": h.target, "location": h.location, "tooltip": h.tooltip.clone().filter(|t| !t.is_empty())}).to_string());
    }
    for c in &s.comments {
        m.insert(format!("comment/{}", c.r.clone().unwrap_or_default()), json!({"author": c.author, "text": c.text}).to_string());
    }
    for (i, v) in s.data_validations.iter().enumerate() {
        m.insert(format!("validation/{}/{}", v.sqref.clone().unwrap_or_default(), i), json!({"type": v.kind, "f1": v.formula1, "f2": v.formula2}).to_string());
    }
    for (i, c) in s.conditional_formats.iter().enumerate() {
        m.insert(format!("cf/{}/{}", c.sqref.clone().unwrap_or_default(), i), json!({"rules": c.rules, "types": c.types}).to_string());
    }
    m
}

/// sheet list, defined names and all sheet projections
pub fn book_projection(d: &Decoded) -> BTreeMap<String, String> {
    let mut m = BTreeMap::new();
    m.insert("book/sheets".into(), json!(d.sheets.iter().map(|s| (s.name.clone(), s.state.clone())).collect::<Vec<_>>()).to_string());
    let mut names: Vec<(String, Option<u32>, String, bool)> = d
        .defined_names
        .iter()
        .map(|n| (n.name.clone().unwrap_or_default(), n.local_sheet_id, normalise_sheet_quotes(&n.text), n.hidden))
        .collect();
    names.sort();
    for (i, n) in names.iter().enumerate() {
        m.insert(format!("book/defined-name/{}/{}", n.0, i), json!(n).to_string());
    }
    for (i, s) in d.sheets.iter().enumerate() {
        if s.kind != "worksheet" {
            continue;
        }
        for (k, v) in sheet_projection(d, s) {
            m.insert(format!("sheet[{}]/{}", i, k), v);
        }
    }
    m
}

/// "sheet[0]/cell/0000001:00001/A1" -> "cell"; "book/defined-name/x/0" -> "defined-name"
pub fn loc_class(loc: &str) -> String {
    let p: Vec<&str> = loc.split('/').collect();
    p.get(1).unwrap_or(&p[0]).to_string()
}

/// First difference of two projections: (location, left, right).
pub fn diff_projection(a: &BTreeMap<String, String>, b: &BTreeMap<String, String>) -> Option<(String, String, String)> {
    for (k, v) in a {
        match b.get(k) {
            None => return Some((k.clone(), v.clone(), "<absent>".into())),
            Some(w) if w != v && !equal_modulo_flag_off(v, w) => return Some((k.clone(), v.clone(), w.clone())),
            _ => {}
        }
    }
    for (k, w) in b {
        if !a.contains_key(k) {
            return Some((k.clone(), "<absent>".into(), w.clone()));
        }
    }
    None
}

/// Cell entries are equal when they differ only in style components that one side marks
/// "flag-off" (applyX="0": Excel ignores the flag, other readers honour it).
fn equal_modulo_flag_off(a: &str, b: &str) -> bool {
    if !a.contains("flag-off") && !b.contains("flag-off") {
        return false;
    }
    let (Ok(mut x), Ok(mut y)) = (serde_json::from_str::<Value>(a), serde_json::from_str::<Value>(b)) else { return false };
    for k in ["numfmt", "font", "fill", "border", "alignment", "protection"] {
        if x["style"][k] == json!("flag-off") || y["style"][k] == json!("flag-off") {
            x["style"][k] = Value::Null;
            y["style"][k] = Value::Null;
        }
    }
    x == y
}

/// Which component of a cell entry differs (narrower key): kind / value / formula / runs / style:<component>
pub fn cell_component(a: &str, b: &str) -> String {
    let (Ok(x), Ok(y)) = (serde_json::from_str::<Value>(a), serde_json::from_str::<Value>(b)) else { return "entry".into() };
    for k in ["kind", "value", "formula", "runs"] {
        if x[k] != y[k] {
            return k.to_string();
        }
    }
    for k in ["numfmt", "font", "fill", "border", "alignment", "protection"] {
        if x["style"][k] != y["style"][k] {
            return format!("style-{}", k);
        }
    }
    "entry".into()
}

fn first_json_diff(path: &str, a: &Value, b: &Value) -> Option<(String, String, String)> {
    if a == b {
        return None;
    }
    match (a, b) {
        (Value::Object(x), Value::Object(y)) => {
            for (k, v) in x {
                match y.get(k) {
                    None => return Some((format!("{}/{}", path, k), v.to_string(), "<absent>".into())),
                    Some(w) => {
                        if let Some(d) = first_json_diff(&format!("{}/{}", path, k), v, w) {
                            return Some(d);
                        }
                    }
                }
            }
            for (k, w) in y {
                if !x.contains_key(k) {
                    return Some((format!("{}/{}", path, k), "<absent>".into(), w.to_string()));
                }
            }
            None
        }
        (Value::Array(x), Value::Array(y)) => {
            if x.len() != y.len() {
                return Some((format!("{}/len", path), x.len().to_string(), y.len().to_string()));
            }
            for (i, (v, w)) in x.iter().zip(y.iter()).enumerate() {
                if let Some(d) = first_json_diff(&format!("{}[{}]", path, i), v, w) {
                    return Some(d);
                }
            }
            None
        }
        _ => Some((path.to_string(), a.to_string(), b.to_string())),
    }
}

/// Path class of an exact-diff location: indices removed ("sheets[2]/cells[17]/s" -> "sheets/cells/s").
pub fn path_class(path: &str) -> String {
    let mut out = String::new();
    let mut skip = false;
    for ch in path.trim_start_matches('/').chars() {
        match ch {
            '[' => skip = true,
            ']' => skip = false,
            c if !skip => out.push(c),
            _ => {}
        }
    }
    out
}

/// Two complete decodes must be identical (generations 1, 2, 3 of a save chain).
pub fn diff_exact(a: &Decoded, b: &Decoded) -> Option<(String, String, String)> {
    if a == b {
        return None;
    }
    // declared normalisations: a cell that shows nothing (no value, no formula, cellXfs[0])
    // may be dropped by a later generation; <dimension> is derived data
    let norm = |d: &Decoded| -> Decoded {
        let mut d = d.clone();
        // style numbering is not content: every index is replaced by a fingerprint of the
        // record it resolves to, and the tables themselves are compared by size elsewhere
        let fp: Vec<u32> = d.styles.cell_xfs.iter().map(|x| (fnv(style_projection(x).to_string().as_bytes()) & 0x7fff_ffff) as u32).collect();
        let map = |i: u32| -> u32 { fp.get(i as usize).cloned().unwrap_or(i) };
        d.styles = Default::default();
        d.shared_strings.items.clear();
        d.defined_names.sort_by(|a, b| (a.name.clone(), a.local_sheet_id, a.text.clone()).cmp(&(b.name.clone(), b.local_sheet_id, b.text.clone())));
        for s in d.sheets.iter_mut() {
            for c in s.cells.iter_mut() {
                c.s = map(c.s);
                c.has_s = true;
                c.sst_index = None;
            }
            for r in s.rows.iter_mut() {
                r.s = r.s.map(map);
            }
            // <col> spans are split and merged freely; the style of xf 0 is no style
            let default_fp = fp.first().cloned().unwrap_or(0);
            let mut cols = s.cols.clone();
            for c in cols.iter_mut() {
                c.style = c.style.map(map).filter(|f| *f != default_fp);
            }
            cols.sort_by_key(|c| c.min);
            let mut merged: Vec<pyworker::DCol> = Vec::new();
            for c in cols {
                match merged.last_mut() {
                    Some(l) if l.max.map(|m| m + 1) >= c.min && l.width == c.width && l.hidden == c.hidden && l.style == c.style && l.custom_width == c.custom_width && l.best_fit == c.best_fit => {
                        l.max = l.max.max(c.max);
                    }
                    _ => merged.push(c),
                }
            }
            s.cols = merged;
            for r in s.rows.iter_mut() {
                r.s = r.s.filter(|f| *f != default_fp);
                if r.s.is_none() {
                    r.custom_format = false;
                }
            }
            s.dimension = None;
            // the list of child elements is structure, not content (an empty <headerFooter>
            // or <pageMargins/> may be written by one generation and not by the next); the
            // order of children is the validator's business
            s.children.clear();
            for r in s.rows.iter_mut() {
                r.spans = None; // optimisation hint, derived from the cells
            }
            let default_fp = fp.first().cloned().unwrap_or(0);
            s.cells.retain(|c| !(c.kind == "blank" && c.s == default_fp && c.formula.as_deref().map_or(true, |f| f.is_empty())));
        }
        d
    };
    let (a, b) = (norm(a), norm(b));
    if a == b {
        return None;
    }
    let (x, y) = (serde_json::to_value(&a).unwrap(), serde_json::to_value(&b).unwrap());
    first_json_diff("", &x, &y).or(Some(("unknown".into(), String::new(), String::new())))
}

/// Decoding a 300 000-cell workbook costs about a gigabyte (JSON + typed structs + two
/// projections): cases with a large file take this lock, so that at most one of them is in
/// its Python leg at a time whatever the number of shards (no verdict depends on it).
static BIG_CASE: std::sync::Mutex<()> = std::sync::Mutex::new(());
/// a workbook with more cells than this is "big"
pub const BIG_CELLS: usize = 40_000;

fn big_guard(big: bool) -> Option<std::sync::MutexGuard<'static, ()>> {
    if big {
        Some(BIG_CASE.lock().unwrap_or_else(|e| e.into_inner()))
    } else {
        None
    }
}

/// C04 Python leg.  `orig` = the source file (corpus) or None (workbook built through the API).
pub fn c04_leg(src: &str, orig: Option<&[u8]>, b1: &[u8], b2: &[u8], b3: &[u8], big: bool) -> Result<(), PyDisc> {
    let _big = big_guard(big);
    if let Ok(dir) = std::env::var("VERIF_PYLEG_DUMP") {
        let _ = std::fs::create_dir_all(&dir);
        let _ = std::fs::write(format!("{}/gen1.xlsx", dir), b1);
        let _ = std::fs::write(format!("{}/gen2.xlsx", dir), b2);
    }
    let d1 = validate_and_decode(b1, "gen1")?;
    if let Some(o) = orig {
        // the source itself must be a valid package, else "valid xlsx file" does not apply
        let (viol, dec) = pyworker::both(o);
        if viol.is_empty() {
            if let Ok(d0) = dec {
                if let Some((loc, l, r)) = diff_projection(&book_projection(&d0), &book_projection(&d1)) {
                    let class = loc_class(&loc);
                    let comp = if class == "cell" {
                        format!("cell-{}", cell_component(&l, &r))
                    } else if class == "defined-name" && l.contains("\\\"") {
                        "defined-name-string-constant".to_string()
                    } else {
                        class
                    };
                    return Err(PyDisc { key: format!("{}/py-orig-vs-gen1/{}", src, comp), detail: format!("{}: independent decode of the original vs of the first re-save: {}", loc, truncate(&crate::dump::focus_diff(&l, &r), 900)) });
                }
            }
        }
    }
    let d2 = validate_and_decode(b2, "gen2")?;
    if let Some((loc, l, r)) = diff_exact(&d1, &d2) {
        return Err(PyDisc { key: format!("{}/py-gen1-vs-gen2/{}", src, path_class(&loc)), detail: format!("{}: {} vs {}", loc, truncate(&l, 300), truncate(&r, 300)) });
    }
    let d3 = validate_and_decode(b3, "gen3")?;
    if d2.styles.counts != d3.styles.counts || d2.shared_strings.si != d3.shared_strings.si {
        return Err(PyDisc {
            key: format!("{}/py-table-sizes-grow", src),
            detail: format!("styles.xml / sharedStrings sizes gen2 {:?} si {} vs gen3 {:?} si {}", d2.styles.counts, d2.shared_strings.si, d3.styles.counts, d3.shared_strings.si),
        });
    }
    if let Some((loc, l, r)) = diff_exact(&d2, &d3) {
        return Err(PyDisc { key: format!("{}/py-gen2-vs-gen3/{}", src, path_class(&loc)), detail: format!("{}: {} vs {}", loc, truncate(&l, 300), truncate(&r, 300)) });
    }
    Ok(())
}

/// C11 Python leg: `saved` = file written from the lazily opened workbook; `untouched` =
/// (index in the saved file, index in the original, still raw at save time) of every sheet
/// no operation edited.
/// `eager_saved` = the file the eagerly opened twin wrote after the same history: rules it
/// breaks as well (an insert that pushes content off the grid, ...) are not a lazy/eager matter.
pub fn c11_leg(src: &str, orig: &[u8], eager_saved: &[u8], saved: &[u8], untouched: &[(usize, usize, bool)], big: bool) -> Result<(), PyDisc> {
    if std::env::var("VERIF_NO_PYLEG").is_ok() {
        return Ok(());
    }
    let _big = big_guard(big);
    let (mut viol0, d0) = pyworker::both(orig);
    let (viol1, dec1) = pyworker::both(saved);
    if !viol1.is_empty() {
        viol0.extend(pyworker::validate(eager_saved));
    }
    let fresh: Vec<RuleViolation> = viol1.into_iter().filter(|v| !viol0.iter().any(|b| b.rule == v.rule)).collect();
    rules_clean(&fresh, "lazy-saved")?;
    let d1 = dec1.map_err(|e| PyDisc { key: "lazy-saved/python-cannot-decode".into(), detail: e })?;
    let Ok(d0) = d0 else { return Ok(()) };
    for (now, was, raw) in untouched {
        let (Some(s1), Some(s0)) = (d1.sheets.get(*now), d0.sheets.get(*was)) else {
            return Err(PyDisc { key: format!("{}/py-untouched-sheet-missing", src), detail: format!("sheet {} (original {}) is not in the decoded file", now, was) });
        };
        if s0.kind != "worksheet" {
            continue;
        }
        let (p0, p1) = (sheet_projection(&d0, s0), sheet_projection(&d1, s1));
        if let Some((loc, l, r)) = diff_projection(&p0, &p1) {
            let class = loc.split('/').next().unwrap_or("").to_string();
            let comp = if class == "cell" { format!("cell-{}", cell_component(&l, &r)) } else { class };
            return Err(PyDisc {
                key: format!("{}/py-untouched-{}-sheet-changed/{}", src, if *raw { "raw" } else { "loaded" }, comp),
                detail: format!("sheet {} (original index {}) {}: independent decode of the original vs of the lazily saved file: {}", now, was, loc, truncate(&crate::dump::focus_diff(&l, &r), 900)),
            });
        }
    }
    Ok(())
}

