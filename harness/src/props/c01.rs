//! C01 — cell content survives save and reload.
use super::Prop;
use crate::engine::*;
use crate::gen::text::*;
use crate::gen::wb::*;
use proptest::prelude::*;
use serde::{Deserialize, Serialize};
use std::collections::BTreeMap;
use std::io::Cursor;
use umya_spreadsheet::{CellRawValue, Spreadsheet, Worksheet};

pub fn prop() -> Prop {
    Prop {
        id: "C01",
        describe,
        subs,
        extra: super::no_extra,
        replay_extra: super::no_replay_extra,
        watchdog_s: (1200, 14400),
    }
}

fn describe(ctx: &Ctx) {
    ctx.rule("generated workbooks (1..4 sheets, 0..60 cells per sheet at boundary/random positions up to XFD1048576; value kinds blank/text/rich text/number/boolean/error, optional formula with a cached result of any kind; standard and light writer) built through the public API, saved to memory and reloaded eagerly; compared per sheet: set of non-blank cells, value text, value kind, formula text, number bits, rich-text runs. Non-trivial = workbook contains text with an XML special / edge blank / line break / non-BMP char, or a non-integer number, or a formula, or an error/boolean; distinct by full case");
    ctx.assume("a cell counts as non-blank when its value text is non-empty or it has a formula; for an empty value text the kinds blank and text are not distinguished");
    ctx.assume("Lazy values (set_value_lazy) are not generated: not one of the value kinds the statement names");
}

#[derive(Debug, Clone, Serialize, Deserialize)]
pub struct Case {
    pub wb: WbSpec,
    pub light: bool,
}

fn strategy(t: Tier) -> BoxedStrategy<Case> {
    let (cells, text) = t.pick((40, 40), (60, 300));
    (wb_spec(4, cells, text), any::<bool>())
        .prop_map(|(wb, light)| Case { wb, light })
        .boxed()
}

#[derive(Debug, Clone, PartialEq)]
pub struct CellDump {
    pub text: String,
    pub kind: &'static str,
    pub formula: String,
    pub number: Option<u64>,
    pub runs: Vec<(String, bool, bool, Option<String>, Option<String>)>,
}

pub fn dump_cell(c: &umya_spreadsheet::Cell) -> CellDump {
    let raw = c.get_raw_value();
    let kind = match raw {
        CellRawValue::String(_) => "text",
        CellRawValue::RichText(_) => "rich",
        CellRawValue::Lazy(_) => "lazy",
        CellRawValue::Numeric(_) => "number",
        CellRawValue::Bool(_) => "bool",
        CellRawValue::Error(_) => "error",
        CellRawValue::Empty => "blank",
    };
    let runs = match raw {
        CellRawValue::RichText(rt) => rt
            .get_rich_text_elements()
            .iter()
            .map(|e| {
                let f = e.get_run_properties();
                (
                    e.get_text().to_string(),
                    f.map_or(false, |f| *f.get_bold()),
                    f.map_or(false, |f| *f.get_italic()),
                    f.map(|f| format!("{}", f.get_size())),
                    f.map(|f| f.get_name().to_string()),
                )
            })
            .collect(),
        _ => Vec::new(),
    };
    CellDump {
        text: c.get_value().to_string(),
        kind,
        formula: c.get_formula().to_string(),
        number: c.get_value_number().map(|f| f.to_bits()),
        runs,
    }
}

pub fn dump_sheet(ws: &Worksheet) -> BTreeMap<(u32, u32), CellDump> {
    let mut m = BTreeMap::new();
    for c in ws.get_cell_collection() {
        let co = c.get_coordinate();
        m.insert((*co.get_row_num(), *co.get_col_num()), dump_cell(c));
    }
    m
}

fn expected_cell(c: &CellSpec) -> CellDump {
    let runs = match &c.value {
        ValueSpec::Rich(rs) => rs
            .iter()
            .map(|r| {
                let has_font = r.bold || r.italic || r.size.is_some() || r.font_name.is_some();
                (
                    r.text.clone(),
                    r.bold,
                    r.italic,
                    if has_font { Some(format!("{}", r.size.map(|s| s as f64).unwrap_or(11.0))) } else { None },
                    if has_font { Some(r.font_name.clone().unwrap_or_else(|| "Calibri".to_string())) } else { None },
                )
            })
            .collect(),
        _ => Vec::new(),
    };
    CellDump {
        text: c.value.text(),
        kind: c.value.kind(),
        formula: c.formula.clone().unwrap_or_default(),
        number: match &c.value {
            ValueSpec::Number(n) => Some(n.0.to_bits()),
            _ => None,
        },
        runs,
    }
}

pub fn text_class(s: &str) -> &'static str {
    if s.is_empty() {
        "empty"
    } else if s.contains('\r') {
        "cr"
    } else if s.chars().any(|c| (c as u32) < 0x20 && c != '\t' && c != '\n') {
        "c0-control"
    } else if has_edge_blank(s) {
        "edge-blank"
    } else if s.contains('\n') || s.contains('\t') {
        "linebreak-tab"
    } else if s.contains("_x") {
        "escape-lookalike"
    } else if needs_xml_escape(s) {
        "xml-special"
    } else if has_non_bmp(s) {
        "non-bmp"
    } else if !s.is_ascii() {
        "non-ascii"
    } else {
        "plain"
    }
}

fn feature(c: &CellSpec) -> String {
    let base = match &c.value {
        ValueSpec::Text(s) => format!("text:{}", text_class(s)),
        ValueSpec::Rich(rs) => {
            let all: String = rs.iter().map(|r| r.text.as_str()).collect();
            format!("rich:{}", text_class(&all))
        }
        v => v.kind().to_string(),
    };
    if c.formula.is_some() {
        format!("formula+{}", base)
    } else {
        base
    }
}

fn is_blank(d: &CellDump) -> bool {
    d.text.is_empty() && d.formula.is_empty()
}

pub fn save(book: &Spreadsheet, light: bool) -> Result<Vec<u8>, String> {
    let mut buf = Cursor::new(Vec::new());
    let r = if light {
        umya_spreadsheet::writer::xlsx::write_writer_light(book, &mut buf)
    } else {
        umya_spreadsheet::writer::xlsx::write_writer(book, &mut buf)
    };
    r.map_err(|e| format!("{:?}", e))?;
    Ok(buf.into_inner())
}

pub fn load(bytes: &[u8]) -> Result<Spreadsheet, String> {
    umya_spreadsheet::reader::xlsx::read_reader(Cursor::new(bytes.to_vec()), true).map_err(|e| format!("{:?}", e))
}

fn check(case: &Case, obs: &mut Obs) -> Verdict {
    let spec = &case.wb;
    // labels
    let mut nt = false;
    for s in &spec.sheets {
        for c in s.cell_map().values() {
            let f = feature(c);
            obs.class(f.clone());
            match &c.value {
                ValueSpec::Text(t) => nt |= !matches!(text_class(t), "plain" | "empty" | "non-ascii"),
                ValueSpec::Rich(_) => nt = true,
                ValueSpec::Number(n) => nt |= n.0.fract() != 0.0,
                ValueSpec::Bool(_) | ValueSpec::Error(_) => nt = true,
                ValueSpec::Blank => {}
            }
            nt |= c.formula.is_some();
        }
    }
    obs.nontrivial(nt);
    obs.class(if case.light { "writer:light" } else { "writer:standard" });
    obs.class(format!("sheets:{}", spec.sheets.len()));

    let book = match guard(|| build(spec)) {
        Ok(b) => b,
        Err(p) => return Verdict::fail(format!("build/panic:{}", p.site()), p.short()),
    };
    // the model must agree with the API before saving, otherwise the case says nothing
    for (i, s) in spec.sheets.iter().enumerate() {
        let ws = book.get_sheet(&i).unwrap();
        let got = dump_sheet(ws);
        for (pos, c) in s.cell_map() {
            let e = expected_cell(c);
            match got.get(&pos) {
                Some(g) if *g == e => {}
                other => return Verdict::Discard(format!("pre-save model mismatch at {:?}: {:?} vs {:?}", pos, other, e)),
            }
        }
    }
    let bytes = match guard(|| save(&book, case.light)) {
        Ok(Ok(b)) => b,
        Ok(Err(e)) => return Verdict::fail("save/error", e),
        Err(p) => return Verdict::fail(format!("save/panic:{}", p.site()), p.short()),
    };
    let loaded = match guard(|| load(&bytes)) {
        Ok(Ok(b)) => b,
        Ok(Err(e)) => return Verdict::fail("reload/error", e),
        Err(p) => return Verdict::fail(format!("reload/panic:{}", p.site()), p.short()),
    };
    if loaded.get_sheet_count() != spec.sheets.len() {
        return Verdict::fail("sheets/count", format!("{} sheets reloaded, {} saved", loaded.get_sheet_count(), spec.sheets.len()));
    }
    for (i, s) in spec.sheets.iter().enumerate() {
        let ws = loaded.get_sheet(&i).unwrap();
        if ws.get_name() != s.name {
            return Verdict::fail("sheets/name", format!("sheet {} reloaded as {:?}, saved {:?}", i, ws.get_name(), s.name));
        }
        let got = dump_sheet(ws);
        let exp = s.cell_map();
        for (pos, c) in &exp {
            let e = expected_cell(c);
            let f = feature(c);
            let at = format!("sheet {} {}{}", i, crate::props::c17::ref_col_name(pos.1), pos.0);
            let g = got.get(pos);
            if is_blank(&e) {
                if let Some(g) = g {
                    if !is_blank(g) {
                        return Verdict::fail(format!("{}/resurrected", f), format!("{}: blank cell reloaded as {:?}", at, g));
                    }
                }
                continue;
            }
            let Some(g) = g else {
                return Verdict::fail(format!("{}/lost", f), format!("{}: {:?} missing after reload", at, e));
            };
            if g.formula != e.formula {
                return Verdict::fail(format!("{}/formula-text", f), format!("{}: formula {:?} reloaded as {:?}", at, e.formula, g.formula));
            }
            if g.text != e.text {
                return Verdict::fail(format!("{}/value-text", f), format!("{}: value {:?} reloaded as {:?} (kind {})", at, e.text, g.text, g.kind));
            }
            let kinds_equal = g.kind == e.kind || (e.text.is_empty() && matches!((e.kind, g.kind), ("blank", "text") | ("text", "blank")));
            if !kinds_equal {
                return Verdict::fail(format!("{}/kind-becomes-{}", f, g.kind), format!("{}: {} {:?} reloaded as {} {:?}", at, e.kind, e.text, g.kind, g.text));
            }
            if g.number != e.number && e.kind == "number" {
                return Verdict::fail(format!("{}/number-bits", f), format!("{}: {:?} reloaded as {:?}", at, e.number.map(f64::from_bits), g.number.map(f64::from_bits)));
            }
            if e.kind == "rich" && g.runs != e.runs {
                return Verdict::fail(format!("{}/rich-runs", f), format!("{}: runs {:?} reloaded as {:?}", at, e.runs, g.runs));
            }
        }
        for (pos, g) in &got {
            if !exp.contains_key(pos) && !is_blank(g) {
                return Verdict::fail(
                    "extra-cell",
                    format!("sheet {} {}{}: cell {:?} appeared after reload", i, crate::props::c17::ref_col_name(pos.1), pos.0, g),
                );
            }
        }
    }
    Verdict::Pass
}

fn subs() -> Vec<Box<dyn DynSub>> {
    vec![Box::new(Sub {
        name: "roundtrip",
        strategy,
        cases: (1500, 40_000),
        check,
        max_shrink_iters: 6000,
    })]
}
