//! C14 — encrypted output decrypts to the exact package, with the right password only.
//!
//! Oracle: `model::offcrypto` (own [MS-OFFCRYPTO] agile decryptor).  Projection compared:
//! exactly what the statement names — EncryptionInfo is agile 4.4; the password verifier
//! matches; the decrypted bytes (cut at StreamSize) equal the unencrypted package;
//! StreamSize equals the package length; the HMAC over the whole EncryptedPackage stream
//! verifies; a different password fails the verifier; both salts, the package key and the
//! verifier input differ between two saves.  Not demanded: the \x06DataSpaces storage
//! (observed and counted as a class only, see notes/C14.md), the padding bytes, the value
//! of any random field.
use super::Prop;
use crate::engine::*;
use crate::gen::password::{password, pw_class, wrong_of};
use crate::model::offcrypto as oc;
use proptest::prelude::*;
use rayon::prelude::*;
use serde::{Deserialize, Serialize};
use serde_json::{json, Value};
use std::collections::BTreeMap;
use std::path::PathBuf;
use std::sync::atomic::{AtomicU64, Ordering};

pub fn prop() -> Prop {
    Prop {
        id: "C14",
        describe,
        subs,
        extra,
        replay_extra,
        watchdog_s: (900, 14400),
    }
}

fn describe(ctx: &Ctx) {
    ctx.rule("set_password: (password, package size, content seed) with sizes from {0,1,15,16,17,31,32,33,4079..4097,4111..4113,k*4096-1,k*4096,k*4096+1, 1 MiB-1, 1 MiB, 1 MiB+1, 1 MiB+4097 (segment 256 = first segment whose index does not fit one byte)} and generated sizes up to 1 MiB + 64 KiB (thorough 6 MiB), content = splitmix bytes; write_with_password(_light): generated workbooks (1-3 sheets, text/number/bool cells, filler rows); boundary leg: every named boundary size once per run. Non-trivial = package size not a multiple of 16, or larger than one 4096-byte segment, or a non-ASCII password; distinct by serialized case");
    ctx.assume("reference decryptor = harness/src/model/offcrypto.rs written from [MS-OFFCRYPTO] 2.3.4.10-15; shares only the aes/sha2/hmac primitive crates and the cfb container reader with the library; hash iterations cross-checked against Python hashlib/hmac in every run (pytools/offcrypto_selftest.py), AES-CBC against NIST SP 800-38A F.2.5");
    ctx.assume("passwords are at most 255 characters (Unicode scalar values, the statement's quantifier), i.e. up to 510 UTF-16 code units when they contain non-BMP characters, and contain no NUL / lone surrogates");
    ctx.assume("segment indices above 65535 (packages above 256 MiB) are reached by one thorough-tier case only; see notes/C14.md for its cost");
    ctx.assume("the \\x06DataSpaces storage is observed (class counter) but not required: the statement lists verifier, HMAC, length and content only");
    ctx.assume("freshness is judged by inequality of two 16/32-byte values from two saves (false alarm probability 2^-128)");
}

// ---------------------------------------------------------------------------------------
// scratch directory, removed when the case ends (also on panic)

static DIR_COUNTER: AtomicU64 = AtomicU64::new(0);

pub struct Scratch {
    pub dir: PathBuf,
}

impl Scratch {
    pub fn new(tag: &str) -> Result<Scratch, String> {
        let n = DIR_COUNTER.fetch_add(1, Ordering::Relaxed);
        let dir = std::env::temp_dir().join(format!("umya-verif-{}-{}-{}", tag, std::process::id(), n));
        let _ = std::fs::remove_dir_all(&dir);
        std::fs::create_dir_all(&dir).map_err(|e| format!("cannot create {}: {}", dir.display(), e))?;
        Ok(Scratch { dir })
    }
    pub fn path(&self, name: &str) -> PathBuf {
        self.dir.join(name)
    }
}

impl Drop for Scratch {
    fn drop(&mut self) {
        let _ = std::fs::remove_dir_all(&self.dir);
    }
}

// ---------------------------------------------------------------------------------------
// shared judgement of one encrypted file

pub fn size_class(n: usize) -> &'static str {
    if n == 0 {
        "empty-package"
    } else if n % 4096 == 0 {
        "segment-multiple"
    } else if n % 16 == 0 {
        "block-multiple"
    } else if n < 16 {
        "below-one-block"
    } else if n % 4096 < 16 {
        "just-over-segment"
    } else if n % 4096 > 4096 - 16 {
        "just-under-segment"
    } else {
        "unaligned"
    }
}

pub struct Judged {
    pub info: oc::AgileInfo,
    pub secrets: oc::Secrets,
    pub plain: Vec<u8>,
    pub has_dataspaces: bool,
}

/// Everything the statement says about ONE encrypted file.  `expect_len`/`expect_bytes`:
/// the unencrypted package when it is known byte for byte (`set_password`).
pub fn judge_encrypted(file: &[u8], pw: &str, wrong: &str, expect_bytes: Option<&[u8]>) -> Result<Judged, Verdict> {
    let pwc = pw_class(pw);
    let cont = oc::open_container(file).map_err(|e| Verdict::fail(format!("{}/not-a-compound-file", e.key()), e.to_string()))?;
    let info = oc::parse_encryption_info(&cont.encryption_info).map_err(|e| Verdict::fail(format!("encryption-info/{}", e.key()), e.to_string()))?;
    // the library's contract is one fixed parameter set; anything else the reference
    // supports would be fine by the statement, so nothing is asserted about the values
    let secrets = match oc::unlock(&info, pw) {
        Ok(s) => s,
        Err(oc::OffErr::Verifier) => {
            return Err(Verdict::fail(
                format!("{}/verifier-mismatch", pwc),
                format!("the reference KDF ([MS-OFFCRYPTO] 2.3.4.11/13) does not accept the password the file was written with (password of {} UTF-16 units, spinCount {})", crate::gen::password::utf16_len(pw), info.password.spin_count),
            ))
        }
        Err(e) => return Err(Verdict::fail(format!("key-encryptor/{}", e.key()), e.to_string())),
    };
    let package = oc::decrypt_package(&info, &secrets.package_key, &cont.encrypted_package).map_err(|e| {
        Verdict::fail(
            format!("{}/{}", expect_bytes.map(|b| size_class(b.len())).unwrap_or("workbook-package"), e.key()),
            e.to_string(),
        )
    })?;
    if let Some(want) = expect_bytes {
        let sc = size_class(want.len());
        if package.declared_len != want.len() as u64 {
            return Err(Verdict::fail(
                format!("{}/declared-length", sc),
                format!("StreamSize says {} bytes, the package has {} ({} encrypted bytes follow the field)", package.declared_len, want.len(), cont.encrypted_package.len() - 8),
            ));
        }
        if package.bytes() != want {
            let first = package.bytes().iter().zip(want.iter()).position(|(a, b)| a != b).unwrap_or(0);
            // keyed by where the first difference sits: segment indices that need a second /
            // third byte are their own failure class
            let sc = if first / 4096 > 65535 {
                "segment-index-above-65535"
            } else if first / 4096 > 255 {
                "segment-index-above-255"
            } else {
                sc
            };
            return Err(Verdict::fail(
                format!("{}/content-differs", sc),
                format!("decrypted package differs from the input at offset {} (segment {}, block {} of it); package of {} bytes", first, first / 4096, (first % 4096) / 16, want.len()),
            ));
        }
    }
    if let Err(e) = oc::check_integrity(&info, &secrets.package_key, &cont.encrypted_package) {
        return Err(Verdict::fail(format!("data-integrity/{}", e.key()), e.to_string()));
    }
    // a different password must fail the verifier
    match oc::unlock(&info, wrong) {
        Err(oc::OffErr::Verifier) => {}
        Ok(_) => {
            return Err(Verdict::fail(
                format!("{}/wrong-password-accepted", pwc),
                format!("file written with {:?} also unlocks with {:?}", pw, wrong),
            ))
        }
        Err(e) => return Err(Verdict::fail(format!("key-encryptor/{}", e.key()), format!("with a wrong password: {}", e))),
    }
    // values that must be random may not coincide inside one file either
    if info.key_data.salt == info.password.params.salt {
        return Err(Verdict::fail("freshness/one-salt-for-both", "keyData.saltValue equals the password key encryptor's saltValue"));
    }
    if secrets.verifier_input == info.password.params.salt || secrets.verifier_input == info.key_data.salt {
        return Err(Verdict::fail("freshness/verifier-input-is-a-salt", "the verifier hash input equals one of the salts"));
    }
    let has_dataspaces = oc::check_dataspaces(&cont).is_ok();
    let plain = package.bytes().to_vec();
    Ok(Judged { info, secrets, plain, has_dataspaces })
}

/// Freshness between two files written with the same password from the same input.
pub fn judge_fresh(a: &Judged, second_file: &[u8], pw: &str) -> Result<(), Verdict> {
    let cont = oc::open_container(second_file).map_err(|e| Verdict::fail(format!("{}/not-a-compound-file", e.key()), format!("second save: {}", e)))?;
    let info = oc::parse_encryption_info(&cont.encryption_info).map_err(|e| Verdict::fail(format!("encryption-info/{}", e.key()), format!("second save: {}", e)))?;
    let s = oc::unlock(&info, pw).map_err(|e| Verdict::fail(format!("{}/verifier-mismatch", pw_class(pw)), format!("second save: {}", e)))?;
    if info.key_data.salt == a.info.key_data.salt {
        return Err(Verdict::fail("freshness/keydata-salt-reused", format!("two saves carry the same keyData.saltValue {}", oc::hex(&info.key_data.salt))));
    }
    if info.password.params.salt == a.info.password.params.salt {
        return Err(Verdict::fail("freshness/password-salt-reused", format!("two saves carry the same p:encryptedKey saltValue {}", oc::hex(&info.password.params.salt))));
    }
    if s.package_key == a.secrets.package_key {
        return Err(Verdict::fail("freshness/package-key-reused", "two saves use the same package key"));
    }
    if s.verifier_input == a.secrets.verifier_input {
        return Err(Verdict::fail("freshness/verifier-input-reused", format!("two saves use the same verifier hash input {}", oc::hex(&s.verifier_input))));
    }
    Ok(())
}

// ---------------------------------------------------------------------------------------
// sub-check 1: set_password on arbitrary byte files

#[derive(Debug, Clone, Serialize, Deserialize)]
pub struct SetPwCase {
    pub password: String,
    pub wrong_mode: u8,
    pub size: u32,
    pub fill: u64,
}

pub fn fill_bytes(size: usize, seed: u64) -> Vec<u8> {
    let mut v = Vec::with_capacity(size + 8);
    let mut x = seed;
    while v.len() < size {
        x = splitmix(x);
        v.extend_from_slice(&x.to_le_bytes());
    }
    v.truncate(size);
    v
}

pub fn boundary_sizes(max_k: u32) -> Vec<u32> {
    let mut v = vec![0u32, 1, 15, 16, 17, 31, 32, 33, 4079, 4080, 4081, 4095, 4096, 4097, 4111, 4112, 4113];
    for k in 2..=max_k {
        v.extend_from_slice(&[k * 4096 - 1, k * 4096, k * 4096 + 1]);
    }
    v
}

pub const MIB: u32 = 1 << 20;

/// Sizes around segment 256 (offset 1 MiB): the first segment whose index needs a second byte.
pub fn mib_sizes() -> Vec<u32> {
    vec![MIB - 1, MIB, MIB + 1, MIB + 4097]
}

fn setpw_case(t: Tier) -> BoxedStrategy<SetPwCase> {
    let size = prop_oneof![
        5 => prop::sample::select(boundary_sizes(t.pick(4, 40))),
        2 => 0u32..100,
        2 => 0u32..t.pick(20_000, 300_000),
        1 => (1u32..t.pick(6, 60), 0u32..33).prop_map(|(k, d)| k * 4096 + d - 16),
        1 => prop_oneof![2 => prop::sample::select(mib_sizes()), 1 => MIB - 20..MIB + t.pick(65_536, 5 * MIB)],
    ];
    (password(true), any::<u8>(), size, any::<u64>())
        .prop_map(|(password, wrong_mode, size, fill)| SetPwCase { password, wrong_mode, size, fill })
        .boxed()
}

fn nontrivial(size: usize, pw: &str) -> bool {
    size % 16 != 0 || size > 4096 || !pw.is_ascii()
}

fn check_setpw(c: &SetPwCase, obs: &mut Obs) -> Verdict {
    let size = c.size as usize;
    obs.class(pw_class(&c.password));
    obs.class(size_class(size));
    if size > MIB as usize {
        obs.class("beyond-segment-255");
    }
    obs.nontrivial(nontrivial(size, &c.password));
    let input = fill_bytes(size, c.fill);
    let wrong = wrong_of(&c.password, c.wrong_mode);
    let sc = match Scratch::new("c14s") {
        Ok(s) => s,
        Err(e) => return Verdict::Discard(e),
    };
    let from = sc.path("in.bin");
    if let Err(e) = std::fs::write(&from, &input) {
        return Verdict::Discard(format!("cannot write the input file: {}", e));
    }
    let mut outs: Vec<Vec<u8>> = Vec::new();
    for i in 0..2 {
        let to = sc.path(&format!("out{}.xlsx", i));
        match guard(|| umya_spreadsheet::writer::xlsx::set_password(&from, &to, &c.password)) {
            Err(p) => return Verdict::fail(format!("{}/panic:{}", size_class(size), p.site()), format!("set_password on a {}-byte file: {}", size, p.short())),
            Ok(Err(e)) => return Verdict::fail(format!("{}/error", size_class(size)), format!("set_password on a {}-byte file returned {:?}", size, e)),
            Ok(Ok(())) => {}
        }
        match std::fs::read(&to) {
            Ok(b) => outs.push(b),
            Err(e) => return Verdict::fail("output/missing", format!("set_password returned Ok but {} cannot be read: {}", to.display(), e)),
        }
    }
    let j = match judge_encrypted(&outs[0], &c.password, &wrong, Some(&input)) {
        Ok(j) => j,
        Err(v) => return v,
    };
    obs.class(if j.has_dataspaces { "dataspaces-present" } else { "dataspaces-absent" });
    if let Err(v) = judge_fresh(&j, &outs[1], &c.password) {
        return v;
    }
    Verdict::Pass
}

// ---------------------------------------------------------------------------------------
// sub-check 2: write_with_password / write_with_password_light on generated workbooks

#[derive(Debug, Clone, Serialize, Deserialize)]
pub enum CellV {
    S(String),
    N(i32, u8),
    B(bool),
}

#[derive(Debug, Clone, Serialize, Deserialize)]
pub struct WbCase {
    pub password: String,
    pub wrong_mode: u8,
    pub light: bool,
    /// extra sheets beyond the first
    pub extra_sheets: u8,
    /// (sheet raw index, column 1.., row 1.., value)
    pub cells: Vec<(u16, u8, u16, CellV)>,
    /// rows of filler text in column H of the first sheet (varies the package size)
    pub filler: u16,
}

fn safe_text() -> BoxedStrategy<String> {
    // text that C01 territory does not dispute: no edge blanks, no controls, no markup
    let ch = prop_oneof![
        12 => prop::char::range('a', 'z'),
        4 => prop::char::range('A', 'Z'),
        3 => prop::char::range('0', '9'),
        2 => prop::sample::select(vec!['é', 'Ж', '日', '本', '😀', '-', '_', '.']),
    ];
    (prop::char::range('a', 'z'), prop::collection::vec(ch, 0..12))
        .prop_map(|(a, v)| {
            let mut s = String::new();
            s.push(a);
            s.extend(v);
            s
        })
        .boxed()
}

fn wb_case(t: Tier) -> BoxedStrategy<WbCase> {
    let cellv = prop_oneof![
        4 => safe_text().prop_map(CellV::S),
        3 => (-100000i32..100000, 0u8..4).prop_map(|(n, d)| CellV::N(n, d)),
        1 => any::<bool>().prop_map(CellV::B),
    ];
    let cell = (any::<u16>(), 1u8..=30, prop_oneof![3 => 1u16..=40, 1 => prop::sample::select(vec![99u16, 100, 1000, 65535])], cellv);
    (
        password(true),
        any::<u8>(),
        any::<bool>(),
        0u8..3,
        prop::collection::vec(cell, 1..t.pick(12, 40)),
        prop_oneof![2 => Just(0u16), 2 => 0u16..t.pick(200, 3000)],
    )
        .prop_map(|(password, wrong_mode, light, extra_sheets, cells, filler)| WbCase { password, wrong_mode, light, extra_sheets, cells, filler })
        .boxed()
}

fn num_of(n: i32, d: u8) -> f64 {
    // n / 10^d written as the decimal literal and parsed, so the value is the nearest double
    let neg = n < 0;
    let a = (n as i64).unsigned_abs();
    let p = 10u64.pow(d as u32);
    let s = if d == 0 { format!("{}", a) } else { format!("{}.{:0w$}", a / p, a % p, w = d as usize) };
    let v: f64 = s.parse().unwrap();
    if neg {
        -v
    } else {
        v
    }
}

fn col_letters(mut c: u32) -> String {
    let mut s = Vec::new();
    while c > 0 {
        let r = (c - 1) % 26;
        s.push((b'A' + r as u8) as char);
        c = (c - 1) / 26;
    }
    s.iter().rev().collect()
}

/// Builds the workbook through the public API and returns it with the expected
/// (sheet index, coordinate) -> display value map taken from the model before saving.
fn build_wb(c: &WbCase) -> (umya_spreadsheet::Spreadsheet, Vec<String>, BTreeMap<(usize, String), String>) {
    let mut book = umya_spreadsheet::new_file();
    let mut names = vec!["Sheet1".to_string()];
    for i in 0..c.extra_sheets {
        let name = format!("Extra{}", i + 1);
        book.new_sheet(name.clone()).unwrap();
        names.push(name);
    }
    let nsheets = names.len();
    let mut set: BTreeMap<(usize, String), Option<String>> = BTreeMap::new();
    for (sraw, col, row, v) in c.cells.iter() {
        let si = pick_idx(*sraw, nsheets);
        let coord = format!("{}{}", col_letters(*col as u32), row);
        let sheet = book.get_sheet_mut(&si).unwrap();
        let cell = sheet.get_cell_mut(coord.as_str());
        let text = match v {
            CellV::S(s) => {
                cell.set_value_string(s.clone());
                Some(s.clone())
            }
            CellV::N(n, d) => {
                cell.set_value_number(num_of(*n, *d));
                None
            }
            CellV::B(b) => {
                cell.set_value_bool(*b);
                None
            }
        };
        set.insert((si, coord), text);
    }
    for r in 0..c.filler {
        // column AH: outside the generated columns (1..=30)
        let coord = format!("AH{}", r + 1);
        let s = format!("filler-{}-{:x}", r, splitmix(r as u64 ^ 0xC14));
        book.get_sheet_mut(&0).unwrap().get_cell_mut(coord.as_str()).set_value_string(s.clone());
        set.insert((0, coord), Some(s));
    }
    let mut expect = BTreeMap::new();
    for ((si, coord), t) in set.iter() {
        let v = book.get_sheet(si).unwrap().get_value(coord.as_str());
        if let Some(t) = t {
            // sanity of the model itself: a string cell shows the string that was set
            assert_eq!(&v, t, "model: string cell shows something else before saving");
        }
        expect.insert((*si, coord.clone()), v);
    }
    (book, names, expect)
}

fn check_wb(c: &WbCase, obs: &mut Obs) -> Verdict {
    obs.class(pw_class(&c.password));
    obs.class(if c.light { "write_with_password_light" } else { "write_with_password" });
    let wrong = wrong_of(&c.password, c.wrong_mode);
    let built = guard(|| build_wb(c));
    let (book, names, expect) = match built {
        Ok(x) => x,
        Err(p) => return Verdict::Discard(format!("building the workbook panicked: {}", p.short())),
    };
    let sc = match Scratch::new("c14w") {
        Ok(s) => s,
        Err(e) => return Verdict::Discard(e),
    };
    let api = if c.light { "write_with_password_light" } else { "write_with_password" };
    let mut outs: Vec<Vec<u8>> = Vec::new();
    for i in 0..2 {
        let to = sc.path(&format!("book{}.xlsx", i));
        let r = guard(|| {
            if c.light {
                umya_spreadsheet::writer::xlsx::write_with_password_light(&book, &to, &c.password)
            } else {
                umya_spreadsheet::writer::xlsx::write_with_password(&book, &to, &c.password)
            }
        });
        match r {
            Err(p) => return Verdict::fail(format!("workbook/panic:{}", p.site()), format!("{}: {}", api, p.short())),
            Ok(Err(e)) => return Verdict::fail("workbook/error", format!("{} returned {:?}", api, e)),
            Ok(Ok(())) => {}
        }
        match std::fs::read(&to) {
            Ok(b) => outs.push(b),
            Err(e) => return Verdict::fail("output/missing", format!("{} returned Ok but {} cannot be read: {}", api, to.display(), e)),
        }
        // nothing but the destination may be left behind
        let left: Vec<String> = std::fs::read_dir(&sc.dir)
            .map(|rd| rd.flatten().map(|e| e.file_name().to_string_lossy().to_string()).filter(|n| !n.starts_with("book") || !n.ends_with(".xlsx")).collect())
            .unwrap_or_default();
        if !left.is_empty() {
            obs.class("temp-file-left-behind");
        }
    }
    let j = match judge_encrypted(&outs[0], &c.password, &wrong, None) {
        Ok(j) => j,
        Err(v) => return v,
    };
    obs.class(if j.has_dataspaces { "dataspaces-present" } else { "dataspaces-absent" });
    obs.class(size_class(j.plain.len()));
    obs.nontrivial(nontrivial(j.plain.len(), &c.password));
    // the decrypted package is the workbook: a zip the library itself reads back to the same cells
    if j.plain.len() < 4 || &j.plain[..4] != b"PK\x03\x04" {
        return Verdict::fail("workbook/decrypted-not-a-zip", format!("decrypted package of {} bytes does not start with a zip local header", j.plain.len()));
    }
    let back = match guard(|| umya_spreadsheet::reader::xlsx::read_reader(std::io::Cursor::new(j.plain.clone()), true)) {
        Err(p) => return Verdict::fail("workbook/decrypted-unreadable", format!("reader panicked on the decrypted package: {}", p.short())),
        Ok(Err(e)) => return Verdict::fail("workbook/decrypted-unreadable", format!("reader rejects the decrypted package: {:?}", e)),
        Ok(Ok(b)) => b,
    };
    let cmp = guard(|| {
        let got_names: Vec<String> = back.get_sheet_collection().iter().map(|s| s.get_name().to_string()).collect();
        if got_names != names {
            return Some(format!("sheet names {:?} instead of {:?}", got_names, names));
        }
        for ((si, coord), want) in expect.iter() {
            let got = back.get_sheet(si).unwrap().get_value(coord.as_str());
            if &got != want {
                return Some(format!("sheet {} cell {}: {:?} instead of {:?}", si, coord, got, want));
            }
        }
        for (si, s) in back.get_sheet_collection().iter().enumerate() {
            let n = s.get_cell_collection().iter().filter(|c| !c.get_value().is_empty()).count();
            let want = expect.iter().filter(|((i, _), v)| *i == si && !v.is_empty()).count();
            if n != want {
                return Some(format!("sheet {} has {} non-empty cells instead of {}", si, n, want));
            }
        }
        None
    });
    match cmp {
        Err(p) => return Verdict::fail("workbook/decrypted-unreadable", format!("reading cells of the decrypted package panicked: {}", p.short())),
        Ok(Some(d)) => return Verdict::fail("workbook/decrypted-content-differs", d),
        Ok(None) => {}
    }
    if let Err(v) = judge_fresh(&j, &outs[1], &c.password) {
        return v;
    }
    Verdict::Pass
}

fn subs() -> Vec<Box<dyn DynSub>> {
    vec![
        Box::new(Sub {
            name: "set_password",
            strategy: setpw_case,
            cases: (12, 400),
            check: check_setpw,
            max_shrink_iters: 24,
        }),
        Box::new(Sub {
            name: "write_with_password",
            strategy: wb_case,
            cases: (6, 150),
            check: check_wb,
            max_shrink_iters: 24,
        }),
    ]
}

// ---------------------------------------------------------------------------------------
// extra: oracle self-tests + every named boundary size once

pub fn run_selftests(ctx: &Ctx) {
    if let Err(e) = oc::internal_selftest() {
        eprintln!("HARNESS-ERROR: offcrypto self-test failed: {}", e);
        std::process::exit(2);
    }
    // Python hashlib/hmac cross-check of both iterations, the key derivation tail, the
    // segment IV and the HMAC
    let script = format!("{}/pytools/offcrypto_selftest.py", verif_root());
    let vectors: Vec<String> = oc::selftest_vectors().iter().map(|v| v.to_string()).collect();
    let child = std::process::Command::new("python3")
        .arg(&script)
        .arg("--stdin")
        .stdin(std::process::Stdio::piped())
        .stdout(std::process::Stdio::piped())
        .stderr(std::process::Stdio::piped())
        .spawn();
    match child {
        Err(e) => {
            eprintln!("HARNESS-ERROR: cannot run python3 {}: {}", script, e);
            std::process::exit(2);
        }
        Ok(mut ch) => {
            use std::io::Write;
            {
                let mut si = ch.stdin.take().unwrap();
                let _ = si.write_all(vectors.join("\n").as_bytes());
                let _ = si.write_all(b"\n");
            }
            let out = ch.wait_with_output().expect("python3");
            if !out.status.success() {
                eprintln!(
                    "HARNESS-ERROR: reference hash iterations disagree with Python hashlib: {} {}",
                    String::from_utf8_lossy(&out.stdout),
                    String::from_utf8_lossy(&out.stderr)
                );
                std::process::exit(2);
            }
            ctx.add_class("selftest/python-hashlib-vectors", vectors.len() as u64);
        }
    }
}

fn extra(ctx: &Ctx) {
    run_selftests(ctx);
    let mut sizes = boundary_sizes(ctx.tier.pick(4, 16));
    sizes.extend(mib_sizes());
    if ctx.tier == Tier::Thorough {
        // one package beyond 65536 segments (segment index needs a third byte)
        sizes.push(65536 * 4096 + 4097);
    }
    // 'a' + 127 emoji + 'b': 129 characters, 256 UTF-16 code units
    let long_nonbmp = format!("a{}b", "\u{1F511}".repeat(127));
    let pws = ["pw", "пароль-日本", long_nonbmp.as_str(), "a😀𠀋", ""];
    let cases: Vec<SetPwCase> = sizes
        .iter()
        .enumerate()
        .map(|(i, &size)| SetPwCase {
            password: pws[(i + ctx.seed as usize) % pws.len()].to_string(),
            wrong_mode: (i as u8).wrapping_add((ctx.seed % 251) as u8),
            size,
            fill: splitmix(ctx.seed ^ (size as u64) << 8),
        })
        .collect();
    cases.par_iter().for_each(|c| {
        let mut obs = Obs::default();
        let v = match guard(|| check_setpw(c, &mut obs)) {
            Ok(v) => v,
            Err(p) => Verdict::fail(format!("harness-panic:{}", p.site()), p.short()),
        };
        let ser = serde_json::to_string(c).unwrap();
        ctx.count_case(fnv(ser.as_bytes()) ^ 0xb0, obs.nontrivial);
        for cl in obs.classes.iter() {
            ctx.add_class(&format!("boundary/{}", cl), 1);
        }
        ctx.judge("boundary", c, v);
    });
    ctx.add_sample(json!({"sub": "boundary", "case": cases[2]}));
    ctx.set_extra("boundary_sizes", json!(sizes));
}

fn replay_extra(_ctx: &Ctx, sub: &str, case: &Value) -> Option<Verdict> {
    match sub {
        "boundary" => {
            let c: SetPwCase = serde_json::from_value(case.clone()).ok()?;
            let mut obs = Obs::default();
            Some(match guard(|| check_setpw(&c, &mut obs)) {
                Ok(v) => v,
                Err(p) => Verdict::fail(format!("harness-panic:{}", p.site()), p.short()),
            })
        }
        _ => None,
    }
}
