//! C11 — lazy loading is equivalent to eager loading for every access pattern.
//!
//! Differential oracle: the same file is opened eagerly and lazily, the same generated
//! history of operations is applied to both workbooks (materialisation operations are
//! no-ops on the eager one), every sheet the lazy workbook has materialised must dump
//! exactly like the eager one, both are saved, and both saved files, reloaded eagerly, must
//! have the same content.  Independently of the eager twin, sheets that no operation edited
//! must come back with the content of the original file, and every edit must be present.
use super::Prop;
use crate::dump::*;
use crate::engine::*;
use crate::gen::wb::*;
use crate::props::c01::{load, save};
use crate::props::c04::{corpus_dir, corpus_files, HEAVY};
use proptest::prelude::*;
use serde::{Deserialize, Serialize};
use std::io::Cursor;
use umya_spreadsheet::Spreadsheet;

pub fn prop() -> Prop {
    Prop {
        id: "C11",
        describe,
        subs,
        extra: super::no_extra,
        replay_extra: super::no_replay_extra,
        watchdog_s: (1800, 14400),
    }
}

fn describe(ctx: &Ctx) {
    ctx.rule("sources: corpus files (29 multi-sheet) and generated / styled (C05 case type) / annotated (C06 spec) multi-sheet workbooks saved by the library, opened with read_reader(.., false); histories of 0..10 operations over read_sheet, get_sheet_mut (also past the end), get_sheet_by_name_mut, read_sheet_collection, cell edit, edit through get_active_sheet_mut, new_sheet, remove_sheet, set_sheet_name, workbook-level insert/remove row, then save and eager reload (plus the Python leg: the lazily saved file validates and every untouched sheet decodes like the original); oracle: differential against the eagerly opened twin driven by the same history + untouched sheets equal the original + edits present + Python leg (the lazily saved file passes the independent package validator; every sheet that was not edited decodes - cells, resolved styles, merges, hyperlinks, comments, validation/cf ranges - like the same sheet of the original file). Non-trivial = at save time >=1 sheet is still unloaded and the history has >=1 edit or sheet-list change; distinct by full case");
    ctx.assume("which sheets are materialised is tracked by the harness from the documented effect of each operation (is_deserialized is not public)");
    ctx.assume("sheets copied raw are compared with re-serialised ones on the semantic projection plus the style rendering of every cell whose eager twin has a non-default style (a cell written without s= and one written with s=\"0\" mean the same)");
}

#[derive(Debug, Clone, Serialize, Deserialize)]
pub enum Op {
    ReadSheet(u16),
    GetSheetMut(u16),
    GetSheetByNameMut(u16),
    ReadAll,
    Edit { sheet: u16, col: u32, row: u32, value: ValueSpec },
    NewSheet,
    RemoveSheet(u16),
    Rename(u16),
    InsertRow { sheet: u16, row: u32, n: u32 },
    RemoveRow { sheet: u16, row: u32, n: u32 },
    /// `get_sheet_mut(&i)` with an index past the end (the `while let Some(..)` idiom): None
    ProbePastEnd(u8),
    /// edit through `get_active_sheet_mut()` (the active tab may point at an unloaded sheet)
    EditActive { col: u32, row: u32, value: ValueSpec },
}

#[derive(Debug, Clone, Serialize, Deserialize)]
pub enum Source {
    Corpus(String),
    Generated(WbSpec),
    Styled(crate::props::c05::Case),
    Annot(crate::gen::annot::AnnotWb),
}

#[derive(Debug, Clone, Serialize, Deserialize)]
pub struct Case {
    pub source: Source,
    pub ops: Vec<Op>,
    pub light: bool,
}

fn op_strategy() -> BoxedStrategy<Op> {
    prop_oneof![
        3 => any::<u16>().prop_map(Op::ReadSheet),
        2 => any::<u16>().prop_map(Op::GetSheetMut),
        2 => any::<u16>().prop_map(Op::GetSheetByNameMut),
        1 => Just(Op::ReadAll),
        5 => (any::<u16>(), 1u32..=12, 1u32..=20, prop_oneof![
                crate::gen::text::plain_text(12).prop_map(|s| ValueSpec::Text(if s.is_empty() { "edited".into() } else { s })),
                finite_f64().prop_map(|f| ValueSpec::Number(Num(f))),
            ]).prop_map(|(sheet, col, row, value)| Op::Edit { sheet, col, row, value }),
        2 => Just(Op::NewSheet),
        2 => any::<u16>().prop_map(Op::RemoveSheet),
        2 => any::<u16>().prop_map(Op::Rename),
        1 => (any::<u16>(), 1u32..=10, 1u32..=3).prop_map(|(sheet, row, n)| Op::InsertRow { sheet, row, n }),
        1 => (any::<u16>(), 1u32..=10, 1u32..=3).prop_map(|(sheet, row, n)| Op::RemoveRow { sheet, row, n }),
        1 => (0u8..3).prop_map(Op::ProbePastEnd),
        2 => (1u32..=12, 1u32..=20, crate::gen::text::plain_text(12).prop_map(|s| ValueSpec::Text(if s.is_empty() { "active".into() } else { s })))
            .prop_map(|(col, row, value)| Op::EditActive { col, row, value }),
    ]
    .boxed()
}

fn corpus_case(t: Tier) -> BoxedStrategy<Case> {
    let mut files = corpus_files();
    // heavy files: thorough tier only, and there the case count is small
    if t == Tier::Quick {
        files.retain(|f| !HEAVY.contains(&f.as_str()) && f != "issue_188_2.xlsx");
    }
    (prop::sample::select(files), prop::collection::vec(op_strategy(), 0..=8), any::<bool>())
        .prop_map(|(f, ops, light)| Case {
            source: Source::Corpus(f),
            ops,
            light,
        })
        .boxed()
}

fn generated_case(t: Tier) -> BoxedStrategy<Case> {
    let cells = t.pick(15, 40);
    (wb_spec(5, cells, 20), prop::collection::vec(op_strategy(), 0..=10), any::<bool>())
        .prop_map(|(wb, ops, light)| Case {
            source: Source::Generated(wb),
            ops,
            light,
        })
        .boxed()
}

fn styled_case(t: Tier) -> BoxedStrategy<Case> {
    (crate::props::c05::small_case(t), prop::collection::vec(op_strategy(), 0..=8), any::<bool>())
        .prop_map(|(c, ops, light)| Case {
            source: Source::Styled(c),
            ops,
            light,
        })
        .boxed()
}

fn annot_case(t: Tier) -> BoxedStrategy<Case> {
    (crate::gen::annot::annot_wb(t, crate::gen::annot::Feat::CLEAN), prop::collection::vec(op_strategy(), 0..=8), any::<bool>())
        .prop_map(|(wb, ops, light)| Case {
            source: Source::Annot(wb),
            ops,
            light,
        })
        .boxed()
}

fn g<R>(what: &str, f: impl FnOnce() -> Result<R, String>) -> Result<R, Verdict> {
    match guard(f) {
        Ok(Ok(r)) => Ok(r),
        Ok(Err(e)) => Err(Verdict::fail(format!("{}/error", what), e)),
        Err(p) => Err(Verdict::fail(format!("{}/panic:{}", what, p.site()), p.short())),
    }
}

/// What the harness knows about each sheet of the workbook under test.
#[derive(Clone, Debug)]
struct SheetTrack {
    /// index in the original file, None for sheets created by the history
    orig: Option<usize>,
    loaded: bool,
    edited: bool,
    /// renaming is not an edit of the sheet's content, but names that mention the sheet
    /// (its defined names) legitimately follow the new name
    renamed: bool,
}

fn apply(book: &mut Spreadsheet, track: &mut Vec<SheetTrack>, op: &Op, counter: &mut u32, edits: &mut Vec<(usize, u32, u32, String)>) -> Result<(), String> {
    let n = book.get_sheet_count();
    match op {
        Op::ReadSheet(r) => {
            if n > 0 {
                let i = pick_idx(*r, n);
                book.read_sheet(i);
                track[i].loaded = true;
            }
        }
        Op::GetSheetMut(r) => {
            if n > 0 {
                let i = pick_idx(*r, n);
                let _ = book.get_sheet_mut(&i).ok_or("get_sheet_mut returned None")?;
                track[i].loaded = true;
            }
        }
        Op::GetSheetByNameMut(r) => {
            if n > 0 {
                let i = pick_idx(*r, n);
                let name = book.get_sheet_collection_no_check()[i].get_name().to_string();
                let _ = book.get_sheet_by_name_mut(&name).ok_or("get_sheet_by_name_mut returned None")?;
                track[i].loaded = true;
            }
        }
        Op::ReadAll => {
            book.read_sheet_collection();
            for t in track.iter_mut() {
                t.loaded = true;
            }
        }
        Op::Edit { sheet, col, row, value } => {
            if n > 0 {
                let i = pick_idx(*sheet, n);
                let ws = book.get_sheet_mut(&i).ok_or("get_sheet_mut returned None")?;
                apply_value(ws.get_cell_mut((*col, *row)), value);
                track[i].loaded = true;
                track[i].edited = true;
                edits.retain(|e| !(e.0 == i && e.1 == *col && e.2 == *row));
                edits.push((i, *col, *row, value.text()));
            }
        }
        Op::NewSheet => {
            *counter += 1;
            let name = format!("Added{}", counter);
            if book.new_sheet(name).is_ok() {
                track.push(SheetTrack { orig: None, loaded: true, edited: true, renamed: false });
            }
        }
        Op::RemoveSheet(r) => {
            if n > 1 {
                let i = pick_idx(*r, n);
                book.remove_sheet(i).map_err(|e| e.to_string())?;
                track.remove(i);
                edits.retain(|e| e.0 != i);
                for e in edits.iter_mut() {
                    if e.0 > i {
                        e.0 -= 1;
                    }
                }
            }
        }
        Op::Rename(r) => {
            if n > 0 {
                let i = pick_idx(*r, n);
                *counter += 1;
                let name = format!("Renamed{}", counter);
                if book.set_sheet_name(i, name).is_ok() {
                    // the name is part of the sheet, its cells are not touched
                    track[i].renamed = true;
                }
            }
        }
        Op::InsertRow { sheet, row, n: k } => {
            if n > 0 {
                let i = pick_idx(*sheet, n);
                let name = book.get_sheet_collection_no_check()[i].get_name().to_string();
                book.insert_new_row(&name, row, k);
                for t in track.iter_mut() {
                    t.loaded = true;
                    t.edited = true;
                }
                edits.clear();
            }
        }
        Op::RemoveRow { sheet, row, n: k } => {
            if n > 0 {
                let i = pick_idx(*sheet, n);
                let name = book.get_sheet_collection_no_check()[i].get_name().to_string();
                book.remove_row(&name, row, k);
                for t in track.iter_mut() {
                    t.loaded = true;
                    t.edited = true;
                }
                edits.clear();
            }
        }
        Op::ProbePastEnd(k) => {
            if book.get_sheet_mut(&(n + *k as usize)).is_some() {
                return Err("get_sheet_mut past the end returned a sheet".into());
            }
        }
        Op::EditActive { col, row, value } => {
            let i = *book.get_workbook_view().get_active_tab() as usize;
            if i < n {
                let ws = book.get_active_sheet_mut();
                apply_value(ws.get_cell_mut((*col, *row)), value);
                track[i].loaded = true;
                track[i].edited = true;
                edits.retain(|e| !(e.0 == i && e.1 == *col && e.2 == *row));
                edits.push((i, *col, *row, value.text()));
            }
        }
    }
    Ok(())
}

fn op_name(op: &Op) -> &'static str {
    match op {
        Op::ReadSheet(_) => "read_sheet",
        Op::GetSheetMut(_) => "get_sheet_mut",
        Op::GetSheetByNameMut(_) => "get_sheet_by_name_mut",
        Op::ReadAll => "read_sheet_collection",
        Op::Edit { .. } => "edit",
        Op::NewSheet => "new_sheet",
        Op::RemoveSheet(_) => "remove_sheet",
        Op::Rename(_) => "set_sheet_name",
        Op::InsertRow { .. } => "insert_row",
        Op::RemoveRow { .. } => "remove_row",
        Op::ProbePastEnd(_) => "get_sheet_mut_past_end",
        Op::EditActive { .. } => "edit_active_sheet",
    }
}

/// Compare a sheet that was copied raw / re-serialised differently: semantic projection plus
/// styles of cells that carry a non-default style in `a`.
fn diff_sheet_loose(a_ws: &umya_spreadsheet::Worksheet, b_ws: &umya_spreadsheet::Worksheet) -> Option<(String, String)> {
    if let Some((loc, l, r)) = diff_sheets(&strip_styles(&sem_sheet(a_ws)), &strip_styles(&sem_sheet(b_ws))) {
        return Some((loc, focus_diff(&l, &r)));
    }
    let default_style = format!("{:?}", umya_spreadsheet::Style::default());
    for c in a_ws.get_cell_collection() {
        let sa = format!("{:?}", c.get_style());
        let co = c.get_coordinate();
        let sb = b_ws
            .get_cell((*co.get_col_num(), *co.get_row_num()))
            .map(|x| format!("{:?}", x.get_style()))
            .unwrap_or_else(|| default_style.clone());
        if sa != sb && sa != default_style && sb != default_style {
            return Some((format!("cell-style/{}", co.get_coordinate()), focus_diff(&sa, &sb)));
        }
    }
    None
}

fn check(case: &Case, obs: &mut Obs) -> Verdict {
    // the file
    let (bytes, src) = match &case.source {
        Source::Corpus(name) => {
            obs.class(format!("corpus:{}", name));
            match std::fs::read(format!("{}/{}", corpus_dir(), name)) {
                Ok(b) => (b, "corpus"),
                Err(e) => return Verdict::Discard(format!("cannot read {}: {}", name, e)),
            }
        }
        Source::Generated(_) | Source::Styled(_) | Source::Annot(_) => {
            let (label, built) = match &case.source {
                Source::Generated(spec) => ("generated", guard(|| build(spec))),
                Source::Styled(c) => ("styled", guard(|| crate::props::c05::build_all(c))),
                Source::Annot(wb) => ("annotated", guard(|| crate::gen::annot::build(wb))),
                Source::Corpus(_) => unreachable!(),
            };
            obs.class(label);
            let book = match built {
                Ok(b) => b,
                Err(p) => return Verdict::fail(format!("build/panic:{}", p.site()), p.short()),
            };
            match g("save-source", || save(&book, false)) {
                Ok(b) => (b, label),
                Err(v) => return v,
            }
        }
    };
    let mut eager = match g("load-eager", || load(&bytes)) {
        Ok(b) => b,
        Err(_) => return Verdict::Discard("source not readable".into()),
    };
    let original = dump_book(&eager);
    let original_sem = sem_book(&eager);
    let mut lazy = match g("load-lazy", || {
        umya_spreadsheet::reader::xlsx::read_reader(Cursor::new(bytes.clone()), false).map_err(|e| format!("{:?}", e))
    }) {
        Ok(b) => b,
        Err(v) => return v,
    };
    let n0 = eager.get_sheet_count();
    if lazy.get_sheet_count() != n0 {
        return Verdict::fail("lazy/sheet-count", format!("{} vs {}", lazy.get_sheet_count(), n0));
    }
    obs.class(format!("sheets:{}", n0.min(6)));
    let mut track_l: Vec<SheetTrack> = (0..n0).map(|i| SheetTrack { orig: Some(i), loaded: false, edited: false, renamed: false }).collect();
    let mut track_e = track_l.clone();
    let (mut cl, mut ce) = (0u32, 0u32);
    let (mut edits_l, mut edits_e) = (Vec::new(), Vec::new());
    let mut changes = false;
    for (k, op) in case.ops.iter().enumerate() {
        obs.class(format!("op:{}", op_name(op)));
        if !matches!(op, Op::ReadSheet(_) | Op::GetSheetMut(_) | Op::GetSheetByNameMut(_) | Op::ReadAll | Op::ProbePastEnd(_)) {
            changes = true;
        }
        let re = guard(|| apply(&mut eager, &mut track_e, op, &mut ce, &mut edits_e));
        let rl = guard(|| apply(&mut lazy, &mut track_l, op, &mut cl, &mut edits_l));
        match (re, rl) {
            (Ok(Ok(())), Ok(Ok(()))) => {}
            (Ok(Err(a)), Ok(Err(b))) if a == b => {}
            (Err(pe), Err(pl)) if pe.site() == pl.site() => {
                // both panic alike: not a lazy/eager difference (in-range arguments of the
                // structural operations are C07's subject)
                return Verdict::Discard(format!("op {} panics on both workbooks: {}", k, pe.short()));
            }
            (e, l) => {
                return Verdict::fail(
                    format!("{}/op-{}-diverges", src, op_name(op)),
                    format!("op #{} {:?}: eager {:?} | lazy {:?}", k, op, e.map_err(|p| p.short()), l.map_err(|p| p.short())),
                );
            }
        }
        // (i) every sheet the lazy workbook has materialised dumps like the eager one
        for (i, t) in track_l.iter().enumerate() {
            if !t.loaded {
                continue;
            }
            let r = guard(|| {
                let a = dump_sheet(eager.get_sheet(&i).unwrap());
                let b = dump_sheet(lazy.get_sheet(&i).unwrap());
                diff_sheets(&a, &b)
            });
            match r {
                Err(p) => return Verdict::fail(format!("{}/materialised-sheet/panic:{}", src, p.site()), format!("after op #{} {:?}: {}", k, op, p.short())),
                Ok(Some((loc, a, b))) => {
                    return Verdict::fail(
                        format!("{}/materialised-sheet-differs/{}", src, loc.split('/').next().unwrap_or("")),
                        format!("after op #{} {:?}: sheet {} {}: eager vs lazy {}", k, op, i, loc, focus_diff(&a, &b)),
                    )
                }
                Ok(None) => {}
            }
        }
    }
    let unloaded = track_l.iter().filter(|t| !t.loaded).count();
    obs.nontrivial(unloaded >= 1 && changes);
    obs.class(if unloaded == 0 { "at-save:all-loaded" } else if unloaded == track_l.len() { "at-save:none-loaded" } else { "at-save:some-loaded" });
    // (ii) save both, reload eagerly, compare
    let be = match g("save-eager", || save(&eager, case.light)) {
        Ok(b) => b,
        Err(_) => return Verdict::Discard("eager twin cannot be saved (not a lazy/eager difference)".into()),
    };
    let bl = match g(&format!("{}/save-lazy", src), || save(&lazy, case.light)) {
        Ok(b) => b,
        Err(v) => return v,
    };
    let re = match g("reload-eager", || load(&be)) {
        Ok(b) => b,
        Err(_) => return Verdict::Discard("eager twin's file cannot be reloaded (not a lazy/eager difference)".into()),
    };
    let rl = match g(&format!("{}/reload-lazy-saved", src), || load(&bl)) {
        Ok(b) => b,
        Err(v) => return v,
    };
    // Python leg: the lazily saved file is a valid package, and every sheet no operation
    // edited - still raw or materialised - decodes (cells, styles resolved through cellXfs,
    // merges, hyperlinks, comments, validation / conditional-format ranges) like the same
    // sheet of the original file, wherever it now stands in the sheet list
    {
        let untouched: Vec<(usize, usize, bool)> = track_l.iter().enumerate().filter_map(|(i, t)| match (t.orig, t.edited) {
            (Some(o), false) => Some((i, o, !t.loaded)),
            _ => None,
        }).collect();
        // big workbooks (a gigabyte per decode) go through the Python leg one at a time, and
        // only for a fixed eighth of the cases that use them (chosen by the case content)
        let big = original.sheets.iter().map(|s| s.cells.len()).sum::<usize>() > crate::props::pyleg::BIG_CELLS;
        let sampled_out = big && fnv(serde_json::to_string(case).unwrap_or_default().as_bytes()) % 8 != 0;
        if sampled_out {
            obs.class("python-leg:skipped-big-workbook");
        } else {
            obs.class(if big { "python-leg:big-workbook" } else { "python-leg" });
            if let Err(d) = crate::props::pyleg::c11_leg(src, &bytes, &be, &bl, &untouched, big) {
                return Verdict::fail(d.key, d.detail);
            }
        }
    }
    if re.get_sheet_count() != rl.get_sheet_count() {
        return Verdict::fail(format!("{}/saved/sheet-count", src), format!("eager {} lazy {}", re.get_sheet_count(), rl.get_sheet_count()));
    }
    if re.get_sheet_count() != track_l.len() {
        return Verdict::fail(format!("{}/saved/sheet-list", src), format!("{} sheets reloaded, model has {}", re.get_sheet_count(), track_l.len()));
    }
    // workbook-level items
    {
        let (de, dl) = (sem_book(&re), sem_book(&rl));
        for (k, v) in &de.book {
            if dl.book.get(k) != Some(v) {
                return Verdict::fail(
                    format!("{}/saved/book:{}", src, k),
                    format!("workbook item {}: eager vs lazy {}", k, focus_diff(v, dl.book.get(k).map(|s| s.as_str()).unwrap_or("<absent>"))),
                );
            }
        }
    }
    for (i, t) in track_l.iter().enumerate() {
        let (we, wl) = (re.get_sheet(&i).unwrap(), rl.get_sheet(&i).unwrap());
        if we.get_name() != wl.get_name() {
            return Verdict::fail(format!("{}/saved/sheet-name", src), format!("sheet {}: eager {:?} lazy {:?}", i, we.get_name(), wl.get_name()));
        }
        let state = if t.loaded { "loaded" } else { "raw" };
        if t.loaded {
            // went through the same serialiser on both sides
            if let Some((loc, a, b)) = diff_sheets(&dump_sheet(we), &dump_sheet(wl)) {
                return Verdict::fail(
                    format!("{}/saved/{}-sheet-differs/{}", src, state, loc.split('/').next().unwrap_or("")),
                    format!("sheet {} {}: eager-saved vs lazy-saved {}", i, loc, focus_diff(&a, &b)),
                );
            }
        } else if let Some((loc, d)) = diff_sheet_loose(we, wl) {
            return Verdict::fail(
                format!("{}/saved/{}-sheet-differs/{}", src, state, loc.split('/').next().unwrap_or("")),
                format!("sheet {} {}: eager-saved vs lazy-saved {}", i, loc, d),
            );
        }
        // untouched sheets keep the original's content (name aside: renaming is not an edit of content)
        if let (Some(o), false) = (t.orig, t.edited) {
            let mut now = sem_sheet(wl);
            let mut was = original_sem.sheets[o].clone();
            now.name.clear();
            was.name.clear();
            // the active-tab dependent parts of sheet views may change when sheets are
            // added/removed; everything else must be as in the original
            now.parts.remove("sheet_views");
            was.parts.remove("sheet_views");
            if t.renamed {
                now.parts.remove("defined_names");
                was.parts.remove("defined_names");
            }
            if src == "corpus" && t.loaded {
                // re-serialised sheet of a foreign file: see strip_styles
                now = strip_styles(&now);
                was = strip_styles(&was);
            }
            if let Some((loc, a, b)) = diff_sheets(&was, &now) {
                return Verdict::fail(
                    format!("{}/untouched-{}-sheet-changed/{}", src, state, loc.split('/').next().unwrap_or("")),
                    format!("sheet {} (original index {}) {}: original vs saved {}", i, o, loc, focus_diff(&a, &b)),
                );
            }
        }
    }
    let _ = original;
    // every edit is present
    for (i, col, row, text) in &edits_l {
        let got = rl.get_sheet(i).and_then(|ws| ws.get_cell((*col, *row)).map(|c| c.get_value().to_string())).unwrap_or_default();
        if &got != text {
            return Verdict::fail(format!("{}/edit-lost", src), format!("sheet {} ({},{}) should show {:?}, shows {:?}", i, col, row, text, got));
        }
    }
    Verdict::Pass
}

fn subs() -> Vec<Box<dyn DynSub>> {
    vec![
        Box::new(Sub {
            name: "corpus",
            strategy: corpus_case,
            cases: (6, 80),
            check,
            max_shrink_iters: 400,
        }),
        Box::new(Sub {
            name: "generated",
            strategy: generated_case,
            cases: (80, 4000),
            check,
            max_shrink_iters: 3000,
        }),
        Box::new(Sub {
            name: "styled",
            strategy: styled_case,
            cases: (40, 2000),
            check,
            max_shrink_iters: 2000,
        }),
        Box::new(Sub {
            name: "annotated",
            strategy: annot_case,
            cases: (40, 2000),
            check,
            max_shrink_iters: 1500,
        }),
    ]
}
