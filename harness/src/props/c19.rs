//! C19 — formatted values show the correctly rounded number.
//!
//! Statement clauses and the sub-check that decides each:
//!  * fixed-decimal / thousands / percentage patterns show the decimal rounding (half away
//!    from zero, sign kept, carries, separators)                        -> `fixed`
//!  * General shows numbers and text unchanged                           -> `general`
//!  * formatting never panics for any built-in format code and any finite number -> `builtin`
//!
//! The reference is `model::decimal` (digit surgery on the shortest round-trip decimal of
//! the f64, cross-checked against Python `decimal`).  Cases never carry an f64: a number is
//! a decimal string parsed with `str::parse::<f64>` (correctly rounded), so a replay file
//! determines the bits.
use super::Prop;
use crate::engine::*;
use crate::model::decimal::{render_fixed, Dec};
use proptest::prelude::*;
use rayon::prelude::*;
use serde::{Deserialize, Serialize};
use serde_json::json;
use std::sync::atomic::{AtomicBool, Ordering};
use umya_spreadsheet::helper::number_format::to_formatted_string;

pub fn prop() -> Prop {
    Prop {
        id: "C19",
        describe,
        subs,
        extra,
        replay_extra: super::no_replay_extra,
        watchdog_s: (900, 14400),
    }
}

fn describe(ctx: &Ctx) {
    ctx.rule("fixed: numbers built as (sign, integer digits, fraction digits) with at most 15 significant digits and magnitude 1e-7..1e15 (or 0), the fraction built relative to the pattern (shorter / equal / longer with first dropped digit <5, =5 exactly, >=5; leading zeros; runs of 9 that carry into the integer part); patterns 0, 0.0..0.000000, #,##0, #,##0.0..#,##0.000000, 0%, 0.0%..0.000000%; through to_formatted_string, Cell+set_format_code and Cell+set_number_format_id. Non-trivial = the rounded number's fraction is longer than the pattern with first dropped digit >=5, or shorter than the pattern, or begins with 0; distinct by (number, pattern, route)");
    ctx.rule("general: General format with numbers (fixed domain and the whole finite range) and text (incl. numeric look-alikes); non-trivial = a number with a fraction or an exponent-sized magnitude, or a text that parses as a number");
    ctx.rule("builtin: every built-in format id the library knows (through set_number_format_id and through its code) and every ECMA-376 built-in format code x finite numbers over the whole f64 range; non-trivial = the format is not General/@ ");
    ctx.rule("enumerated: every n in 0..=N (N = 1200 quick, 20000 thorough) x scale 10^-s (s = 0..=4, thorough 0..=5) x decimals 0..=3 (thorough 0..=4) x the three pattern kinds, every third one negative, through to_formatted_string (same oracle and non-triviality rule as `fixed`)");
    ctx.assume("the number that is rounded is the shortest round-trip decimal of the f64 (statement: 'computed from the float's shortest representation'), x100 for percentages is a shift of the decimal point");
    ctx.assume("negative values whose rounding is all zeros may be shown with or without the sign (the statement does not fix that case); -0.0 is not generated in `fixed`");
    ctx.assume("General/number: 'unchanged' = the shown text equals the cell's value text or parses (str::parse::<f64>) to the same f64 bits; General/text: the shown text equals the text");
    ctx.assume("percentage x thousands separators (#,##0%) is not one of the statement's patterns and is not generated");
}

// ---------------------------------------------------------------------------------------
// numbers as decimal strings

/// `[-]int.frac` in positional notation, or `[-]0.DIGITSe<point>` when `exp` is set.
#[derive(Debug, Clone, Serialize, Deserialize, PartialEq, Eq, Hash)]
pub struct Num {
    pub neg: bool,
    /// integer digits (at least "0")
    pub int: String,
    /// fraction digits (may be empty)
    pub frac: String,
    /// decimal exponent applied on top (0 in the `fixed` sub-check)
    pub exp: i32,
}

impl Num {
    pub fn text(&self) -> String {
        let mut s = String::new();
        if self.neg {
            s.push('-');
        }
        s.push_str(if self.int.is_empty() { "0" } else { &self.int });
        if !self.frac.is_empty() {
            s.push('.');
            s.push_str(&self.frac);
        }
        if self.exp != 0 {
            s.push_str(&format!("e{}", self.exp));
        }
        s
    }
    /// The finite f64 nearest to the decimal (overflow is clamped to +-f64::MAX).
    pub fn value(&self) -> f64 {
        let v: f64 = self.text().parse().unwrap_or(0.0);
        if v.is_infinite() {
            if self.neg {
                f64::MIN
            } else {
                f64::MAX
            }
        } else if v.is_nan() {
            0.0
        } else {
            v
        }
    }
}

fn digits(len: impl Strategy<Value = usize> + 'static) -> BoxedStrategy<String> {
    len.prop_flat_map(|n| prop::collection::vec(0u8..10, n))
        .prop_map(|v| v.into_iter().map(|d| (b'0' + d) as char).collect::<String>())
        .boxed()
}

fn int_part() -> BoxedStrategy<String> {
    prop_oneof![
        3 => Just("0".to_string()),
        4 => (1u8..10, digits(0usize..3)).prop_map(|(a, r)| format!("{}{}", a, r)),
        3 => (1u8..10, digits(3usize..7)).prop_map(|(a, r)| format!("{}{}", a, r)),
        1 => (1u8..10, digits(7usize..15)).prop_map(|(a, r)| format!("{}{}", a, r)),
        2 => (1usize..8).prop_map(|n| "9".repeat(n)),
        1 => (1u8..10, digits(0usize..4), 1usize..4).prop_map(|(a, r, n)| format!("{}{}{}", a, r, "9".repeat(n))),
    ]
    .boxed()
}

#[derive(Debug, Clone, Copy)]
enum FracMode {
    Short,
    Equal,
    LongHalf,
    LongUp,
    LongDown,
    NinesUp,
    NinesHalf,
}

/// Fraction digits built relative to `decimals`.
fn frac_part(decimals: usize) -> BoxedStrategy<String> {
    let mode = prop_oneof![
        2 => Just(FracMode::Short),
        2 => Just(FracMode::Equal),
        3 => Just(FracMode::LongHalf),
        3 => Just(FracMode::LongUp),
        2 => Just(FracMode::LongDown),
        2 => Just(FracMode::NinesUp),
        1 => Just(FracMode::NinesHalf),
    ];
    let zeros = prop_oneof![6 => Just(0usize), 2 => Just(1usize), 1 => Just(2usize), 1 => 3usize..6];
    (mode, zeros, digits(Just(8usize)), 1u8..10, 5u8..10, 0u8..5, digits(0usize..4), 0usize..8)
        .prop_map(move |(mode, z, body, nz, up, down, tail, short_len)| {
            let d = decimals;
            // kept part: z leading zeros then body digits, cut to d
            let mut kept: String = "0".repeat(z);
            kept.push_str(&body);
            let kept_d: String = kept.chars().take(d).collect();
            let nz = (b'0' + nz) as char;
            match mode {
                FracMode::Short => {
                    if d == 0 {
                        String::new()
                    } else {
                        let k = short_len % d; // 0..d-1 digits
                        let mut s: String = kept.chars().take(k).collect();
                        if k > 0 {
                            s.pop();
                            s.push(nz);
                        }
                        s
                    }
                }
                FracMode::Equal => {
                    let mut s = kept_d;
                    if !s.is_empty() {
                        s.pop();
                        s.push(nz);
                    }
                    s
                }
                FracMode::LongHalf => format!("{}5", kept_d),
                FracMode::LongUp => format!("{}{}{}", kept_d, (b'0' + up) as char, tail),
                FracMode::LongDown => format!("{}{}{}{}", kept_d, (b'0' + down) as char, tail, nz),
                FracMode::NinesUp => format!("{}{}{}", "9".repeat(d), (b'0' + up) as char, tail),
                FracMode::NinesHalf => format!("{}5", "9".repeat(d)),
            }
        })
        .boxed()
}

#[derive(Debug, Clone, Serialize, Deserialize)]
pub struct FixedCase {
    /// the number the pattern shows (for percentages: already x100; the cell holds this / 100)
    pub shown: Num,
    pub decimals: u8,
    /// 0 = `0.00`, 1 = `#,##0.00`, 2 = `0.00%`
    pub kind: u8,
    /// 0 = to_formatted_string, 1 = Cell + set_format_code, 2 = Cell + set_number_format_id (built-in patterns only)
    pub route: u8,
}

impl FixedCase {
    pub fn pattern(&self) -> String {
        let d = self.decimals as usize;
        let mut p = if self.kind == 1 { "#,##0".to_string() } else { "0".to_string() };
        if d > 0 {
            p.push('.');
            p.push_str(&"0".repeat(d));
        }
        if self.kind == 2 {
            p.push('%');
        }
        p
    }
    /// Decimal text of the cell's number: `shown`, with the point moved two places to the
    /// left for percentages (exact, on the digit string).
    pub fn number_text(&self) -> String {
        if self.kind != 2 {
            return self.shown.text();
        }
        let mut int = self.shown.int.clone();
        while int.len() < 3 {
            int.insert(0, '0');
        }
        let cut = int.len() - 2;
        let n = Num {
            neg: self.shown.neg,
            int: int[..cut].trim_start_matches('0').to_string(),
            frac: format!("{}{}", &int[cut..], self.shown.frac),
            exp: 0,
        };
        n.text()
    }
}

/// Clamp generated components into the statement's domain (<= 15 significant digits,
/// magnitude 1e-7..1e15 or zero) by construction.
fn clamp_fixed(mut shown: Num, kind: u8) -> Num {
    shown.exp = 0;
    if shown.int.is_empty() {
        shown.int = "0".into();
    }
    let max_int = if kind == 2 { 15 } else { 15 };
    if shown.int.len() > max_int {
        shown.int.truncate(max_int);
    }
    // magnitude: leading zeros of the fraction when the integer part is 0
    let int_zero = shown.int.bytes().all(|b| b == b'0');
    if int_zero {
        let max_lead = if kind == 2 { 4 } else { 6 };
        let lead = shown.frac.bytes().take_while(|b| *b == b'0').count();
        if lead > max_lead && lead < shown.frac.len() {
            shown.frac.drain(..lead - max_lead);
        }
    }
    // significant digits
    let all: String = format!("{}{}", shown.int, shown.frac);
    let lead = all.bytes().take_while(|b| *b == b'0').count();
    let sig = all.len() - lead;
    if sig > 15 {
        let drop = sig - 15;
        let keep = shown.frac.len().saturating_sub(drop);
        shown.frac.truncate(keep);
    }
    let zero = shown.int.bytes().chain(shown.frac.bytes()).all(|b| b == b'0');
    if zero {
        shown.neg = false;
    }
    shown
}

fn fixed_case(_t: Tier) -> BoxedStrategy<FixedCase> {
    (0u8..7, prop_oneof![3 => Just(0u8), 2 => Just(1u8), 2 => Just(2u8)])
        .prop_flat_map(|(decimals, kind)| {
            (
                Just(decimals),
                Just(kind),
                prop::bool::weighted(0.35),
                int_part(),
                frac_part(decimals as usize),
                prop_oneof![3 => Just(0u8), 2 => Just(1u8), 1 => Just(2u8)],
            )
        })
        .prop_map(|(decimals, kind, neg, int, frac, route)| {
            let shown = clamp_fixed(Neg { neg, int, frac }.into(), kind);
            FixedCase { shown, decimals, kind, route }
        })
        .boxed()
}

struct Neg {
    neg: bool,
    int: String,
    frac: String,
}
impl From<Neg> for Num {
    fn from(n: Neg) -> Num {
        Num { neg: n.neg, int: n.int, frac: n.frac, exp: 0 }
    }
}

/// id of a built-in pattern, if the pattern is one
fn builtin_id_of(pattern: &str) -> Option<u32> {
    match pattern {
        "0" => Some(1),
        "0.00" => Some(2),
        "#,##0" => Some(3),
        "#,##0.00" => Some(4),
        "0%" => Some(9),
        "0.00%" => Some(10),
        _ => None,
    }
}

fn format_via(route: u8, number: f64, pattern: &str) -> Result<String, PanicInfo> {
    guard(|| match (route, builtin_id_of(pattern)) {
        (0, _) => to_formatted_string(number.to_string(), pattern),
        (2, Some(id)) => {
            let mut book = umya_spreadsheet::new_file();
            let sheet = book.get_sheet_mut(&0).unwrap();
            let cell = sheet.get_cell_mut((2, 3));
            cell.set_value_number(number);
            cell.get_style_mut().get_number_format_mut().set_number_format_id(id);
            sheet.get_formatted_value((2, 3))
        }
        _ => {
            let mut book = umya_spreadsheet::new_file();
            let sheet = book.get_sheet_mut(&0).unwrap();
            let cell = sheet.get_cell_mut((2, 3));
            cell.set_value_number(number);
            cell.get_style_mut().get_number_format_mut().set_format_code(pattern);
            cell.get_formatted_value()
        }
    })
}

/// Shape of a fixed-decimal rendering: sign, integer digits (separators removed, positions
/// kept), fraction digits, percent sign.
struct Shape {
    neg: bool,
    int: String,
    int_grouped_ok: bool,
    has_group: bool,
    frac: Option<String>,
    percent: bool,
}

fn shape_of(s: &str) -> Option<Shape> {
    let (neg, body) = match s.strip_prefix('-') {
        Some(b) => (true, b),
        None => (false, s),
    };
    let (body, percent) = match body.strip_suffix('%') {
        Some(b) => (b, true),
        None => (body, false),
    };
    let (int_raw, frac) = match body.split_once('.') {
        Some((i, f)) => (i, Some(f.to_string())),
        None => (body, None),
    };
    if int_raw.is_empty() || !int_raw.bytes().all(|b| b.is_ascii_digit() || b == b',') {
        return None;
    }
    if let Some(f) = &frac {
        if f.is_empty() || !f.bytes().all(|b| b.is_ascii_digit()) {
            return None;
        }
    }
    let int: String = int_raw.chars().filter(|c| *c != ',').collect();
    if int.is_empty() {
        return None;
    }
    let has_group = int_raw.contains(',');
    let int_grouped_ok = crate::model::decimal::group_thousands(&int) == int_raw;
    Some(Shape { neg, int, int_grouped_ok, has_group, frac, percent })
}

/// Failure mode computed from the discrepancy between the shown and the expected text.
fn failure_mode(out: &str, c: &FixedCase, exp: &crate::model::decimal::Rendering) -> &'static str {
    let Some(sh) = shape_of(out) else {
        return "not-a-decimal-rendering";
    };
    let d = c.decimals as usize;
    if sh.percent != (c.kind == 2) {
        return "percent-sign";
    }
    let got_d = sh.frac.as_ref().map_or(0, |f| f.len());
    if got_d != d {
        return "wrong-decimal-count";
    }
    let r = &exp.rounded;
    let same_digits = sh.int.trim_start_matches('0') == r.int_digits.trim_start_matches('0') && sh.frac.clone().unwrap_or_default() == r.frac_digits;
    if !same_digits {
        // compare as integers scaled by 10^d
        let got: String = format!("{}{}", sh.int, sh.frac.clone().unwrap_or_default());
        let want: String = format!("{}{}", r.int_digits, r.frac_digits);
        let diff = digit_string_diff(&got, &want);
        return match diff {
            Some(1) if r.dropped_any && r.exact_half => "half-not-rounded-away",
            Some(1) if r.dropped_any => "misrounded-last-place",
            _ if c.kind == 2 => "wrong-percent-digits",
            _ => "wrong-digits",
        };
    }
    if sh.neg != r.neg {
        return "sign";
    }
    if sh.int != r.int_digits {
        return "integer-padding";
    }
    if c.kind == 1 && !(sh.int_grouped_ok) {
        return "separators";
    }
    if c.kind != 1 && sh.has_group {
        return "separators";
    }
    "other"
}

/// |a-b| for two non-negative decimal digit strings if it is small (<= 9), else None.
fn digit_string_diff(a: &str, b: &str) -> Option<u32> {
    let a = a.trim_start_matches('0');
    let b = b.trim_start_matches('0');
    let n = a.len().max(b.len());
    if n > 36 {
        return None;
    }
    let pa: u128 = if a.is_empty() { 0 } else { a.parse().ok()? };
    let pb: u128 = if b.is_empty() { 0 } else { b.parse().ok()? };
    let d = pa.abs_diff(pb);
    if d <= 9 {
        Some(d as u32)
    } else {
        None
    }
}

fn kind_name(kind: u8) -> &'static str {
    match kind {
        0 => "fixed",
        1 => "thousands",
        _ => "percent",
    }
}

pub fn check_fixed(c: &FixedCase, obs: &mut Obs) -> Verdict {
    if c.kind > 2 || c.decimals > 6 {
        return Verdict::Discard("pattern outside the statement".into());
    }
    let text = c.number_text();
    let x: f64 = match text.parse::<f64>() {
        Ok(v) if v.is_finite() => v,
        _ => return Verdict::Discard(format!("{:?} is not a finite number", text)),
    };
    let sd = Dec::shortest(x);
    if sd.digits.len() > 15 {
        return Verdict::Discard("more than 15 significant digits".into());
    }
    if !sd.is_zero() && !(x.abs() >= 1e-7 && x.abs() < 1e15) {
        return Verdict::Discard("magnitude outside 1e-7..1e15".into());
    }
    if x == 0.0 && x.is_sign_negative() {
        return Verdict::Discard("-0.0".into());
    }
    // the harness's own sanity: the f64's shortest decimal is the decimal that was written
    if Some(&sd) != Dec::from_plain(&text).as_ref() {
        return Verdict::Discard(format!("{:?} does not round-trip through f64 ({:?})", text, sd));
    }
    let d = c.decimals as usize;
    let exp = render_fixed(x, d, c.kind == 1, c.kind == 2);
    let pattern = c.pattern();
    let r = &exp.rounded;
    // strata / non-triviality
    let longer_up = exp.frac_len > d && r.first_dropped >= 5;
    let shorter = exp.frac_len < d;
    obs.nontrivial(longer_up || shorter || exp.frac_leading_zero);
    obs.class(format!("pattern/{}", kind_name(c.kind)));
    obs.class(format!("decimals/{}", d));
    obs.class(format!("route/{}", c.route));
    obs.class(if exp.frac_len > d {
        if r.exact_half {
            "frac/longer-exact-half"
        } else if r.first_dropped >= 5 {
            "frac/longer-up"
        } else {
            "frac/longer-down"
        }
    } else if exp.frac_len == d {
        "frac/equal"
    } else {
        "frac/shorter"
    });
    if exp.frac_leading_zero {
        obs.class("frac/leading-zero");
    }
    if r.carry_len > 0 {
        obs.class(if r.carry_len > d { "carry/into-integer" } else { "carry/in-fraction" });
    }
    if r.neg {
        obs.class("sign/negative");
    }
    if c.kind == 1 && r.int_digits.len() > 3 {
        obs.class("separators/needed");
    }
    let neg_zero = r.neg && r.is_zero;
    if neg_zero {
        obs.class("sign/negative-rounds-to-zero(either accepted)");
    }
    let out = match format_via(c.route, x, &pattern) {
        Ok(o) => o,
        Err(p) => {
            return Verdict::fail(
                format!("{}/panic:{}", kind_name(c.kind), p.site()),
                format!("{} with format {:?}: {}", text, pattern, p.short()),
            )
        }
    };
    if out == exp.text || (neg_zero && out == exp.text_unsigned) {
        return Verdict::Pass;
    }
    let mode = failure_mode(&out, c, &exp);
    Verdict::fail(
        format!("{}/{}", kind_name(c.kind), mode),
        format!("{} with format {:?} shows {:?}, the correctly rounded rendering is {:?}", text, pattern, out, exp.text),
    )
}

// ---------------------------------------------------------------------------------------
// General

#[derive(Debug, Clone, Serialize, Deserialize)]
pub struct GeneralCase {
    /// 0 = number, 1 = text
    pub kind: u8,
    pub num: Num,
    pub text: String,
    /// 0 = to_formatted_string(.., "General"), 1 = Cell with default style, 2 = Cell with explicit General format
    pub route: u8,
}

/// Finite numbers over the whole f64 range.
pub fn wide_num() -> BoxedStrategy<Num> {
    let special = prop::sample::select(vec![
        "0", "1", "-1", "0.5", "0.1", "0.3", "0.30000000000000004", "1e-7", "1e15", "1e16", "1e21", "1e22", "123456789012345678",
        "2958465", "2958466", "60", "59", "61", "0.99999", "-0.5", "4.9e-324", "2.2250738585072014e-308", "1.7976931348623157e308",
        "-1.7976931348623157e308", "9007199254740993", "4294967296", "2147483648", "-2147483649", "1e100", "1e-100", "43831.75",
        "0.000011574", "99999999.99", "1e9", "9.5e7", "9.6e7", "-1e9", "1e10", "1.5", "2.5", "1.005",
    ])
    .prop_map(|s| {
        let neg = s.starts_with('-');
        let body = s.trim_start_matches('-');
        let (m, e) = body.split_once('e').unwrap_or((body, "0"));
        let (i, f) = m.split_once('.').unwrap_or((m, ""));
        Num { neg, int: i.to_string(), frac: f.to_string(), exp: e.parse().unwrap() }
    });
    let general = (any::<bool>(), (1u8..10), digits(0usize..17), -330i32..310).prop_map(|(neg, a, rest, e)| Num {
        neg,
        int: "0".into(),
        frac: format!("{}{}", a, rest),
        exp: e,
    });
    let positional = (prop::bool::weighted(0.3), int_part(), digits(0usize..10)).prop_map(|(neg, int, frac)| Num { neg, int, frac, exp: 0 });
    let serial = (0u32..2958466, digits(0usize..8)).prop_map(|(d, frac)| Num { neg: false, int: d.to_string(), frac, exp: 0 });
    prop_oneof![2 => special, 3 => general, 3 => positional, 2 => serial].boxed()
}

fn general_case(_t: Tier) -> BoxedStrategy<GeneralCase> {
    let text = prop_oneof![
        3 => crate::gen::text::plain_text(24),
        2 => crate::gen::text::special_strings(),
        2 => prop::sample::select(vec![
            "007", "1e5", "1E5", "+1", "0.10", "1.", ".5", "-0", "inf", "Infinity", "-inf", "nan", "NaN", "1_000", "1,000", "12 ", " 12", "0x1F",
            "1e400", "١٢٣", "1.0", "100000000000000000000000", "0.1000000000000000055511151231257827",
        ]).prop_map(|s| s.to_string()),
    ];
    (prop::bool::weighted(0.55), wide_num(), text, 0u8..3)
        .prop_map(|(is_num, num, text, route)| GeneralCase { kind: if is_num { 0 } else { 1 }, num, text, route })
        .boxed()
}

pub fn check_general(c: &GeneralCase, obs: &mut Obs) -> Verdict {
    if c.kind == 0 {
        let x = c.num.value();
        let value_text = x.to_string();
        obs.class("general/number");
        obs.nontrivial(x.fract() != 0.0 || x.abs() >= 1e15 || (x != 0.0 && x.abs() < 1e-4));
        let r = guard(|| match c.route {
            0 => (to_formatted_string(&value_text, "General"), value_text.clone()),
            _ => {
                let mut book = umya_spreadsheet::new_file();
                let sheet = book.get_sheet_mut(&0).unwrap();
                let cell = sheet.get_cell_mut((1, 1));
                cell.set_value_number(x);
                if c.route == 2 {
                    cell.get_style_mut().get_number_format_mut().set_format_code("General");
                }
                (cell.get_formatted_value(), cell.get_value().to_string())
            }
        });
        match r {
            Err(p) => Verdict::fail(format!("general-number/panic:{}", p.site()), format!("{}: {}", value_text, p.short())),
            Ok((out, cell_text)) => {
                let same_text = out == cell_text;
                let same_bits = out.parse::<f64>().map_or(false, |y| y.to_bits() == x.to_bits());
                if same_text || same_bits {
                    Verdict::Pass
                } else {
                    Verdict::fail("general-number/changed", format!("number {:?} (value text {:?}) is shown as {:?}", x, cell_text, out))
                }
            }
        }
    } else {
        let t = &c.text;
        let lookalike = t.parse::<f64>().is_ok();
        obs.class(if lookalike { "general/text-numeric-lookalike" } else { "general/text" });
        obs.nontrivial(lookalike);
        let r = guard(|| match c.route {
            0 => to_formatted_string(t, "General"),
            _ => {
                let mut book = umya_spreadsheet::new_file();
                let sheet = book.get_sheet_mut(&0).unwrap();
                let cell = sheet.get_cell_mut((1, 1));
                cell.set_value_string(t.clone());
                if c.route == 2 {
                    cell.get_style_mut().get_number_format_mut().set_format_code("General");
                }
                cell.get_formatted_value()
            }
        });
        let class = if lookalike { "general-text-numeric-lookalike" } else { "general-text" };
        match r {
            Err(p) => Verdict::fail(format!("{}/panic:{}", class, p.site()), format!("{:?}: {}", t, p.short())),
            Ok(out) => {
                if &out == t {
                    Verdict::Pass
                } else {
                    Verdict::fail(format!("{}/changed", class), format!("text {:?} is shown as {:?}", t, out))
                }
            }
        }
    }
}

// ---------------------------------------------------------------------------------------
// built-in formats never panic

/// ids the library's table knows (`set_number_format_id` panics for any other id, which is
/// about choosing a format, not about formatting)
pub const LIB_BUILTIN_IDS: [u32; 56] = [
    0, 1, 2, 3, 4, 9, 10, 11, 12, 13, 14, 15, 16, 17, 18, 19, 20, 21, 22, 27, 28, 29, 30, 31, 32, 33, 34, 35, 36, 37, 38, 39, 40, 44, 45, 46, 47, 48,
    49, 50, 51, 52, 53, 54, 55, 56, 57, 58, 59, 60, 61, 62, 67, 68, 69, 70,
];

/// ECMA-376 part 1, 18.8.30: the built-in format codes (ids 0..49, en-US)
pub const ECMA_CODES: [(u32, &str); 36] = [
    (0, "General"),
    (1, "0"),
    (2, "0.00"),
    (3, "#,##0"),
    (4, "#,##0.00"),
    (5, r##""$"#,##0_);("$"#,##0)"##),
    (6, r##""$"#,##0_);[Red]("$"#,##0)"##),
    (7, r##""$"#,##0.00_);("$"#,##0.00)"##),
    (8, r##""$"#,##0.00_);[Red]("$"#,##0.00)"##),
    (9, "0%"),
    (10, "0.00%"),
    (11, "0.00E+00"),
    (12, "# ?/?"),
    (13, "# ??/??"),
    (14, "mm-dd-yy"),
    (15, "d-mmm-yy"),
    (16, "d-mmm"),
    (17, "mmm-yy"),
    (18, "h:mm AM/PM"),
    (19, "h:mm:ss AM/PM"),
    (20, "h:mm"),
    (21, "h:mm:ss"),
    (22, "m/d/yy h:mm"),
    (37, "#,##0 ;(#,##0)"),
    (38, "#,##0 ;[Red](#,##0)"),
    (39, "#,##0.00;(#,##0.00)"),
    (40, "#,##0.00;[Red](#,##0.00)"),
    (41, r##"_(* #,##0_);_(* \(#,##0\);_(* "-"_);_(@_)"##),
    (42, r##"_("$"* #,##0_);_("$"* \(#,##0\);_("$"* "-"_);_(@_)"##),
    (43, r##"_(* #,##0.00_);_(* \(#,##0.00\);_(* "-"??_);_(@_)"##),
    (44, r##"_("$"* #,##0.00_);_("$"* \(#,##0.00\);_("$"* "-"??_);_(@_)"##),
    (45, "mm:ss"),
    (46, "[h]:mm:ss"),
    (47, "mmss.0"),
    (48, "##0.0E+0"),
    (49, "@"),
];

#[derive(Debug, Clone, Serialize, Deserialize)]
pub struct BuiltinCase {
    /// index into LIB_BUILTIN_IDS followed by ECMA_CODES (monotone mapping)
    pub fmt: u16,
    pub num: Num,
    /// dirty stratum: date formats get the number as it is, also beyond the calendar
    /// (open finding); in the clean stratum such a number is folded into the calendar
    #[serde(default)]
    pub dirty: bool,
    /// 0 = to_formatted_string with the code, 1 = Cell (set_number_format_id for library ids, set_format_code for ECMA codes)
    pub route: u8,
}

fn builtin_case(_t: Tier) -> BoxedStrategy<BuiltinCase> {
    (any::<u16>(), wide_num(), 0u8..2, prop::bool::weighted(0.06))
        .prop_map(|(fmt, num, route, dirty)| BuiltinCase { fmt, num, route, dirty })
        .boxed()
}

/// Family of a format code, for strata and finding keys.
pub fn format_family(code: &str) -> &'static str {
    // strip quoted literals and bracket groups
    let mut bare = String::new();
    let mut in_q = false;
    let mut in_b = false;
    let mut prev_bs = false;
    for ch in code.chars() {
        if prev_bs {
            prev_bs = false;
            continue;
        }
        match ch {
            '\\' if !in_q => prev_bs = true,
            '"' => in_q = !in_q,
            '[' if !in_q => in_b = true,
            ']' if !in_q => in_b = false,
            _ if in_q || in_b => {}
            _ => bare.push(ch),
        }
    }
    let has_elapsed = code.contains("[h]") || code.contains("[m]") || code.contains("[s]");
    if code == "General" {
        "general"
    } else if bare.trim() == "@" {
        "text"
    } else if has_elapsed || bare.chars().any(|c| matches!(c, 'h' | 'm' | 's' | 'd' | 'y' | 'e' | 'g')) && !bare.contains("E+") {
        "date"
    } else if bare.contains("E+") || bare.contains("E-") {
        "scientific"
    } else if bare.contains('?') && bare.contains('/') {
        "fraction"
    } else if bare.contains('%') {
        "percent"
    } else if bare.contains(';') {
        "multi-section"
    } else {
        "number"
    }
}

/// Day counts of this magnitude are outside any calendar the date formatter can hold
/// (chrono ends in year 262142, about 9.5e7 days from 1900); label of a stratum, not an
/// oracle constant.
pub const CALENDAR_LIMIT: f64 = 9.0e7;

/// Open findings of the `builtin` sub-check that the clean stratum steers around.
pub const DATE_OVERFLOW_KEYS: [&str; 2] = [
    "builtin-date:serial-beyond-calendar/panic:helper/date.rs",
    "builtin-date:serial-beyond-calendar/panic:lib.rs",
];

fn number_class(family: &str, x: f64) -> &'static str {
    if family == "date" {
        if x.abs() >= CALENDAR_LIMIT {
            "serial-beyond-calendar"
        } else if x < 0.0 {
            "negative-serial"
        } else if x >= 2958466.0 {
            "serial-after-9999"
        } else {
            "serial-in-range"
        }
    } else if x == 0.0 {
        "zero"
    } else if x.abs() >= 1e15 {
        "huge"
    } else if x.abs() < 1e-7 {
        "tiny"
    } else if x < 0.0 {
        "negative"
    } else if x.fract() == 0.0 {
        "integer"
    } else {
        "fractional"
    }
}

fn builtin_format(c: &BuiltinCase) -> (Option<u32>, Option<&'static str>) {
    let n_lib = LIB_BUILTIN_IDS.len();
    let i = pick_idx(c.fmt, n_lib + ECMA_CODES.len());
    if i < n_lib {
        (Some(LIB_BUILTIN_IDS[i]), None)
    } else {
        (None, Some(ECMA_CODES[i - n_lib].1))
    }
}

pub fn check_builtin(c: &BuiltinCase, obs: &mut Obs) -> Verdict {
    let x = c.num.value();
    let (id, ecma) = builtin_format(c);
    // the code, looked up through the public API for library ids
    let code: String = match (id, ecma) {
        (Some(id), _) => {
            let r = guard(|| {
                let mut nf = umya_spreadsheet::NumberingFormat::default();
                nf.set_number_format_id(id);
                nf.get_format_code().to_string()
            });
            match r {
                Ok(c) => c,
                Err(p) => return Verdict::fail(format!("builtin-id-{}/lookup-panic:{}", id, p.site()), p.short()),
            }
        }
        (None, Some(code)) => code.to_string(),
        _ => unreachable!(),
    };
    let family = format_family(&code);
    let mut x = x;
    if family == "date" && x.abs() >= CALENDAR_LIMIT {
        if c.dirty {
            obs.class("stratum/dirty-date-beyond-calendar");
        } else {
            // steer around the open finding: fold the day count into the calendar
            x = x % CALENDAR_LIMIT;
            for k in DATE_OVERFLOW_KEYS {
                obs.excluded(k);
            }
        }
    }
    let nclass = number_class(family, x);
    obs.class(format!("family/{}", family));
    obs.class(format!("{}:{}", family, nclass));
    obs.class(if id.is_some() { "source/library-id" } else { "source/ecma-code" });
    obs.nontrivial(family != "general" && family != "text");
    let r = guard(|| match c.route {
        0 => to_formatted_string(x.to_string(), &code),
        _ => {
            let mut book = umya_spreadsheet::new_file();
            let sheet = book.get_sheet_mut(&0).unwrap();
            let cell = sheet.get_cell_mut((3, 2));
            cell.set_value_number(x);
            match id {
                Some(id) => {
                    cell.get_style_mut().get_number_format_mut().set_number_format_id(id);
                }
                None => {
                    cell.get_style_mut().get_number_format_mut().set_format_code(code.clone());
                }
            }
            sheet.get_formatted_value((3, 2))
        }
    });
    match r {
        Ok(_) => Verdict::Pass,
        Err(p) => Verdict::fail(
            format!("builtin-{}:{}/panic:{}", family, nclass, p.site()),
            format!("number {:?} with built-in format {:?} (id {:?}): {}", x, code, id, p.short()),
        ),
    }
}

fn subs() -> Vec<Box<dyn DynSub>> {
    vec![
        Box::new(Sub {
            name: "fixed",
            strategy: fixed_case,
            cases: (4000, 150_000),
            check: check_fixed,
            max_shrink_iters: 800,
        }),
        Box::new(Sub {
            name: "general",
            strategy: general_case,
            cases: (5000, 100_000),
            check: check_general,
            max_shrink_iters: 2000,
        }),
        Box::new(Sub {
            name: "builtin",
            strategy: builtin_case,
            cases: (2500, 80_000),
            check: check_builtin,
            max_shrink_iters: 2000,
        }),
    ]
}

// ---------------------------------------------------------------------------------------
// enumerated leg + oracle self-tests

fn harness_error(msg: &str) -> ! {
    eprintln!("HARNESS-ERROR: {}", msg);
    println!("INCONCLUSIVE property=C19 {}", msg);
    std::process::exit(2);
}

fn extra(ctx: &Ctx) {
    // the reference model against hand-computed values (cheap, every run)
    for (x, d, th, pc, want) in [
        (1.5, 0usize, false, false, "2"),
        (2.5, 0, false, false, "3"),
        (1.5, 2, false, false, "1.50"),
        (1.999, 2, false, false, "2.00"),
        (1.005, 2, false, false, "1.01"),
        (0.05, 1, false, false, "0.1"),
        (0.1234, 2, false, true, "12.34%"),
        (999999.5, 0, true, false, "1,000,000"),
        (-1234567.891, 1, true, false, "-1,234,567.9"),
        (5e-7, 6, false, false, "0.000001"),
        (20.275, 0, false, true, "2028%"),
        (0.0, 2, false, false, "0.00"),
    ] {
        let got = render_fixed(x, d, th, pc).text;
        if got != want {
            harness_error(&format!("reference model renders {} as {:?}, expected {:?}", x, got, want));
        }
    }
    if ctx.tier == Tier::Thorough {
        match crate::model::selftest_numcsv::run_python_selftest(&["dec"]) {
            Ok(msg) => ctx.set_extra("oracle_selftest", json!(msg)),
            Err(e) => harness_error(&format!("oracle self-test against Python decimal failed: {}", e)),
        }
    }
    if ctx.tier == Tier::Thorough && std::env::var("VERIF_FUZZ").is_ok() {
        fuzz_campaign(ctx);
    }
    let (n_max, s_max, d_max) = ctx.tier.pick((1200u32, 4usize, 3u8), (20000u32, 5usize, 4u8));
    let stop = AtomicBool::new(false);
    (0..=n_max).into_par_iter().for_each(|n| {
        if stop.load(Ordering::Relaxed) {
            return;
        }
        let digits = n.to_string();
        for s in 0..=s_max {
            // n / 10^s as (int, frac)
            let padded = format!("{:0>width$}", digits, width = s + 1);
            let cut = padded.len() - s;
            let int = padded[..cut].to_string();
            let frac = padded[cut..].trim_end_matches('0').to_string();
            for decimals in 0..=d_max {
                for kind in 0..3u8 {
                    let neg = n % 3 == 1 && n != 0;
                    let case = FixedCase {
                        shown: Num { neg, int: int.clone(), frac: frac.clone(), exp: 0 },
                        decimals,
                        kind,
                        route: 0,
                    };
                    let mut obs = Obs::default();
                    let v = check_fixed(&case, &mut obs);
                    if matches!(v, Verdict::Discard(_)) {
                        // percentages of very small numbers leave the 1e-7 domain: not a case
                        ctx.discards.fetch_add(1, Ordering::Relaxed);
                        continue;
                    }
                    let fp = fnv(format!("enum|{}|{}|{}|{}", n, s, decimals, kind).as_bytes());
                    ctx.count_case(fp, obs.nontrivial);
                    if ctx.judge("fixed", &case, v) {
                        stop.store(true, Ordering::Relaxed);
                        return;
                    }
                }
            }
        }
    });
    ctx.add_class("enumerated/n-values", n_max as u64 + 1);
    ctx.set_extra("enumerated", json!({"n_max": n_max, "scales": s_max + 1, "decimals": d_max + 1, "kinds": 3}));
}

// ---------------------------------------------------------------------------------------
// fuzzing entry (fuzz/fuzz_targets/fuzz_numfmt.rs)

/// Decode fuzzer bytes into a case of one of the sub-checks.  Every byte string decodes to
/// a case inside the generators' domain (digits are taken modulo 10, lengths are clamped).
pub fn fuzz_decode(data: &[u8]) -> Option<(&'static str, serde_json::Value)> {
    let (&sel, rest) = data.split_first()?;
    let digit_string = |b: &[u8]| -> String { b.iter().map(|x| (b'0' + x % 10) as char).collect() };
    match sel % 4 {
        0 | 1 => {
            // fixed: [flags][int len][digits...]
            let (&flags, rest) = rest.split_first()?;
            let (&il, rest) = rest.split_first()?;
            let il = (il as usize % 16).min(rest.len());
            let int = digit_string(&rest[..il]);
            let frac = digit_string(&rest[il..rest.len().min(il + 16)]);
            let kind = (flags >> 3) % 3;
            let shown = clamp_fixed(
                Num { neg: flags & 0x80 != 0, int: int.trim_start_matches('0').to_string(), frac, exp: 0 },
                kind,
            );
            let case = FixedCase { shown, decimals: flags % 7, kind, route: (flags >> 5) % 3 };
            Some(("fixed", serde_json::to_value(case).ok()?))
        }
        2 => {
            // builtin: [fmt hi][fmt lo][route/dirty][8 bytes of f64 bits]
            if rest.len() < 11 {
                return None;
            }
            let fmt = u16::from_be_bytes([rest[0], rest[1]]);
            let x = f64::from_bits(u64::from_le_bytes(rest[3..11].try_into().ok()?));
            if !x.is_finite() {
                return None;
            }
            let d = Dec::shortest(x);
            let num = Num { neg: d.neg, int: "0".into(), frac: d.digits.iter().map(|v| (b'0' + v) as char).collect(), exp: d.point };
            let case = BuiltinCase { fmt, num, route: rest[2] & 1, dirty: rest[2] & 0xF0 == 0xF0 };
            Some(("builtin", serde_json::to_value(case).ok()?))
        }
        _ => {
            // general text: the rest as (lossy) UTF-8 without NUL
            let (&route, rest) = rest.split_first()?;
            let text: String = String::from_utf8_lossy(rest).chars().filter(|c| *c != '\0').take(40).collect();
            if text.is_empty() {
                return None;
            }
            let case = GeneralCase { kind: 1, num: Num { neg: false, int: "0".into(), frac: String::new(), exp: 0 }, text, route: route % 3 };
            Some(("general", serde_json::to_value(case).ok()?))
        }
    }
}

/// Judge one fuzzer input: `Some((sub, key, detail))` for a discrepancy that is not one of
/// the open known findings of the `builtin` dirty stratum.
pub fn fuzz_judge(data: &[u8]) -> Option<(&'static str, String, String)> {
    static HOOK: std::sync::Once = std::sync::Once::new();
    HOOK.call_once(install_panic_hook);
    let (sub, case) = fuzz_decode(data)?;
    let mut obs = Obs::default();
    let v = match sub {
        "fixed" => check_fixed(&serde_json::from_value(case).ok()?, &mut obs),
        "builtin" => check_builtin(&serde_json::from_value(case).ok()?, &mut obs),
        _ => check_general(&serde_json::from_value(case).ok()?, &mut obs),
    };
    match v {
        Verdict::Fail { key, detail } if !DATE_OVERFLOW_KEYS.contains(&key.as_str()) => Some((sub, key, detail)),
        _ => None,
    }
}

/// Bounded libFuzzer campaign (thorough tier, opt-in with VERIF_FUZZ=1 because it needs the
/// nightly toolchain and a sanitizer build of about 5 minutes).  A crash input is decoded
/// and judged in-process, so a finding becomes an ordinary replay file.
fn fuzz_campaign(ctx: &Ctx) {
    let root = verif_root();
    let fuzz_dir = format!("{}/fuzz", root);
    let runs: u64 = std::env::var("VERIF_FUZZ_RUNS").ok().and_then(|s| s.parse().ok()).unwrap_or(60_000);
    // same library source as the harness build
    let ovr = std::env::var("VERIF_REPO_OVERRIDE")
        .ok()
        .or_else(|| std::fs::read_to_string(format!("{}/.repo_override", root)).ok())
        .map(|s| s.trim().to_string())
        .filter(|s| !s.is_empty());
    let cfg_dir = format!("{}/.cargo", fuzz_dir);
    let cfg = format!("{}/config.toml", cfg_dir);
    let _ = std::fs::create_dir_all(&cfg_dir);
    let body = match &ovr {
        Some(p) => format!("paths = [\"{}\"]\n[net]\noffline = true\n", p),
        None => "[net]\noffline = true\n".to_string(),
    };
    let _ = std::fs::write(&cfg, body);
    let work = format!("{}/corpus/fuzz_numfmt-run-{}", fuzz_dir, std::process::id());
    let arts = format!("{}/artifacts/", work);
    let _ = std::fs::create_dir_all(&arts);
    let out = std::process::Command::new("cargo")
        .current_dir(&fuzz_dir)
        .env("CARGO_NET_OFFLINE", "true")
        .env_remove("CARGO_TARGET_DIR")
        .args(["+nightly", "fuzz", "run", "--fuzz-dir", ".", "fuzz_numfmt", &work, "seeds/fuzz_numfmt", "--"])
        .arg(format!("-runs={}", runs))
        .arg(format!("-seed={}", (ctx.seed % 0xFFFF_FFFF) + 1))
        .arg("-max_len=40")
        .arg(format!("-artifact_prefix={}", arts))
        .output();
    let _ = std::fs::remove_dir_all(&cfg_dir);
    let mut crashes = 0u64;
    if let Ok(rd) = std::fs::read_dir(&arts) {
        for e in rd.flatten() {
            let Ok(bytes) = std::fs::read(e.path()) else { continue };
            crashes += 1;
            if let Some((sub, case)) = fuzz_decode(&bytes) {
                if let Some((_, key, detail)) = fuzz_judge(&bytes) {
                    ctx.count_case(fnv(&bytes), true);
                    ctx.judge(sub, &case, Verdict::fail(key, detail));
                }
            }
        }
    }
    let status = match &out {
        Ok(o) if o.status.success() => format!("ok: {} runs, no crash", runs),
        Ok(o) if crashes > 0 => format!("{} crash input(s), exit {:?}", crashes, o.status.code()),
        Ok(o) => format!(
            "unavailable (exit {:?}): {}",
            o.status.code(),
            truncate(String::from_utf8_lossy(&o.stderr).lines().rev().take(3).collect::<Vec<_>>().join(" / ").as_str(), 300)
        ),
        Err(e) => format!("unavailable: {}", e),
    };
    eprintln!("note: fuzz_numfmt campaign: {}", status);
    ctx.set_extra("fuzz_numfmt", json!(status));
    let _ = std::fs::remove_dir_all(&work);
}
