//! C05 — styles and dimensions survive save/reload; interning never merges styles.
//!
//! Case = a set of 1..300 distinct style specs built as families of near-duplicates
//! (gen::style), assigned to cells, whole rows (+height/hidden) and whole columns
//! (+width/hidden/best-fit, with runs of equal adjacent columns and a neighbour column that
//! differs from the run in exactly one thing).  The workbook is built through the public API,
//! saved to memory, reloaded, saved, reloaded, saved.
//!
//! Oracles (each tied to a sentence of the statement):
//!  (i)  "After save and reload every cell, row and column shows the same effective
//!       formatting it was given ... and rows/columns keep their height, width and hidden
//!       state": for every target the effective projection (gen::style::effective, 29
//!       attributes, normalisations N1..N5 documented there) of the reloaded style equals the
//!       hand-written expectation of its spec; height/width are compared by f64 bits, hidden
//!       by value.  Checked after the first reload and again after the second (a loaded
//!       workbook is a workbook too).  bestFit is compared too (it is one of the column
//!       attributes the writer uses to decide merging; losing it is reported under its own key).
//!  (ii) "Two cells that were given different formatting never come back with the same one":
//!       implied by (i) when (i) holds; when (i) fails the classifier looks for the style of
//!       the same workbook whose component the target came back with and reports the pair
//!       (key `<attrs that tell the two apart>/merged`).
//!  (iii)"saving repeatedly does not grow the style tables": child counts of cellXfs, fonts,
//!       fills, borders, numFmts, dxfs in xl/styles.xml (own zip + quick-xml pass over the
//!       produced bytes) must not increase from generation 1 to 2 to 3, and cellXfs of
//!       generation 1 <= distinct styles used + the count an empty workbook has.
use super::Prop;
use crate::engine::*;
use crate::gen::style::*;
use crate::gen::wb::Num;
use crate::props::c01::{load, save};
use proptest::prelude::*;
use serde::{Deserialize, Serialize};
use std::collections::BTreeMap;
use std::io::{Cursor, Read};
use umya_spreadsheet::{Spreadsheet, Style};

pub fn prop() -> Prop {
    Prop {
        id: "C05",
        describe,
        subs,
        extra,
        replay_extra,
        watchdog_s: (900, 14400),
    }
}

fn describe(ctx: &Ctx) {
    ctx.rule("workbooks with 1..300 distinct styles (quick <=48, thorough <=300) drawn from the full product font(name,size,bold,italic,underline kind,strike,colour argb/theme+tint/indexed) x fill(pattern,fg,bg | linear gradient: angle, stops) x 5 border edges(style,colour)+diagonal flags x alignment(h,v,wrap,rotation) x number format(built-in id / custom code incl. XML specials) x protection(locked,hidden), built as families: a base, its single-attribute neighbours and adversarial neighbours for concatenated keys (name-digits x size, size x family, indexed x theme, border style x colour, fg<->bg, flag shifts, tint precision, every built-in number-format code as a custom code in exact / upper / lower / mixed letter case next to the built-in id); every style sits on at least one cell, further cells/rows(+height,hidden)/columns(+width,hidden,bestFit, runs of equal adjacent columns and a one-attribute neighbour column) on 1..2 sheets; standard and light writer; save, reload, save, reload, save. Non-trivial = the workbook holds >=2 styles whose effective projections differ in exactly one attribute; distinct by full case");
    ctx.assume("effective formatting = the 29 attributes the statement names, read through public getters; an absent component stands for the workbook default of that component (Style::get_default_value()), an absent attribute for its format default, palette-indexed colours for their ARGB, number formats are compared by code (normalisations N1-N5 in gen/style.rs)");
    ctx.assume("not generated: path gradients (the API has no fields for them), the vertical/horizontal inside edges (differential formats only), protection with only one of locked/hidden set (the getter cannot tell absent from false), font names / format codes with control characters, column auto-width");
    ctx.rule("leg big: deterministic workbooks with n pairwise different styles, n = 254, 258, 300 (quick) + 4100, 65600 (thorough), same oracles");
    ctx.assume("font family, charset, scheme and vertAlign are set on some fonts as carriers but are not compared: the statement's font attribute list does not name them");
    ctx.assume("'does not grow' is asserted as: no table has more children in generation n+1 than in generation n (n=1,2); shrinking is allowed");
}

// ---------------------------------------------------------------------------------------
// case

#[derive(Debug, Clone, Serialize, Deserialize)]
pub struct CellT {
    pub sheet: u8,
    pub col: u32,
    pub row: u32,
    /// raw index, mapped monotonically onto the style list
    pub style: u16,
    pub value: bool,
    /// re-styling: the target first carries this other style (raw index) ...
    #[serde(default)]
    pub prior: Option<u16>,
    /// ... and gets its own style by 0 = `set_style` (replace), 1 = editing the live style in
    /// place (`get_style_mut()` + gen::style::apply_in_place).  In two-phase mode the prior is
    /// applied before the first save and the edit happens on the reloaded workbook.
    #[serde(default)]
    pub how: u8,
}

#[derive(Debug, Clone, Serialize, Deserialize)]
pub struct RowT {
    pub sheet: u8,
    pub row: u32,
    pub style: Option<u16>,
    pub height: Option<Num>,
    pub hidden: Option<bool>,
    /// re-styling: the target first carries this other style (raw index) ...
    #[serde(default)]
    pub prior: Option<u16>,
    /// ... and gets its own style by 0 = `set_style` (replace), 1 = editing the live style in
    /// place (`get_style_mut()` + gen::style::apply_in_place).  In two-phase mode the prior is
    /// applied before the first save and the edit happens on the reloaded workbook.
    #[serde(default)]
    pub how: u8,
}

#[derive(Debug, Clone, Serialize, Deserialize)]
pub struct ColT {
    pub sheet: u8,
    pub col: u32,
    /// number of adjacent columns with identical settings
    pub run: u8,
    pub style: Option<u16>,
    pub width: Option<Num>,
    pub hidden: Option<bool>,
    pub best_fit: Option<bool>,
    /// 0 = none; otherwise the column right of the run gets the same settings except
    /// 1 width, 2 hidden, 3 bestFit, 4 style
    pub neighbour: u8,
    pub neighbour_style: u16,
    /// re-styling: the target first carries this other style (raw index) ...
    #[serde(default)]
    pub prior: Option<u16>,
    /// ... and gets its own style by 0 = `set_style` (replace), 1 = editing the live style in
    /// place (`get_style_mut()` + gen::style::apply_in_place).  In two-phase mode the prior is
    /// applied before the first save and the edit happens on the reloaded workbook.
    #[serde(default)]
    pub how: u8,
}

#[derive(Debug, Clone, Serialize, Deserialize)]
pub struct Case {
    pub styles: Vec<StyleSpec>,
    pub sheets: u8,
    pub cells: Vec<CellT>,
    pub rows: Vec<RowT>,
    pub cols: Vec<ColT>,
    pub light: bool,
    /// styles with an odd index (and the targets that carry them) are applied only AFTER the
    /// first save+reload, i.e. they are interned against a stylesheet that came from a file
    #[serde(default)]
    pub two_phase: bool,
    /// how the `Style` value of styles[i] is reached (missing entries = Hist::Plain)
    #[serde(default)]
    pub hists: Vec<Hist>,
}

#[derive(Debug, Clone, Default, PartialEq)]
struct ColSet {
    style: Option<usize>,
    prior: Option<usize>,
    how: u8,
    width: Option<f64>,
    hidden: Option<bool>,
    best_fit: Option<bool>,
}

#[derive(Debug, Clone, Default, PartialEq)]
struct RowSet {
    style: Option<usize>,
    prior: Option<usize>,
    how: u8,
    height: Option<f64>,
    hidden: Option<bool>,
}

#[derive(Debug, Clone, Default, PartialEq)]
struct CellSet {
    style: usize,
    value: bool,
    prior: Option<usize>,
    how: u8,
}

static HEIGHTS: [f64; 10] = [15.0, 0.0, 0.75, 12.75, 15.75, 409.5, 13.2, 0.3333333333333333, 20.25, 100.0];
static WIDTHS: [f64; 10] = [8.38, 0.0, 1.0, 8.43, 9.140625, 10.7109375, 255.0, 20.5, 0.3333333333333333, 8.380000000000001];

impl Case {
    fn nsheets(&self) -> usize {
        self.sheets.clamp(1, 2) as usize
    }
    fn sidx(&self, raw: u16) -> usize {
        pick_idx(raw, self.styles.len())
    }
    fn sheet_of(&self, s: u8) -> usize {
        s as usize % self.nsheets()
    }
    /// 1 = applied before the first save, 2 = applied to the reloaded workbook
    fn phase(&self, style: Option<usize>) -> u8 {
        match style {
            Some(i) if self.two_phase && i % 2 == 1 => 2,
            _ => 1,
        }
    }
    /// the style a target carries first when it is re-styled: another style than its own and,
    /// in two-phase mode, one of the styles of phase 1 (even index)
    fn prior_idx(&self, raw: Option<u16>, target: usize) -> Option<usize> {
        let mut j = self.sidx(raw?);
        if self.two_phase {
            j &= !1usize;
        }
        if j == target {
            None
        } else {
            Some(j)
        }
    }
    fn hist(&self, i: usize) -> &Hist {
        static PLAIN: Hist = Hist::Plain;
        self.hists.get(i).unwrap_or(&PLAIN)
    }
    /// resolved column settings (later entries override earlier ones per attribute)
    fn col_model(&self) -> BTreeMap<(usize, u32), ColSet> {
        let mut m: BTreeMap<(usize, u32), ColSet> = BTreeMap::new();
        #[allow(clippy::too_many_arguments)]
        fn put(m: &mut BTreeMap<(usize, u32), ColSet>, sheet: usize, col: u32, style: Option<usize>, prior: Option<usize>, how: u8, width: Option<f64>, hidden: Option<bool>, best_fit: Option<bool>) {
            let e = m.entry((sheet, col)).or_default();
            if style.is_some() {
                e.style = style;
                e.prior = prior;
                e.how = how;
            }
            if width.is_some() {
                e.width = width;
            }
            if hidden.is_some() {
                e.hidden = hidden;
            }
            if best_fit.is_some() {
                e.best_fit = best_fit;
            }
        }
        for c in &self.cols {
            let sheet = self.sheet_of(c.sheet);
            // runs may end exactly at XFD (16384); they are cut there
            let start = c.col.clamp(1, 16384);
            let run = (c.run.clamp(1, 8) as u32).min(16384 - start + 1);
            let style = c.style.map(|r| self.sidx(r));
            let prior = style.and_then(|i| self.prior_idx(c.prior, i));
            let width = c.width.map(|w| w.0);
            for k in 0..run {
                put(&mut m, sheet, start + k, style, prior, c.how % 2, width, c.hidden, c.best_fit);
            }
            if c.neighbour != 0 && start + run <= 16384 {
                let (mut s2, mut w2, mut h2, mut b2) = (style, width, c.hidden, c.best_fit);
                match c.neighbour % 5 {
                    1 => w2 = Some(if width == Some(12.5) { 12.25 } else { 12.5 }),
                    2 => h2 = Some(!c.hidden.unwrap_or(false)),
                    3 => b2 = Some(!c.best_fit.unwrap_or(false)),
                    _ => {
                        let other = self.sidx(c.neighbour_style);
                        s2 = if Some(other) == style { None } else { Some(other) };
                    }
                }
                // the neighbour must carry all four attributes of its own (no inheritance from
                // an earlier entry at that position), so that it really differs in one thing
                let e = ColSet { style: s2, prior: None, how: 0, width: w2, hidden: h2, best_fit: b2 };
                m.insert((sheet, start + run), e);
            }
        }
        m
    }
    fn row_model(&self) -> BTreeMap<(usize, u32), RowSet> {
        let mut m: BTreeMap<(usize, u32), RowSet> = BTreeMap::new();
        for r in &self.rows {
            let e = m.entry((self.sheet_of(r.sheet), r.row.clamp(1, 1048576))).or_default();
            if let Some(s) = r.style {
                let i = self.sidx(s);
                e.style = Some(i);
                e.prior = self.prior_idx(r.prior, i);
                e.how = r.how % 2;
            }
            if let Some(h) = &r.height {
                e.height = Some(h.0);
            }
            if r.hidden.is_some() {
                e.hidden = r.hidden;
            }
        }
        m
    }
    /// (sheet,row,col) -> (style index, has value); every style also sits on one cell of
    /// its own on sheet 0 (rows 40.., columns 2..17), applied last
    fn cell_model(&self) -> BTreeMap<(usize, u32, u32), CellSet> {
        let mut m = BTreeMap::new();
        for c in &self.cells {
            let i = self.sidx(c.style);
            m.insert(
                (self.sheet_of(c.sheet), c.row.clamp(1, 1048576), c.col.clamp(1, 16384)),
                CellSet { style: i, value: c.value, prior: self.prior_idx(c.prior, i), how: c.how % 2 },
            );
        }
        for i in 0..self.styles.len() {
            m.insert((0usize, 40 + (i / 16) as u32, 2 + (i % 16) as u32), CellSet { style: i, value: i % 3 == 0, prior: None, how: 0 });
        }
        m
    }
}

fn new_book(case: &Case) -> Spreadsheet {
    let mut book = umya_spreadsheet::new_file_empty_worksheet();
    for s in 0..case.nsheets() {
        book.new_sheet(format!("S{}", s + 1)).expect("distinct legal names");
    }
    book
}

/// Give a live style slot its target style: `how` 0 replaces the value, 1 edits it in place.
fn restyle(slot: &mut Style, case: &Case, styles: &[Style], i: usize, how: u8) {
    if how == 1 {
        apply_in_place(slot, &case.styles[i]);
    } else {
        *slot = styles[i].clone();
    }
}

/// What has to happen to one target in `phase`: (stand-in or prior style to set first, then
/// the target's own style and attributes?)
fn plan(case: &Case, style: Option<usize>, prior: Option<usize>, phase: u8) -> (Option<usize>, bool) {
    let tphase = case.phase(style);
    if tphase == phase {
        // the prior goes first in the same phase unless it was already put there in phase 1
        (if phase == 1 { prior } else { None }, true)
    } else if phase == 1 && tphase == 2 {
        (prior, false)
    } else {
        (None, false)
    }
}

/// apply the targets of one phase through the public API
fn build(book: &mut Spreadsheet, case: &Case, styles: &[Style], phase: u8) {
    for ((sheet, col), cs) in case.col_model() {
        let (first, own) = plan(case, cs.style, cs.prior, phase);
        if first.is_none() && !own {
            continue;
        }
        let ws = book.get_sheet_mut(&sheet).unwrap();
        let c = ws.get_column_dimension_by_number_mut(&col);
        if let Some(j) = first {
            c.set_style(styles[j].clone());
        }
        if !own {
            continue;
        }
        if let Some(i) = cs.style {
            if cs.how == 1 {
                restyle(c.get_style_mut(), case, styles, i, 1);
            } else {
                c.set_style(styles[i].clone());
            }
        }
        if let Some(w) = cs.width {
            c.set_width(w);
        }
        if let Some(h) = cs.hidden {
            c.set_hidden(h);
        }
        if let Some(b) = cs.best_fit {
            c.set_best_fit(b);
        }
    }
    for ((sheet, row), rs) in case.row_model() {
        let (first, own) = plan(case, rs.style, rs.prior, phase);
        if first.is_none() && !own {
            continue;
        }
        let ws = book.get_sheet_mut(&sheet).unwrap();
        let r = ws.get_row_dimension_mut(&row);
        if let Some(j) = first {
            r.set_style(styles[j].clone());
        }
        if !own {
            continue;
        }
        if let Some(i) = rs.style {
            if rs.how == 1 {
                restyle(r.get_style_mut(), case, styles, i, 1);
            } else {
                r.set_style(styles[i].clone());
            }
        }
        if let Some(h) = rs.height {
            r.set_height(h);
        }
        if let Some(h) = rs.hidden {
            r.set_hidden(h);
        }
    }
    for ((sheet, row, col), cs) in case.cell_model() {
        let (first, own) = plan(case, Some(cs.style), cs.prior, phase);
        if first.is_none() && !own {
            continue;
        }
        let ws = book.get_sheet_mut(&sheet).unwrap();
        if let Some(j) = first {
            ws.get_cell_mut((col, row)).set_style(styles[j].clone());
        }
        if !own {
            continue;
        }
        if cs.value {
            ws.get_cell_mut((col, row)).set_value_number(1.5);
        }
        // always explicit: a cell created in a styled row/column inherits that style (API
        // behaviour outside this property); both ways of styling overwrite all of it
        if cs.how == 1 {
            restyle(ws.get_style_mut((col, row)), case, styles, cs.style, 1);
        } else {
            ws.get_cell_mut((col, row)).set_style(styles[cs.style].clone());
        }
    }
}

/// Debug text of the `Style` values that sit on the targets touched in `phase` (for the
/// cellXfs bound: `Style` has no Hash; the derived Debug text is equal exactly when the values
/// are equal, there are no NaNs here)
fn target_style_values(book: &Spreadsheet, case: &Case, phase: u8) -> std::collections::HashSet<String> {
    let mut set = std::collections::HashSet::new();
    for ((sheet, col), cs) in case.col_model() {
        let (first, own) = plan(case, cs.style, cs.prior, phase);
        if first.is_some() || own {
            if let Some(c) = book.get_sheet(&sheet).unwrap().get_column_dimension_by_number(&col) {
                set.insert(format!("{:?}", c.get_style()));
            }
        }
    }
    for ((sheet, row), rs) in case.row_model() {
        let (first, own) = plan(case, rs.style, rs.prior, phase);
        if first.is_some() || own {
            if let Some(r) = book.get_sheet(&sheet).unwrap().get_row_dimension(&row) {
                set.insert(format!("{:?}", r.get_style()));
            }
        }
    }
    for ((sheet, row, col), cs) in case.cell_model() {
        let (first, own) = plan(case, Some(cs.style), cs.prior, phase);
        if first.is_some() || own {
            set.insert(format!("{:?}", book.get_sheet(&sheet).unwrap().get_style((col, row))));
        }
    }
    set
}

// ---------------------------------------------------------------------------------------
// classification

fn text_kind(s: &str) -> &'static str {
    if s.chars().any(|c| matches!(c, '<' | '>' | '&' | '"' | '\'')) {
        "xml-special"
    } else if s.starts_with(' ') || s.ends_with(' ') {
        "edge-blank"
    } else if !s.is_ascii() {
        "non-ascii"
    } else if s.chars().last().map_or(false, |c| c.is_ascii_digit()) {
        "ends-in-digit"
    } else {
        "plain"
    }
}

/// coarse class of an attribute value for finding keys (enumerations keep their value)
fn value_class(attr: &str, v: &str) -> String {
    if attr.ends_with("color") || attr == "fill.fg" || attr == "fill.bg" {
        let kind = v.split(':').next().unwrap_or(v);
        if v.contains(" tint:") {
            format!("{}+tint", kind.split(' ').next().unwrap_or(kind))
        } else {
            kind.to_string()
        }
    } else if attr == "fill.pattern" && v.starts_with("gradient") {
        "gradient".to_string()
    } else if attr == "font.name" || attr == "numfmt.code" {
        text_kind(v).to_string()
    } else if attr == "font.size" {
        let t = v.split('#').next().unwrap_or(v);
        if t.ends_with(".0") { "int" } else { "frac" }.to_string()
    } else {
        v.to_string()
    }
}

/// Compare one target's observed projection with its expectation; on a mismatch build the
/// finding key (merge with a sibling style, whole style lost, or one attribute changed).
fn judge_style(what: &str, target: &str, i: usize, exp: &[StyleProj], got: &StyleProj, gen: &str) -> Option<Verdict> {
    let e = &exp[i];
    if e == got {
        return None;
    }
    // `api:` keys: the getters disagree with the call sequence already before saving
    let back = if gen.starts_with("api:") { "shows (before saving)" } else { "came back with" };
    let d = e.diff(got);
    let (attr, ev, gv) = &d[0];
    let comp = component_of(attr);
    // a text attribute that came back in another letter case only (font name, format code)
    if d.len() == 1 && ev != gv && ev.eq_ignore_ascii_case(gv) {
        let sibling = exp.iter().enumerate().find(|(j, o)| *j != i && o.0 == got.0);
        return Some(Verdict::fail(
            format!("{}{}/case-changed", gen, attr),
            format!(
                "{} {} style #{}: {} given as {:?}, {} {:?} (letter case only){}",
                what,
                target,
                i,
                attr,
                ev,
                back,
                gv,
                match sibling {
                    Some((j, _)) => format!("; it is now indistinguishable from style #{}, which was given {:?}", j, gv),
                    None => String::new(),
                }
            ),
        ));
    }
    let dflt = default_proj();
    if *got == dflt {
        return Some(Verdict::fail(
            format!("{}{}/style-lost", gen, what),
            format!("{} {} was given style #{} ({:?}) and {} the default formatting", what, target, i, e.diff(got), back),
        ));
    }
    let gcomp = got.component(comp);
    if gcomp == dflt.component(comp) && d.iter().filter(|x| component_of(x.0) == comp).count() > 1 {
        return Some(Verdict::fail(
            format!("{}{}/reset-to-default", gen, comp),
            format!("{} {} style #{}: the whole {} {} the workbook default; expected {:?} (all differences: {:?})", what, target, i, comp, back, e.component(comp), d),
        ));
    }
    // (ii) did it come back with the component of another style of this workbook?
    for (j, o) in exp.iter().enumerate() {
        if j != i && o.component(comp) == gcomp {
            let apart: Vec<&str> = e.diff(o).into_iter().map(|x| x.0).filter(|a| component_of(a) == comp).collect();
            return Some(Verdict::fail(
                format!("{}{}/merged", gen, apart.join("+")),
                format!(
                    "{} {} was given style #{} but {} the {} of style #{}: they differ in {:?}; expected {:?}, got {:?}",
                    what,
                    target,
                    i,
                    back,
                    comp,
                    j,
                    e.diff(o),
                    e.component(comp),
                    gcomp
                ),
            ));
        }
    }
    Some(Verdict::fail(
        format!("{}{}/{}->{}", gen, attr, value_class(attr, ev), value_class(attr, gv)),
        format!("{} {} style #{}: {} expected {:?}, {} {:?} (all differences: {:?})", what, target, i, attr, ev, back, gv, d),
    ))
}

fn hist_label(h: &Hist) -> &'static str {
    match h {
        Hist::Plain => "plain",
        Hist::InPlace => "in-place",
        Hist::Over { conv: 0, .. } => "over-prior",
        Hist::Over { .. } => "over-prior+convenience",
    }
}

fn default_width() -> f64 {
    *umya_spreadsheet::Column::default().get_width()
}

/// compare every target applied up to and including `upto` (phase) with its expectation
fn compare(case: &Case, exp: &[StyleProj], book: &Spreadsheet, gen: &str, upto: u8) -> Option<Verdict> {
    if book.get_sheet_count() != case.nsheets() {
        return Some(Verdict::fail(format!("{}sheets/count", gen), format!("{} sheets reloaded, {} saved", book.get_sheet_count(), case.nsheets())));
    }
    let dflt = default_proj();
    for ((sheet, row, col), cs) in case.cell_model() {
        // a target whose own style comes in a later phase shows its prior style until then
        let i = if case.phase(Some(cs.style)) > upto {
            match cs.prior {
                Some(j) => j,
                None => continue,
            }
        } else {
            cs.style
        };
        let ws = book.get_sheet(&sheet).unwrap();
        let got = effective(ws.get_style((col, row)));
        let at = format!("sheet {} {}{}", sheet, crate::props::c17::ref_col_name(col), row);
        if let Some(v) = judge_style("cell", &at, i, exp, &got, gen) {
            return Some(v);
        }
    }
    for ((sheet, row), rs) in case.row_model() {
        let ws = book.get_sheet(&sheet).unwrap();
        let at = format!("sheet {} row {}", sheet, row);
        let r = ws.get_row_dimension(&row);
        if case.phase(rs.style) > upto {
            if let Some(j) = rs.prior {
                let st = r.map_or(dflt.clone(), |r| effective(r.get_style()));
                if let Some(v) = judge_style("row", &at, j, exp, &st, gen) {
                    return Some(v);
                }
            }
            continue;
        }
        let (h, hid, st) = match r {
            Some(r) => (*r.get_height(), *r.get_hidden(), effective(r.get_style())),
            None => (0.0, false, dflt.clone()),
        };
        let eh = rs.height.unwrap_or(0.0);
        if h.to_bits() != eh.to_bits() {
            let cls = if eh == 0.0 { "zero" } else if eh.fract() == 0.0 { "int" } else { "frac" };
            return Some(Verdict::fail(format!("{}row/height-{}/changed", gen, cls), format!("{}: height {:?} reloaded as {:?} (row present: {})", at, eh, h, r.is_some())));
        }
        if hid != rs.hidden.unwrap_or(false) {
            return Some(Verdict::fail(format!("{}row/hidden/changed", gen), format!("{}: hidden {:?} reloaded as {}", at, rs.hidden, hid)));
        }
        match rs.style {
            Some(i) => {
                if let Some(v) = judge_style("row", &at, i, exp, &st, gen) {
                    return Some(v);
                }
            }
            None => {
                if st != dflt {
                    return Some(Verdict::fail(format!("{}row/style-appeared", gen), format!("{}: no style given, reloaded with {:?}", at, dflt.diff(&st))));
                }
            }
        }
    }
    for ((sheet, col), cs) in case.col_model() {
        let ws = book.get_sheet(&sheet).unwrap();
        let at = format!("sheet {} column {}", sheet, crate::props::c17::ref_col_name(col));
        let c = ws.get_column_dimension_by_number(&col);
        if case.phase(cs.style) > upto {
            if let Some(j) = cs.prior {
                let st = c.map_or(dflt.clone(), |c| effective(c.get_style()));
                if let Some(v) = judge_style("col", &at, j, exp, &st, gen) {
                    return Some(v);
                }
            }
            continue;
        }
        let (w, hid, bf, st) = match c {
            Some(c) => (*c.get_width(), *c.get_hidden(), *c.get_best_fit(), effective(c.get_style())),
            None => (default_width(), false, false, dflt.clone()),
        };
        let ew = cs.width.unwrap_or_else(default_width);
        if w.to_bits() != ew.to_bits() {
            return Some(Verdict::fail(format!("{}col/width/changed", gen), format!("{}: width {:?} reloaded as {:?} (column present: {})", at, ew, w, c.is_some())));
        }
        if hid != cs.hidden.unwrap_or(false) {
            return Some(Verdict::fail(format!("{}col/hidden/changed", gen), format!("{}: hidden {:?} reloaded as {}", at, cs.hidden, hid)));
        }
        if bf != cs.best_fit.unwrap_or(false) {
            return Some(Verdict::fail(format!("{}col/bestFit/changed", gen), format!("{}: bestFit {:?} reloaded as {}", at, cs.best_fit, bf)));
        }
        match cs.style {
            Some(i) => {
                if let Some(v) = judge_style("col", &at, i, exp, &st, gen) {
                    return Some(v);
                }
            }
            None => {
                if st != dflt {
                    return Some(Verdict::fail(format!("{}col/style-appeared", gen), format!("{}: no style given, reloaded with {:?}", at, dflt.diff(&st))));
                }
            }
        }
    }
    None
}

// ---------------------------------------------------------------------------------------
// xl/styles.xml table sizes, independent of the library's reader

pub const TABLES: [&str; 6] = ["cellXfs", "fonts", "fills", "borders", "numFmts", "dxfs"];

/// number of child elements of every direct child of <styleSheet>
pub fn table_counts(bytes: &[u8]) -> Result<BTreeMap<String, u32>, String> {
    let mut zip = zip::ZipArchive::new(Cursor::new(bytes)).map_err(|e| format!("zip: {}", e))?;
    let mut xml = String::new();
    zip.by_name("xl/styles.xml")
        .map_err(|e| format!("xl/styles.xml: {}", e))?
        .read_to_string(&mut xml)
        .map_err(|e| format!("xl/styles.xml: {}", e))?;
    let mut reader = quick_xml::Reader::from_str(&xml);
    let mut counts: BTreeMap<String, u32> = BTreeMap::new();
    let mut depth = 0usize;
    let mut current: Option<String> = None;
    loop {
        match reader.read_event() {
            Ok(quick_xml::events::Event::Start(e)) => {
                let name = String::from_utf8_lossy(e.name().as_ref()).to_string();
                if depth == 1 {
                    counts.entry(name.clone()).or_insert(0);
                    current = Some(name);
                } else if depth == 2 {
                    if let Some(c) = &current {
                        *counts.get_mut(c).unwrap() += 1;
                    }
                }
                depth += 1;
            }
            Ok(quick_xml::events::Event::Empty(e)) => {
                let name = String::from_utf8_lossy(e.name().as_ref()).to_string();
                if depth == 1 {
                    counts.entry(name).or_insert(0);
                } else if depth == 2 {
                    if let Some(c) = &current {
                        *counts.get_mut(c).unwrap() += 1;
                    }
                }
            }
            Ok(quick_xml::events::Event::End(_)) => {
                depth = depth.saturating_sub(1);
                if depth == 1 {
                    current = None;
                }
            }
            Ok(quick_xml::events::Event::Eof) => break,
            Err(e) => return Err(format!("xl/styles.xml not well-formed: {}", e)),
            _ => {}
        }
    }
    Ok(counts)
}

fn count_of(c: &BTreeMap<String, u32>, t: &str) -> u32 {
    c.get(t).copied().unwrap_or(0)
}

/// cellXfs of a workbook without any styling (what new_file itself contributes)
fn base_xfs() -> u32 {
    static BASE: std::sync::OnceLock<u32> = std::sync::OnceLock::new();
    *BASE.get_or_init(|| {
        let mut book = umya_spreadsheet::new_file_empty_worksheet();
        book.new_sheet("S1").unwrap();
        let bytes = save(&book, false).expect("empty workbook saves");
        count_of(&table_counts(&bytes).expect("styles.xml of an empty workbook parses"), "cellXfs")
    })
}

// ---------------------------------------------------------------------------------------
// the check

macro_rules! lib {
    ($stage:expr, $e:expr) => {
        match guard(|| $e) {
            Ok(Ok(v)) => v,
            Ok(Err(e)) => return Verdict::fail(format!("{}/error", $stage), e),
            Err(p) => return Verdict::fail(format!("{}/panic:{}", $stage, p.site()), p.short()),
        }
    };
}

fn check(case: &Case, obs: &mut Obs) -> Verdict {
    if case.styles.is_empty() {
        return Verdict::Discard("no styles".into());
    }
    let exp: Vec<StyleProj> = case.styles.iter().map(expected).collect();
    // NT rule + labels
    let n = exp.len();
    let mut near = false;
    'outer: for i in 0..n {
        for j in (i + 1)..n {
            if exp[i].distance(&exp[j]) == 1 {
                near = true;
                break 'outer;
            }
        }
    }
    obs.nontrivial(near);
    obs.class(format!(
        "styles:{}",
        match n {
            1 => "1",
            2..=9 => "2-9",
            10..=29 => "10-29",
            30..=99 => "30-99",
            _ => "100+",
        }
    ));
    obs.class(if case.light { "writer:light" } else { "writer:standard" });
    obs.class(if case.two_phase { "two-phase" } else { "one-phase" });
    obs.class(format!("sheets:{}", case.nsheets()));
    let cm = case.col_model();
    let rm = case.row_model();
    obs.class(format!("cols:{}", if cm.is_empty() { "0" } else if cm.len() < 8 { "1-7" } else { "8+" }));
    obs.class(format!("rows:{}", if rm.is_empty() { "0" } else if rm.len() < 8 { "1-7" } else { "8+" }));
    if case.cols.iter().any(|c| c.run > 1) {
        obs.class("col-run");
    }
    if case.cols.iter().any(|c| c.neighbour != 0) {
        obs.class("col-neighbour");
    }
    if case.styles.iter().any(|s| s.fill.as_ref().map_or(false, |f| f.fg.is_some() && f.pattern.unwrap_or(0) == 0)) {
        obs.class("fill:none+fg");
    }
    if case.styles.iter().any(|s| s.fill.as_ref().map_or(false, |f| f.gradient.is_some())) {
        obs.class("fill:gradient");
    }
    if n <= 400 {
        let near_pairs = (0..n).map(|i| ((i + 1)..n).filter(|&j| exp[i].distance(&exp[j]) == 1).count()).sum::<usize>();
        obs.class(format!("near-pairs:{}", match near_pairs { 0 => "0", 1..=9 => "1-9", 10..=99 => "10-99", _ => "100+" }));
    }
    // a custom code that is only a case variant of a built-in code, next to (any spelling of)
    // that built-in in the same workbook
    let codes: Vec<&str> = exp.iter().map(|e| e.0[26].as_str()).collect();
    if case.styles.iter().any(|s| matches!(&s.numfmt, Some(NumFmtSpec::Code(c)) if is_builtin_case_variant(c))) {
        obs.class("numfmt:case-variant-of-builtin");
        let pair = (0..n).any(|i| is_builtin_case_variant(codes[i]) && (0..n).any(|j| codes[j] != codes[i] && codes[j].eq_ignore_ascii_case(codes[i])));
        if pair {
            obs.class("numfmt:case-variant+sibling-spelling");
        }
    }
    // fills that carry one colour as fg only / as bg only (same pattern)
    {
        let fills: Vec<(&String, &String, &String)> = exp.iter().map(|e| (&e.0[7], &e.0[8], &e.0[9])).collect();
        let swapped = fills.iter().any(|a| a.1 != "none" && a.2 == "none" && fills.iter().any(|b| b.0 == a.0 && b.1 == "none" && b.2 == a.1));
        if swapped {
            obs.class("fill:fg-only+bg-only-same-colour");
        }
    }
    for h in ["in-place", "over-prior", "over-prior+convenience"] {
        if (0..n).any(|i| hist_label(case.hist(i)) == h) {
            obs.class(format!("hist:{}", h));
        }
    }
    {
        let cells = case.cell_model();
        let restyled = cells.values().filter(|c| c.prior.is_some()).map(|c| c.how).chain(rm.values().filter(|r| r.prior.is_some()).map(|r| r.how)).chain(cm.values().filter(|c| c.prior.is_some()).map(|c| c.how)).collect::<Vec<_>>();
        if restyled.iter().any(|h| *h == 0) {
            obs.class("restyle:set_style-twice");
        }
        if restyled.iter().any(|h| *h == 1) {
            obs.class(if case.two_phase { "restyle:in-place-after-reload" } else { "restyle:in-place" });
        }
    }
    if cm.keys().any(|k| k.1 == 16384) {
        obs.class("col:XFD");
    }
    if cm.values().any(|c| c.width == Some(0.0) && c.hidden == Some(true)) {
        obs.class("col:hidden+width0");
    }
    if rm.keys().any(|k| k.1 == 1048576) {
        obs.class("row:1048576");
    }
    if rm.values().any(|r| r.height == Some(0.0) && r.hidden == Some(true)) {
        obs.class("row:hidden+height0");
    }
    if case.cell_model().keys().any(|k| k.1 == 1048576 && k.2 == 16384) {
        obs.class("cell:XFD1048576");
    }

    // spec -> Style through the public API; the hand-written expectation must agree with
    // what the getters say BEFORE saving, otherwise the case says nothing about save/reload
    //
    // A style "was given" the formatting its call sequence denotes (the last write of every
    // attribute wins; only call paths for which the API promises that are generated, see
    // gen::style "setter histories").  If the getters already disagree before saving, the
    // formatting was lost by a setter, not by save/reload; that is reported too, under its
    // own `api:` keys (on the unmodified tree this never happens: verified over all seeds).
    let styles: Vec<Style> = match guard(|| case.styles.iter().enumerate().map(|(i, s)| build_style(s, case.hist(i))).collect::<Vec<_>>()) {
        Ok(s) => s,
        Err(p) => return Verdict::fail(format!("api:build-style/panic:{}", p.site()), p.short()),
    };
    for (i, st) in styles.iter().enumerate() {
        let pre = effective(st);
        if let Some(v) = judge_style("style", &format!("(before saving, built as {})", hist_label(case.hist(i))), i, &exp, &pre, "api:") {
            return v;
        }
    }
    let mut book = new_book(case);
    if let Err(p) = guard(|| build(&mut book, case, &styles, 1)) {
        return Verdict::fail(format!("build/panic:{}", p.site()), p.short());
    }
    if let Some(v) = compare(case, &exp, &book, "api:", 1) {
        return v;
    }
    let values1 = target_style_values(&book, case, 1);

    let bytes1 = lib!("save", save(&book, case.light));
    let mut book2 = lib!("reload", load(&bytes1));
    if let Some(v) = compare(case, &exp, &book2, "", 1) {
        return v;
    }
    // two-phase: the remaining styles are added to the workbook that came from the file
    let gen2 = if case.two_phase { "phase2:" } else { "resave:" };
    if case.two_phase {
        if let Err(p) = guard(|| build(&mut book2, case, &styles, 2)) {
            return Verdict::fail(format!("phase2:build/panic:{}", p.site()), p.short());
        }
        if let Some(v) = compare(case, &exp, &book2, "api:phase2:", 2) {
            return v;
        }
    }
    let values2 = if case.two_phase { target_style_values(&book2, case, 2) } else { Default::default() };
    let bytes2 = lib!("resave", save(&book2, case.light));
    let book3 = lib!("reload2", load(&bytes2));
    if let Some(v) = compare(case, &exp, &book3, gen2, 2) {
        return v;
    }
    let bytes3 = lib!("resave2", save(&book3, case.light));

    // (iii) tables
    let t1 = match table_counts(&bytes1) {
        Ok(t) => t,
        Err(e) => return Verdict::fail("tables/unreadable", e),
    };
    let t2 = match table_counts(&bytes2) {
        Ok(t) => t,
        Err(e) => return Verdict::fail("tables/unreadable", e),
    };
    let t3 = match table_counts(&bytes3) {
        Ok(t) => t,
        Err(e) => return Verdict::fail("tables/unreadable", e),
    };
    for t in TABLES {
        let (a, b, c) = (count_of(&t1, t), count_of(&t2, t), count_of(&t3, t));
        // (in two-phase mode generation 2 legitimately has more styles than generation 1)
        if b > a && !case.two_phase {
            return Verdict::fail(format!("tables/{}-grows:gen1->gen2", t), format!("{}: {} entries after the first save, {} after load+save (third: {})", t, a, b, c));
        }
        if c > b {
            return Verdict::fail(format!("tables/{}-grows:gen2->gen3", t), format!("{}: {} -> {} -> {} entries over three saves", t, a, b, c));
        }
    }
    // Distinct styles are counted the way the library can possibly tell them apart: as the
    // `Style` VALUES that sit on the targets (a style edited in place on top of something else
    // may differ from its twin in attributes outside the projection), separately per phase: a
    // style given to a RELOADED workbook is a different value from its materialised twin that
    // came from the file (font None vs Some(default font) ...), so it legitimately gets an xf
    // of its own; the statement only forbids growth by saving.
    let distinct = (values1.len() + values2.len()) as u32;
    // every style is applied in exactly one phase, so the bound is checked on the first
    // generation that holds all of them
    let xfs = count_of(if case.two_phase { &t2 } else { &t1 }, "cellXfs");
    if xfs > distinct + base_xfs() {
        return Verdict::fail(
            "tables/cellXfs-exceeds-distinct-styles",
            format!("{} cellXfs for {} distinct styles (+{} of an empty workbook)", xfs, distinct, base_xfs()),
        );
    }
    Verdict::Pass
}

// ---------------------------------------------------------------------------------------
// strategy

fn col_pos() -> BoxedStrategy<u32> {
    prop_oneof![
        5 => 1u32..=12,
        2 => prop::sample::select(vec![1u32, 2, 26, 27, 52, 702, 703, 16370, 16375, 16379, 16380, 16382, 16383, 16384]),
        1 => 1u32..=16384,
    ]
    .boxed()
}

fn row_pos() -> BoxedStrategy<u32> {
    prop_oneof![
        5 => 1u32..=12,
        2 => prop::sample::select(vec![1u32, 2, 39, 40, 41, 99, 100, 65536, 1048575, 1048576]),
        1 => 1u32..=1048576,
    ]
    .boxed()
}

fn f64_from(table: &'static [f64]) -> BoxedStrategy<Num> {
    prop_oneof![
        4 => prop::sample::select(table.to_vec()),
        1 => (0u32..=1638).prop_map(|i| i as f64 / 4.0),
        1 => (1u32..=25500).prop_map(|i| i as f64 / 100.0),
    ]
    .prop_map(Num)
    .boxed()
}

fn opt_b() -> BoxedStrategy<Option<bool>> {
    prop_oneof![3 => Just(None), 2 => Just(Some(true)), 1 => Just(Some(false))].boxed()
}

fn strategy(t: Tier) -> BoxedStrategy<Case> {
    // quick: ~8 families x (1 + <=5 neighbours + adversarial group) -> typically 30-48 styles
    let (fams, muts, max_styles, targets) = t.pick((8usize, 5usize, 48usize, 12usize), (40, 8, 300, 40));
    let styles = prop_oneof![
        6 => style_set(fams, muts, max_styles, false),
        1 => style_set(2, 3, 8, false),
        1 => style_set(fams, muts, max_styles, true),
    ];
    let restyle = || (prop::option::weighted(0.35, any::<u16>()), 0u8..2);
    let cell = (any::<u8>(), col_pos(), row_pos(), any::<u16>(), any::<bool>(), restyle())
        .prop_map(|(sheet, col, row, style, value, (prior, how))| CellT { sheet, col, row, style, value, prior, how });
    // combo 0/1: zero height together with hidden / explicitly not hidden
    let row = (any::<u8>(), row_pos(), prop::option::weighted(0.8, any::<u16>()), prop::option::weighted(0.6, f64_from(&HEIGHTS)), opt_b(), 0u8..12, restyle())
        .prop_map(|(sheet, row, style, height, hidden, combo, (prior, how))| {
            let (height, hidden) = match combo {
                0 => (Some(Num(0.0)), Some(true)),
                1 => (Some(Num(0.0)), Some(false)),
                _ => (height, hidden),
            };
            RowT { sheet, row, style, height, hidden, prior, how }
        });
    let col = (
        any::<u8>(),
        col_pos(),
        prop_oneof![2 => Just(1u8), 3 => 2u8..=6],
        prop::option::weighted(0.8, any::<u16>()),
        prop::option::weighted(0.7, f64_from(&WIDTHS)),
        opt_b(),
        opt_b(),
        prop_oneof![2 => Just(0u8), 4 => 1u8..=4],
        any::<u16>(),
        (0u8..12, restyle()),
    )
        .prop_map(|(sheet, col, run, style, width, hidden, best_fit, neighbour, neighbour_style, (combo, (prior, how)))| {
            // combo 0/1: zero width together with hidden / explicitly not hidden
            let (width, hidden) = match combo {
                0 => (Some(Num(0.0)), Some(true)),
                1 => (Some(Num(0.0)), Some(false)),
                _ => (width, hidden),
            };
            ColT {
                sheet,
                col,
                run,
                style,
                width,
                hidden,
                best_fit,
                neighbour,
                neighbour_style,
                prior,
                how,
            }
        });
    (
        styles,
        1u8..=2,
        prop::collection::vec(cell, 0..=targets),
        prop::collection::vec(row, 0..=targets),
        prop::collection::vec(col, 0..=targets),
        any::<bool>(),
        prop::bool::weighted(0.3),
        // one raw value per style decides how its Style value is reached (gen::style::hist_for)
        prop::collection::vec(any::<u16>(), max_styles),
    )
        .prop_map(|(styles, sheets, cells, rows, cols, light, two_phase, raws)| {
            let hists = (0..styles.len()).map(|i| hist_for(&styles, i, raws[i])).collect();
            Case { styles, sheets, cells, rows, cols, light, two_phase, hists }
        })
        .boxed()
}

/// For other properties (C04, C11) that want styled workbooks as sources: a smaller
/// version of this property's case strategy and a builder that applies everything at once.
pub fn small_case(t: Tier) -> BoxedStrategy<Case> {
    strategy(t)
        .prop_map(|mut c| {
            c.styles.truncate(12);
            c.hists.truncate(12);
            c.cells.truncate(10);
            c.rows.truncate(8);
            c.cols.truncate(8);
            c.two_phase = false;
            c
        })
        .boxed()
}

pub fn build_all(case: &Case) -> Spreadsheet {
    let styles: Vec<Style> = case.styles.iter().enumerate().map(|(i, s)| build_style(s, case.hist(i))).collect();
    let mut book = new_book(case);
    build(&mut book, case, &styles, 1);
    book
}

fn subs() -> Vec<Box<dyn DynSub>> {
    vec![Box::new(Sub {
        name: "roundtrip",
        strategy,
        cases: (400, 1500),
        check,
        max_shrink_iters: 3000,
    })]
}

// ---------------------------------------------------------------------------------------
// "big" leg: table sizes around and far beyond 256 / 65 536 entries

/// A deterministic workbook with `n` pairwise different styles: the product of rotation
/// (181) x horizontal (8) x vertical (5) x wrap (2) x protection (4) x font (3), walked by
/// index, plus a fill / number format that depends on the index.  Alignment and protection
/// live in the xf itself, so cellXfs grows to n+2 while the component tables stay small
/// (the library's interning is quadratic in the table size).
#[derive(Debug, Clone, Serialize, Deserialize)]
pub struct BigCase {
    pub n: u32,
    pub two_phase: bool,
    pub light: bool,
}

fn big_case(b: &BigCase) -> Case {
    let mut styles = Vec::with_capacity(b.n as usize);
    for i in 0..b.n {
        let mut s = StyleSpec::default();
        s.align = Some(AlignSpec {
            rotation: Some(i % 181),
            horizontal: Some((i / 181 % 8) as u8),
            vertical: Some((i / 1448 % 5) as u8),
            wrap: Some(i / 7240 % 2 == 1),
        });
        s.prot = match i / 14480 % 4 {
            0 => None,
            1 => Some(ProtSpec { locked: true, hidden: true }),
            2 => Some(ProtSpec { locked: false, hidden: false }),
            _ => Some(ProtSpec { locked: false, hidden: true }),
        };
        // font block: default font, then two other names (mutate k=0 picks FONT_NAMES[variant])
        let font = i / 57920 % 3;
        if font > 0 {
            s = mutate(&s, 0, font as u8);
        }
        // sprinkled italic (never collides with the blocks above: it only adds an attribute)
        if i % 5 == 1 {
            s = mutate(&s, 3, 0);
        }
        if i % 7 == 3 {
            s = mutate(&s, 9, (i % 3) as u8);
            s = mutate(&s, 8, 1);
        }
        if i % 11 == 5 {
            s.numfmt = Some(NumFmtSpec::Code(CUSTOM_CODES[(i / 11) as usize % CUSTOM_CODES.len()].to_string()));
        }
        styles.push(s);
    }
    Case {
        styles,
        sheets: 1,
        cells: Vec::new(),
        rows: vec![RowT { sheet: 0, row: 1048576, style: Some(u16::MAX), height: Some(Num(0.0)), hidden: Some(true), prior: None, how: 0 }],
        cols: vec![ColT { sheet: 0, col: 16380, run: 5, style: Some(0), width: Some(Num(0.0)), hidden: Some(true), best_fit: None, neighbour: 0, neighbour_style: 0, prior: None, how: 0 }],
        light: b.light,
        two_phase: b.two_phase,
        hists: Vec::new(),
    }
}

fn run_big(b: &BigCase, obs: &mut Obs) -> Verdict {
    let case = big_case(b);
    // the leg is only worth its name if the n styles really are pairwise different
    let distinct: std::collections::HashSet<StyleProj> = case.styles.iter().map(expected).collect();
    if distinct.len() != case.styles.len() {
        eprintln!("HARNESS-NOTE: C05 big leg n={}: only {} pairwise different styles", b.n, distinct.len());
        return Verdict::Discard(format!("big case n={} has only {} distinct styles", b.n, distinct.len()));
    }
    match guard(|| check(&case, obs)) {
        Ok(v) => v,
        Err(p) => Verdict::fail(format!("harness-panic:{}", p.site()), p.short()),
    }
}

fn extra(ctx: &Ctx) {
    // 254..258 straddle the one-byte boundary, 65 534..65 538 the two-byte boundary of an xf index
    let mut legs = vec![
        BigCase { n: 254, two_phase: false, light: false },
        BigCase { n: 258, two_phase: true, light: true },
        BigCase { n: 300, two_phase: false, light: true },
    ];
    if ctx.tier == Tier::Thorough {
        legs.push(BigCase { n: 4100, two_phase: true, light: false });
        legs.push(BigCase { n: 65_600, two_phase: false, light: false });
    }
    let t0 = std::time::Instant::now();
    let ev0 = legs.len() as u64;
    for b in &legs {
        let mut obs = Obs::default();
        let v = run_big(b, &mut obs);
        ctx.count_case(fnv(serde_json::to_string(b).unwrap().as_bytes()) ^ fnv(b"big"), obs.nontrivial);
        ctx.add_class(&format!("big/styles:{}", b.n), 1);
        ctx.add_sample(serde_json::json!({"sub": "big", "case": b}));
        ctx.judge("big", b, v);
    }
    ctx.sub_reports.lock().unwrap().push(serde_json::json!({
        "sub": "big",
        "evaluations": ev0,
        "wall_s": t0.elapsed().as_secs_f64(),
    }));
}

fn replay_extra(_ctx: &Ctx, sub: &str, case: &serde_json::Value) -> Option<Verdict> {
    if sub != "big" {
        return None;
    }
    let b: BigCase = match serde_json::from_value(case.clone()) {
        Ok(b) => b,
        Err(e) => return Some(Verdict::Discard(format!("cannot deserialise case: {}", e))),
    };
    let mut obs = Obs::default();
    Some(run_big(&b, &mut obs))
}
