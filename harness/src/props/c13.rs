//! C13 — saving to a path is all-or-nothing under I/O failure (level: fault enumeration).
//!
//! Legs (DESIGN 4 C13):
//!  * `fsize`   (a) RLIMIT_FSIZE = N around exactly one path-based save in a helper process
//!  * `target`  (b) unwritable target: missing directory, destination is a directory, the
//!                  temp-file name is a directory
//!  * `sink`    (c) failing caller-supplied sink for write_writer / write_writer_light /
//!                  csv::write_writer (in-process, proptest)
//!  * `kill`    (d) SIGKILL on entry of the k-th file syscall of the save (strace injection)
//!  * `errno`   (d') the k-th openat / write / lseek / rename ... of the save fails (strace)
//!  * `observer`(e) a concurrent reader while two workbooks are saved alternately
//!  * `stale`   (f) a stale temp file (larger / equal / smaller than the new output, also
//!                  read-only) pre-exists under exactly the library's temp name, with and
//!                  without a fault
//!  * `names`   (g) destination names: no extension, `*.tmp`, `*.<ext>.tmp`, several dots,
//!                  dot-file — healthy, fsize, kill, stale temp
//!  * `chain`   (h) two saves into one directory: a big save that is killed / fails (and may
//!                  leave its temp file), then a small one (and the other way round)
//!  * `concurrent`(i) different workbooks saved concurrently to same-stem destinations
//!                  (`report.xlsx` / `report.xlsm`) of one directory, each destination judged
//!                  on its own, with an observer per destination
//!
//! Oracle = the statement, nothing more:
//!  * the call panics (or the process crashes)                     -> violation
//!  * `Err`  -> whatever was at the destination before is still there, byte for byte
//!              (file bytes, or "absent", or the same directory listing)
//!  * `Ok`   -> the destination is a regular file that is a complete new file: csv: equal
//!              to an in-memory save; xlsx: a zip whose every entry reads with a good CRC,
//!              which the library reads back to the same cells as an in-memory save of the
//!              same workbook; password: a valid compound file whose package decrypts
//!              (independent agile decryptor) to such a zip
//!  * killed / observed -> destination is byte-identical to the old content or a complete
//!              new file
//!  * sink   -> no panic; a sink that reported a hard failure yields `Err`; `Ok` only with
//!              the complete content delivered
//! Leftover temp files are counted in the evidence (`leftover_tmp`) and never judged.
use super::Prop;
use crate::engine::*;
use crate::gen::faultsave::*;
use proptest::prelude::*;
use rayon::prelude::*;
use serde::{Deserialize, Serialize};
use serde_json::{json, Value};
use std::collections::{BTreeMap, BTreeSet, HashMap};
use std::path::{Path, PathBuf};
use std::sync::atomic::{AtomicBool, AtomicU64, Ordering};
use std::sync::{Arc, Mutex, OnceLock};

pub fn prop() -> Prop {
    Prop {
        id: "C13",
        describe,
        subs,
        extra,
        replay_extra,
        watchdog_s: (1200, 14400),
    }
}

/// BufWriter::new capacity: a `write_all` of fewer bytes than this stays in the buffer.
const BUF: u64 = 8192;

fn describe(ctx: &Ctx) {
    *ctx.level.lock().unwrap() = "fault_enumeration".into();
    ctx.rule("fault plans over (save kind in xlsx/light/csv/password) x (workbook spec below/above the 8 KiB BufWriter buffer, csv files of exactly 8191/8192/8193 bytes) x (destination absent / old content shorter / longer than the new file / old content read-only 0444 / a symbolic link to a file with old content): fsize = RLIMIT_FSIZE N in {0,1,2,511..513,4095..4097,8191..8193,len-2..len+1} + seeded offsets (thorough: every N for files <= 9 KiB, stride otherwise); target = missing dir / destination is an (empty|non-empty) directory / temp name is a directory; kill = SIGKILL on entry of the k-th call of every traced file syscall after the save began (all k when a name occurs <= 12 times, else first/last 4 + seeded sample; thorough: up to 2500 per name), the syscall list being taken from a dry run with the same pre-state (plain, read-only, symlink); errno = k-th openat/write/lseek/rename/unlink fails; observer = reader threads during alternating saves (also to a destination called book.tmp); stale = a stale temp file under the library's temp name (larger/equal/smaller than the output, read-only) x {healthy, fsize, kill/errno at rename}; names = destination names {no extension, *.tmp, *.<ext>.tmp, several dots, dot-file} x {healthy, fsize, kill, stale temp}; chain = a killed/failed save followed by a second save in the same directory; concurrent = same-stem destinations saved concurrently; sink = generated (workbook, chunk size, failing call index, mode) plans. Non-trivial = the fault lands strictly inside the save (0 < N < file length; kill after the temp file was created and before the helper reported; strace marked a call INJECTED; the sink's failing call index was reached; the observer saw >= 2 different complete files; the second save of a chain met a leftover temp file; a concurrent saver completed >= 2 saves); distinct by the serialised case");
    ctx.assume("rename(2) is atomic with respect to concurrent open(2)+read(2) of the destination (kernel guarantee); instants inside one syscall are not enumerated");
    ctx.assume("RLIMIT_FSIZE with SIGXFSZ ignored models 'disk full / size limit': the kernel accepts bytes up to offset N and fails the rest with EFBIG");
    ctx.assume("a complete encrypted file is one whose compound-file structure validates (cfb crate), whose two streams read to the end and whose package decrypts with the password (decryptor written in the harness) to a complete zip with the same cells");
    ctx.assume("Ok => the destination is *exactly* a complete file: csv byte-equal to an in-memory save; a package starts with a local header and ends with its end-of-central-directory record (nothing before or after the archive); a compound file is a whole number of sectors");
    ctx.assume("only the destination(s) of the saves are judged; other files of the directory (including a file that happens to carry the library's temp name) are not part of the statement");
    ctx.assume("durability after power loss (fsync) is not part of the statement and is not judged");
}

// ---------------------------------------------------------------------------------------
// cases

#[derive(Debug, Clone, PartialEq, Eq, Hash, Serialize, Deserialize)]
pub enum Pre {
    Absent,
    /// destination holds `old_content(len)`
    Old { len: u32 },
    /// the same, and the file is read-only (mode 0444; as root still replaceable and writable —
    /// the pre-state only has to exist)
    OldReadOnly { len: u32 },
    /// destination is a symbolic link to a file `link-target.dat` that holds `old_content(len)`
    SymlinkToOld { len: u32 },
}

pub const LINK_TARGET: &str = "link-target.dat";

fn apply_pre(dir: &Path, dest: &Path, pre: &Pre) -> std::io::Result<()> {
    use std::os::unix::fs::PermissionsExt;
    match pre {
        Pre::Absent => Ok(()),
        Pre::Old { len } => std::fs::write(dest, old_content(*len)),
        Pre::OldReadOnly { len } => {
            std::fs::write(dest, old_content(*len))?;
            std::fs::set_permissions(dest, std::fs::Permissions::from_mode(0o444))
        }
        Pre::SymlinkToOld { len } => {
            let t = dir.join(LINK_TARGET);
            std::fs::write(&t, old_content(*len))?;
            std::os::unix::fs::symlink(&t, dest)
        }
    }
}

fn pre_suffix(pre: &Pre) -> &'static str {
    match pre {
        Pre::OldReadOnly { .. } => "+readonly-dest",
        Pre::SymlinkToOld { .. } => "+symlink-dest",
        _ => "",
    }
}

#[derive(Debug, Clone, PartialEq, Eq, Hash, Serialize, Deserialize)]
pub enum Fault {
    None,
    Fsize { limit: u64 },
    MissingDir,
    DestIsDir { nonempty: bool },
    TmpIsDir,
    Inject(Inject),
    /// fallback when strace is unavailable
    TimedKill { spins: u64 },
}

#[derive(Debug, Clone, PartialEq, Eq, Hash, Serialize, Deserialize)]
pub struct PathCase {
    pub spec: BookSpec,
    pub kind: SaveKind,
    pub pre: Pre,
    pub fault: Fault,
    /// destination file name (default `book.<ext of the kind>`)
    #[serde(default, skip_serializing_if = "Option::is_none")]
    pub name: Option<String>,
    /// a stale temp file (what an earlier interrupted save leaves behind) pre-exists under
    /// exactly the temp name the library derives from the destination
    #[serde(default, skip_serializing_if = "Option::is_none")]
    pub stale_tmp: Option<Stale>,
}

#[derive(Debug, Clone, PartialEq, Eq, Hash, Serialize, Deserialize)]
pub struct Stale {
    pub len: u32,
    pub readonly: bool,
}

/// content of a stale temp file: csv-looking lines, so that a leaked tail is plausible data
pub fn stale_content(len: u32) -> Vec<u8> {
    let mut v = Vec::with_capacity(len as usize);
    let mut i = 0u64;
    while v.len() < len as usize {
        v.extend_from_slice(format!("STALE-TEMP-ROW-{},{:08x}\r\n", i, splitmix(i ^ 0x57A1E) as u32).as_bytes());
        i += 1;
    }
    v.truncate(len as usize);
    v
}

/// The temp name the library derives from a destination: `<name>.<ext>tmp`
/// (`<name>.tmp` for a destination without extension).
pub fn lib_tmp_path(dest: &Path) -> PathBuf {
    match dest.extension().and_then(|e| e.to_str()) {
        Some(e) => dest.with_extension(format!("{}tmp", e)),
        None => dest.with_extension("tmp"),
    }
}

fn default_name(kind: SaveKind) -> String {
    format!("book.{}", kind.ext())
}

/// class label of a destination file name
pub fn name_class(name: &str) -> &'static str {
    let parts: Vec<&str> = name.split('.').collect();
    match parts.as_slice() {
        [_] => "noext",
        ["", _] => "dotfile",
        [_, "tmp"] => "ext-tmp",
        [.., "tmp"] => "ext-x-tmp",
        [_, _] => "plain",
        _ => "multi-dot",
    }
}

pub fn old_content(len: u32) -> Vec<u8> {
    let mut v = Vec::with_capacity(len as usize);
    let mut i = 0u64;
    while v.len() < len as usize {
        v.extend_from_slice(format!("OLD-DESTINATION-CONTENT-{:08x};", splitmix(i) as u32).as_bytes());
        i += 1;
    }
    v.truncate(len as usize);
    v
}

#[derive(Debug, Clone, PartialEq)]
enum Snap {
    Absent,
    File(Vec<u8>),
    Dir(Vec<String>),
    Other(String),
}

fn snapshot(p: &Path) -> Snap {
    // follows symbolic links: the statement is about what a reader of the path gets
    match std::fs::metadata(p) {
        Err(e) if e.kind() == std::io::ErrorKind::NotFound => Snap::Absent,
        Err(e) => Snap::Other(format!("{}", e)),
        Ok(m) if m.is_dir() => {
            let mut names: Vec<String> = std::fs::read_dir(p)
                .map(|rd| rd.flatten().map(|e| e.file_name().to_string_lossy().to_string()).collect())
                .unwrap_or_default();
            names.sort();
            Snap::Dir(names)
        }
        Ok(m) if m.is_file() => match std::fs::read(p) {
            Ok(b) => Snap::File(b),
            Err(e) => Snap::Other(format!("unreadable: {}", e)),
        },
        Ok(_) => Snap::Other("special file".into()),
    }
}

fn describe_snap(s: &Snap) -> String {
    match s {
        Snap::Absent => "absent".into(),
        Snap::File(b) => format!("file of {} bytes (fnv {:016x})", b.len(), fnv(b)),
        Snap::Dir(n) => format!("directory {:?}", n),
        Snap::Other(e) => format!("<{}>", e),
    }
}

/// What a healthy in-memory save of (spec, kind) looks like; computed once per pair.
pub struct Expected {
    pub bytes: Vec<u8>,
    /// cell dump of the package read back (None for csv)
    pub dump: Option<Vec<(String, u32, u32, String)>>,
}

type ExpMap = Mutex<HashMap<(BookSpec, SaveKind), Arc<Expected>>>;
static EXPECTED: OnceLock<ExpMap> = OnceLock::new();

pub fn expected(spec: &BookSpec, kind: SaveKind) -> Result<Arc<Expected>, Trouble> {
    // Password decrypts to the plain package
    let kind = if kind == SaveKind::Password { SaveKind::Xlsx } else { kind };
    let map = EXPECTED.get_or_init(|| Mutex::new(HashMap::new()));
    if let Some(e) = map.lock().unwrap().get(&(spec.clone(), kind)) {
        return Ok(e.clone());
    }
    let e = Arc::new(expected_uncached(spec, kind)?);
    map.lock().unwrap().insert((spec.clone(), kind), e.clone());
    Ok(e)
}

/// (the generated sink cases use this directly: their specs are not worth caching)
pub fn expected_uncached(spec: &BookSpec, kind: SaveKind) -> Result<Expected, Trouble> {
    let bytes = match guard(|| save_to_vec(&build_book(spec), kind)) {
        Ok(Ok(b)) => b,
        Ok(Err(e)) => return Err(Trouble(format!("healthy in-memory save of {:?} fails: {:?}", spec, e))),
        Err(p) => return Err(Trouble(format!("healthy in-memory save of {:?} panics: {}", spec, p.short()))),
    };
    let dump = if kind == SaveKind::Csv {
        None
    } else {
        zip_exact_extent(&bytes).map_err(|e| Trouble(format!("healthy in-memory save of {:?} is not an exact zip extent: {}", spec, e)))?;
        Some(read_complete_xlsx(&bytes).map_err(|e| Trouble(format!("healthy in-memory save of {:?} does not read back: {}", spec, e)))?)
    };
    Ok(Expected { bytes, dump })
}

/// A package written by the library ends exactly with its end-of-central-directory record
/// (no archive comment), the central directory ends where that record starts and the first
/// local header is at offset 0: nothing may precede or follow the archive.
pub fn zip_exact_extent(bytes: &[u8]) -> Result<(), String> {
    let n = bytes.len();
    if n < 22 + 4 {
        return Err(format!("{} bytes: too short for a zip archive", n));
    }
    if bytes[..4] != [0x50, 0x4b, 3, 4] {
        return Err("does not start with a local file header".into());
    }
    let e = n - 22;
    if bytes[e..e + 4] != [0x50, 0x4b, 5, 6] || bytes[n - 2..] != [0, 0] {
        return Err(format!("the last 22 of {} bytes are not the end-of-central-directory record: bytes follow (or are missing after) the archive", n));
    }
    let cd_size = u32::from_le_bytes(bytes[e + 12..e + 16].try_into().unwrap()) as usize;
    let cd_off = u32::from_le_bytes(bytes[e + 16..e + 20].try_into().unwrap()) as usize;
    if cd_off + cd_size != e {
        return Err(format!("central directory [{}..{}) does not end at the end record ({})", cd_off, cd_off + cd_size, e));
    }
    Ok(())
}

/// Is `bytes` a complete new file for (spec, kind)?
pub fn complete(spec: &BookSpec, kind: SaveKind, bytes: &[u8]) -> Result<Result<(), String>, Trouble> {
    let exp = expected(spec, kind)?;
    Ok(match kind {
        SaveKind::Csv => {
            if bytes == &exp.bytes[..] {
                Ok(())
            } else if exp.bytes.starts_with(bytes) {
                Err(format!("only the first {} of {} bytes", bytes.len(), exp.bytes.len()))
            } else {
                Err(format!("{} bytes differing from the {} bytes of an in-memory save", bytes.len(), exp.bytes.len()))
            }
        }
        SaveKind::Xlsx | SaveKind::Light => match zip_exact_extent(bytes).and_then(|_| read_complete_xlsx(bytes)) {
            Err(e) => Err(format!("{} bytes (in-memory save: {}): {}", bytes.len(), exp.bytes.len(), e)),
            Ok(d) => {
                if Some(&d) == exp.dump.as_ref() {
                    Ok(())
                } else {
                    Err(format!("reads back to {} cells differing from the in-memory save's {}", d.len(), exp.dump.as_ref().map(|x| x.len()).unwrap_or(0)))
                }
            }
        },
        SaveKind::Password => match agile_decrypt(bytes, PASSWORD) {
            Err(e) => Err(format!("{} bytes: {}", bytes.len(), e)),
            Ok(_) if !compound_file_extent_ok(bytes) => Err(format!("{} bytes: not a whole number of compound-file sectors", bytes.len())),
            Ok(pkg) => match zip_exact_extent(&pkg).and_then(|_| read_complete_xlsx(&pkg)) {
                Err(e) => Err(format!("decrypted package of {} bytes: {}", pkg.len(), e)),
                Ok(d) => {
                    if Some(&d) == exp.dump.as_ref() {
                        Ok(())
                    } else {
                        Err("decrypted package reads back to different cells".into())
                    }
                }
            },
        },
    })
}

/// header sector shift at offset 30; the file must consist of whole sectors
fn compound_file_extent_ok(bytes: &[u8]) -> bool {
    if bytes.len() < 512 {
        return false;
    }
    let shift = u16::from_le_bytes([bytes[30], bytes[31]]) as u32;
    (9..=12).contains(&shift) && bytes.len() % (1usize << shift) == 0
}

#[derive(Debug, Default, Clone)]
pub struct Info {
    pub nontrivial: bool,
    pub classes: Vec<String>,
    /// names left in the directory besides the destination
    pub leftovers: Vec<String>,
    /// size of the destination afterwards, if a regular file
    pub after_len: Option<u64>,
    /// post-BEGIN trace of the helper (dry runs)
    pub trace: Option<Vec<TraceLine>>,
    pub outcome: String,
}

fn fault_class(c: &PathCase, new_len: u64) -> String {
    let mut base = fault_class_base(c, new_len);
    if !matches!(c.fault, Fault::MissingDir | Fault::DestIsDir { .. }) {
        base.push_str(pre_suffix(&c.pre));
    }
    if let Some(n) = &c.name {
        base.push_str(&format!("+name-{}", name_class(n)));
    }
    if let Some(st) = &c.stale_tmp {
        let full = healthy_len_cached(&c.spec, c.kind).unwrap_or(new_len);
        let rel = if st.len as u64 > full { "larger" } else if st.len as u64 == full { "equal" } else { "smaller" };
        base.push_str(&format!("+stale-tmp-{}{}", rel, if st.readonly { "-readonly" } else { "" }));
    }
    base
}

fn fault_class_base(c: &PathCase, new_len: u64) -> String {
    match &c.fault {
        Fault::None => "healthy".into(),
        Fault::Fsize { .. } => match c.kind {
            SaveKind::Password => "fsize".into(),
            _ if new_len < BUF => "fsize-fits-buffer".into(),
            _ => "fsize-exceeds-buffer".into(),
        },
        Fault::MissingDir => "missing-dir".into(),
        Fault::DestIsDir { .. } => "dest-is-dir".into(),
        Fault::TmpIsDir => "tmp-is-dir".into(),
        Fault::Inject(Inject::Kill { .. }) | Fault::TimedKill { .. } => "kill".into(),
        Fault::Inject(Inject::Errno { syscall, .. }) => format!("errno-{}", syscall),
    }
}

/// Run one path-based case end to end.  `want_trace`: run the helper under strace even
/// without injection (dry run for the enumeration).
pub fn check_path_case(c: &PathCase, want_trace: bool) -> Result<(Verdict, Info), Trouble> {
    let td = TempDir::new(c.kind.tag())?;
    let dir = td.path.clone();
    let fname = c.name.clone().unwrap_or_else(|| default_name(c.kind));
    let dest: PathBuf = match c.fault {
        Fault::MissingDir => dir.join("missing").join(&fname),
        _ => dir.join(&fname),
    };
    let io = |r: std::io::Result<()>| r.map_err(|e| Trouble(format!("cannot prepare {}: {}", dir.display(), e)));
    match (&c.fault, &c.pre) {
        (Fault::MissingDir, _) => {}
        (Fault::DestIsDir { nonempty }, _) => {
            io(std::fs::create_dir(&dest))?;
            if *nonempty {
                io(std::fs::write(dest.join("keep.txt"), b"keep"))?;
            }
        }
        (_, pre) => io(apply_pre(&dir, &dest, pre))?,
    }
    if c.fault == Fault::TmpIsDir {
        io(std::fs::create_dir(lib_tmp_path(&dest)))?;
    }
    if let Some(st) = &c.stale_tmp {
        let t = lib_tmp_path(&dest);
        if t != dest && c.fault != Fault::TmpIsDir && c.fault != Fault::MissingDir {
            io(std::fs::write(&t, stale_content(st.len)))?;
            if st.readonly {
                use std::os::unix::fs::PermissionsExt;
                io(std::fs::set_permissions(&t, std::fs::Permissions::from_mode(0o444)))?;
            }
        }
    }
    run_step(c, &dir, &dest, want_trace)
}

/// One save into an already prepared directory: snapshot, helper, snapshot, oracle.
fn run_step(c: &PathCase, dir: &Path, dest: &Path, want_trace: bool) -> Result<(Verdict, Info), Trouble> {
    let exp = expected(&c.spec, c.kind)?;
    let fname = dest.file_name().map(|n| n.to_string_lossy().to_string()).unwrap_or_default();
    let tmpname = lib_tmp_path(dest).file_name().map(|n| n.to_string_lossy().to_string()).unwrap_or_default();
    let before = snapshot(dest);
    let args = HelperArgs {
        spec: c.spec.clone(),
        kind: c.kind,
        path: dest.to_string_lossy().to_string(),
        limit: match c.fault {
            Fault::Fsize { limit } => Some(limit),
            _ => None,
        },
    };
    let tracedir = TempDir::new("trace")?;
    let run = match &c.fault {
        Fault::Inject(i) => run_helper(&args, Some(i), true, &tracedir.path)?,
        Fault::TimedKill { spins } => run_helper_timed_kill(&args, *spins)?,
        _ => run_helper(&args, None, want_trace, &tracedir.path)?,
    };
    let after = snapshot(dest);
    let mut info = Info::default();
    if let Snap::File(b) = &after {
        info.after_len = Some(b.len() as u64);
    }
    if let Ok(rd) = std::fs::read_dir(dir) {
        for e in rd.flatten() {
            let n = e.file_name().to_string_lossy().to_string();
            if n != fname && n != "missing" && n != LINK_TARGET && !(c.fault == Fault::TmpIsDir && n == tmpname) {
                info.leftovers.push(n);
            }
        }
    }
    let class = fault_class(c, exp.bytes.len() as u64);
    let kind = c.kind.tag();
    info.classes.push(format!("{}/{}", kind, class));
    let kill_expected = matches!(c.fault, Fault::Inject(Inject::Kill { .. }) | Fault::TimedKill { .. });
    let injected = run
        .trace
        .as_ref()
        .map(|t| t.iter().any(|l| l.after_begin && l.text.contains("INJECTED")))
        .unwrap_or(false);
    let created_tmp = run
        .trace
        .as_ref()
        .map(|t| t.iter().any(|l| l.after_begin && l.text.contains("O_CREAT")))
        .unwrap_or(false);
    info.trace = run.trace.clone();

    let changed = |what: &str| -> Verdict {
        Verdict::fail(
            format!("{}/{}/{}", kind, class, what),
            format!("destination before: {}; after: {}; leftovers {:?}", describe_snap(&before), describe_snap(&after), info.leftovers),
        )
    };
    let verdict = match (&run.outcome, run.signal) {
        (Some(Outcome::Panic { site, msg }), _) => {
            info.outcome = "panic".into();
            info.nontrivial = true;
            // a panic with a non-default destination name is keyed by the name class alone
            // (it happens before any I/O, whatever the fault plan)
            let pclass = match &c.name {
                Some(n) => format!("name-{}", name_class(n)),
                None => class.clone(),
            };
            Verdict::fail(format!("{}/{}/panic:{}", kind, pclass, site), format!("save to {:?} ({}) panicked: {}; destination {}", fname, class, msg, describe_snap(&after)))
        }
        (Some(Outcome::Err { text }), _) => {
            info.outcome = "err".into();
            if after != before {
                let mut v = changed("err-but-destination-changed");
                if let Verdict::Fail { detail, .. } = &mut v {
                    detail.push_str(&format!("; returned Err({})", truncate(text, 120)));
                }
                v
            } else {
                Verdict::Pass
            }
        }
        (Some(Outcome::Ok), _) => {
            info.outcome = "ok".into();
            match &after {
                Snap::File(b) => match complete(&c.spec, c.kind, b)? {
                    Ok(()) => Verdict::Pass,
                    Err(why) => Verdict::fail(
                        format!("{}/{}/ok-but-destination-incomplete", kind, class),
                        format!("save returned Ok(()) but the destination is not a complete new file: {}; before: {}", why, describe_snap(&before)),
                    ),
                },
                _ => changed("ok-but-destination-not-a-file"),
            }
        }
        (None, Some(9)) if kill_expected => {
            info.outcome = "killed".into();
            if after == before {
                Verdict::Pass
            } else {
                match &after {
                    Snap::File(b) => match complete(&c.spec, c.kind, b)? {
                        Ok(()) => Verdict::Pass,
                        Err(why) => {
                            let mut v = changed("destination-torn");
                            if let Verdict::Fail { detail, .. } = &mut v {
                                detail.push_str(&format!("; neither the old content nor a complete new file: {}", why));
                            }
                            v
                        }
                    },
                    _ => changed("destination-torn"),
                }
            }
        }
        (None, Some(sig)) => {
            info.outcome = "crash".into();
            Verdict::fail(format!("{}/{}/crash:signal{}", kind, class, sig), format!("helper died with signal {} during the save; destination {}", sig, describe_snap(&after)))
        }
        (None, None) => {
            return Err(Trouble(format!(
                "helper ended without outcome: exit {:?}, began {}, stderr {}",
                run.exit_code, run.began, run.stderr
            )))
        }
    };
    // non-triviality (DESIGN NT)
    match &c.fault {
        Fault::None => {}
        Fault::Fsize { limit } => {
            // the limit lies strictly inside the file a healthy save produces
            let full = healthy_len(&c.spec, c.kind).unwrap_or(exp.bytes.len() as u64);
            info.nontrivial |= *limit > 0 && *limit < full;
        }
        Fault::MissingDir | Fault::DestIsDir { .. } | Fault::TmpIsDir => info.nontrivial = true,
        Fault::Inject(Inject::Kill { .. }) => info.nontrivial |= run.signal == Some(9) && run.began && created_tmp,
        Fault::TimedKill { .. } => info.nontrivial |= run.signal == Some(9) && run.began,
        Fault::Inject(Inject::Errno { .. }) => info.nontrivial |= injected,
    }
    if kill_expected && run.signal != Some(9) {
        info.classes.push(format!("{}/kill-not-delivered", kind));
    }
    if kill_expected && !run.began {
        info.classes.push(format!("{}/kill-before-begin", kind));
    }
    info.classes.push(format!("{}/{}/{}", kind, class, info.outcome));
    Ok((verdict, info))
}

type LenMap = Mutex<HashMap<(BookSpec, SaveKind), u64>>;
static HEALTHY_LEN: OnceLock<LenMap> = OnceLock::new();

fn healthy_len_cached(spec: &BookSpec, kind: SaveKind) -> Option<u64> {
    HEALTHY_LEN.get_or_init(|| Mutex::new(HashMap::new())).lock().unwrap().get(&(spec.clone(), kind)).copied()
}

/// on-disk length of a healthy save (filled by the dry runs of the enumeration)
fn healthy_len(spec: &BookSpec, kind: SaveKind) -> Option<u64> {
    let m = HEALTHY_LEN.get_or_init(|| Mutex::new(HashMap::new()));
    if let Some(v) = m.lock().unwrap().get(&(spec.clone(), kind)) {
        return Some(*v);
    }
    if kind != SaveKind::Password {
        return None; // the in-memory length is the on-disk length
    }
    // replay of a single case: measure once
    let c = PathCase { spec: spec.clone(), kind, pre: Pre::Absent, fault: Fault::None, name: None, stale_tmp: None };
    let (_, info) = check_path_case(&c, false).ok()?;
    let l = info.after_len?;
    m.lock().unwrap().insert((spec.clone(), kind), l);
    Some(l)
}

fn set_healthy_len(spec: &BookSpec, kind: SaveKind, len: u64) {
    HEALTHY_LEN
        .get_or_init(|| Mutex::new(HashMap::new()))
        .lock()
        .unwrap()
        .insert((spec.clone(), kind), len);
}

// ---------------------------------------------------------------------------------------
// (c) failing sink, in-process

#[derive(Debug, Clone, PartialEq, Eq, Hash, Serialize, Deserialize)]
pub struct SinkCase {
    pub spec: BookSpec,
    pub kind: SaveKind,
    /// index into CHUNKS
    pub chunk_idx: u8,
    /// position of the failing call among the calls a healthy sink would see (monotone map)
    pub fail_raw: u16,
    pub mode: SinkMode,
    pub short_raw: u16,
    pub err_kind: u8,
}

const CHUNKS: [u32; 6] = [1 << 30, 8192, 4096, 509, 64, 7];

fn sink_case(tier: Tier) -> BoxedStrategy<SinkCase> {
    let max_rows = tier.pick(24u32, 120u32);
    (
        (1u8..=2, 1u32..=max_rows, 1u32..=6, 0u16..=24, any::<u32>()),
        prop_oneof![Just(SaveKind::Xlsx), Just(SaveKind::Light), Just(SaveKind::Csv)],
        0u8..CHUNKS.len() as u8,
        prop_oneof![3 => any::<u16>(), 1 => Just(0u16), 1 => Just(u16::MAX)],
        prop_oneof![
            3 => Just(SinkMode::Error),
            2 => Just(SinkMode::ShortThenError),
            1 => Just(SinkMode::Short),
            1 => Just(SinkMode::Zero),
            1 => Just(SinkMode::InterruptedOnce)
        ],
        any::<u16>(),
        0u8..ERR_KINDS.len() as u8,
    )
        .prop_map(|((sheets, rows, cols, text_len, seed), kind, chunk_idx, fail_raw, mode, short_raw, err_kind)| SinkCase {
            spec: BookSpec { sheets, rows, cols, text_len, seed },
            kind,
            chunk_idx,
            fail_raw,
            mode,
            short_raw,
            err_kind,
        })
        .boxed()
}

fn mode_tag(m: SinkMode) -> &'static str {
    match m {
        SinkMode::Error => "error",
        SinkMode::Short => "short",
        SinkMode::ShortThenError => "short-then-error",
        SinkMode::Zero => "zero",
        SinkMode::InterruptedOnce => "interrupted-once",
    }
}

fn check_sink(c: &SinkCase, obs: &mut Obs) -> Verdict {
    let exp = match expected_uncached(&c.spec, c.kind) {
        Ok(e) => e,
        Err(t) => return Verdict::Discard(t.0),
    };
    let chunk = CHUNKS[c.chunk_idx as usize % CHUNKS.len()];
    let ncalls = (exp.bytes.len() as u64).div_ceil(chunk as u64).max(1) as usize;
    // fail_at in 0..=ncalls: the last value is past the end (fault never reached, healthy run)
    let fail_at = pick_idx(c.fail_raw, ncalls + 1) as u32;
    let short_len = 1 + pick_idx(c.short_raw, (chunk as usize).min(exp.bytes.len()).max(1)) as u32;
    let plan = SinkPlan { chunk, fail_at, mode: c.mode, short_len, err_kind: c.err_kind };
    let book = build_book(&c.spec);
    let mut sink = FailingSink::new(plan);
    let r = guard(|| match c.kind {
        SaveKind::Xlsx => umya_spreadsheet::writer::xlsx::write_writer(&book, &mut sink),
        SaveKind::Light => umya_spreadsheet::writer::xlsx::write_writer_light(&book, &mut sink),
        SaveKind::Csv => {
            let opt = umya_spreadsheet::structs::CsvWriterOption::default();
            umya_spreadsheet::writer::csv::write_writer(&book, &mut sink, &opt)
        }
        SaveKind::Password => unreachable!(),
    });
    let kind = c.kind.tag();
    let mode = mode_tag(c.mode);
    obs.nontrivial(sink.fired);
    obs.class(format!("{}/{}/{}", kind, mode, if sink.fired { "reached" } else { "not-reached" }));
    obs.class(format!("calls-{}", match ncalls { 1 => "1", 2..=9 => "2-9", 10..=99 => "10-99", _ => "100+" }));
    let delivered = sink.inner.get_ref().clone();
    match r {
        Err(p) => Verdict::fail(
            format!("{}-sink/panic:{}", kind, p.site()),
            format!("sink failing at call {} ({}) -> panic {}", fail_at, mode, p.short()),
        ),
        Ok(Ok(())) => {
            if sink.hard_failed {
                return Verdict::fail(
                    format!("{}-sink/{}/error-swallowed", kind, mode),
                    format!("sink failed at call {} of ~{} but the save returned Ok(()); {} of {} bytes delivered", fail_at, ncalls, delivered.len(), exp.bytes.len()),
                );
            }
            // no hard failure: the data must have arrived completely
            let okc = match c.kind {
                SaveKind::Csv => {
                    if delivered == exp.bytes {
                        Ok(())
                    } else {
                        Err(format!("{} bytes delivered, in-memory save has {}", delivered.len(), exp.bytes.len()))
                    }
                }
                _ => match read_complete_xlsx(&delivered) {
                    Err(e) => Err(e),
                    Ok(d) => {
                        if Some(&d) == exp.dump.as_ref() {
                            Ok(())
                        } else {
                            Err("delivered package reads back to different cells".into())
                        }
                    }
                },
            };
            match okc {
                Ok(()) => Verdict::Pass,
                Err(why) => Verdict::fail(format!("{}-sink/{}/ok-but-incomplete", kind, mode), why),
            }
        }
        Ok(Err(_)) => {
            if !sink.hard_failed {
                obs.class(format!("{}/{}/err-without-hard-failure", kind, mode));
            }
            Verdict::Pass
        }
    }
}

fn subs() -> Vec<Box<dyn DynSub>> {
    vec![Box::new(Sub {
        name: "sink",
        strategy: sink_case,
        cases: (600, 6000),
        check: check_sink,
        max_shrink_iters: 600,
    })]
}

// ---------------------------------------------------------------------------------------
// (e) concurrent observer, in-process

#[derive(Debug, Clone, PartialEq, Eq, Hash, Serialize, Deserialize)]
pub struct ObsCase {
    pub kind: SaveKind,
    pub spec_a: BookSpec,
    pub spec_b: BookSpec,
    /// number of saves (A, B, A, ...)
    pub iterations: u32,
    pub old_len: u32,
    pub observers: u8,
    /// destination file name (default `book.<ext>`)
    #[serde(default, skip_serializing_if = "Option::is_none")]
    pub name: Option<String>,
    /// the destination is read-only (0444) whenever a save starts: the old file initially,
    /// and the saver makes each finished new file read-only again before the next save
    #[serde(default, skip_serializing_if = "is_false")]
    pub readonly: bool,
}

fn is_false(b: &bool) -> bool {
    !*b
}

fn make_readonly(p: &Path) {
    use std::os::unix::fs::PermissionsExt;
    let _ = std::fs::set_permissions(p, std::fs::Permissions::from_mode(0o444));
}

pub struct ObsInfo {
    pub reads: u64,
    pub distinct_seen: usize,
}

pub fn check_observer(c: &ObsCase) -> Result<(Verdict, ObsInfo), Trouble> {
    expected(&c.spec_a, c.kind)?;
    expected(&c.spec_b, c.kind)?;
    let td = TempDir::new("observer")?;
    let dest = td.path.join(c.name.clone().unwrap_or_else(|| default_name(c.kind)));
    let old = old_content(c.old_len);
    std::fs::write(&dest, &old).map_err(|e| Trouble(format!("cannot write {}: {}", dest.display(), e)))?;
    if c.readonly {
        make_readonly(&dest);
    }
    let book_a = build_book(&c.spec_a);
    let book_b = build_book(&c.spec_b);
    let done = AtomicBool::new(false);
    let reads = AtomicU64::new(0);
    // complete contents: old + what the saver itself read back after each finished save
    let complete_set: Mutex<Vec<Vec<u8>>> = Mutex::new(vec![old.clone()]);
    let saver_fail: Mutex<Option<Verdict>> = Mutex::new(None);
    let trouble: Mutex<Option<Trouble>> = Mutex::new(None);
    let kind = match &c.name {
        Some(n) => format!("{}+name-{}", c.kind.tag(), name_class(n)),
        None => c.kind.tag().to_string(),
    };
    let kind = if c.readonly { format!("{}+readonly-dest", kind) } else { kind };
    let kind = kind.as_str();
    let observed: Mutex<HashMap<u64, Vec<u8>>> = Mutex::new(HashMap::new());
    let missing = AtomicU64::new(0);
    let other_err: Mutex<Option<String>> = Mutex::new(None);
    std::thread::scope(|s| {
        for _ in 0..c.observers.max(1) {
            s.spawn(|| {
                let mut last = false;
                loop {
                    if done.load(Ordering::SeqCst) {
                        if last {
                            break;
                        }
                        last = true; // one more read after the saver finished
                    }
                    match std::fs::read(&dest) {
                        Ok(b) => {
                            reads.fetch_add(1, Ordering::Relaxed);
                            let h = fnv(&b) ^ (b.len() as u64).rotate_left(32);
                            let mut o = observed.lock().unwrap();
                            if !o.contains_key(&h) && o.len() < 4096 {
                                o.insert(h, b);
                            }
                        }
                        Err(e) if e.kind() == std::io::ErrorKind::NotFound => {
                            missing.fetch_add(1, Ordering::Relaxed);
                        }
                        Err(e) => {
                            *other_err.lock().unwrap() = Some(e.to_string());
                        }
                    }
                }
            });
        }
        s.spawn(|| {
            for i in 0..c.iterations {
                let (book, spec) = if i % 2 == 0 { (&book_a, &c.spec_a) } else { (&book_b, &c.spec_b) };
                match guard(|| save_to_path(book, c.kind, &dest)) {
                    Err(p) => {
                        *saver_fail.lock().unwrap() =
                            Some(Verdict::fail(format!("{}/healthy/panic:{}", kind, p.site()), format!("healthy save {} panicked: {}", i, p.short())));
                        break;
                    }
                    Ok(Err(e)) => {
                        *trouble.lock().unwrap() = Some(Trouble(format!("healthy save {} to {} failed: {:?}", i, dest.display(), e)));
                        break;
                    }
                    Ok(Ok(())) => match std::fs::read(&dest) {
                        Err(e) => {
                            *saver_fail.lock().unwrap() = Some(Verdict::fail(
                                format!("{}/healthy/ok-but-destination-not-a-file", kind),
                                format!("healthy save {} returned Ok but the destination cannot be read: {}", i, e),
                            ));
                            break;
                        }
                        Ok(b) => {
                            match complete(spec, c.kind, &b) {
                                Err(t) => {
                                    *trouble.lock().unwrap() = Some(t);
                                    break;
                                }
                                Ok(Err(why)) => {
                                    *saver_fail.lock().unwrap() = Some(Verdict::fail(
                                        format!("{}/healthy/ok-but-destination-incomplete", kind),
                                        format!("healthy save {} returned Ok but: {}", i, why),
                                    ));
                                    break;
                                }
                                Ok(Ok(())) => {}
                            }
                            let mut cs = complete_set.lock().unwrap();
                            if !cs.iter().any(|x| x == &b) {
                                cs.push(b);
                            }
                            drop(cs);
                            if c.readonly {
                                make_readonly(&dest);
                            }
                        }
                    },
                }
            }
            done.store(true, Ordering::SeqCst);
        });
    });
    if let Some(t) = trouble.into_inner().unwrap() {
        return Err(t);
    }
    let observed = observed.into_inner().unwrap();
    let complete_set = complete_set.into_inner().unwrap();
    let info = ObsInfo { reads: reads.load(Ordering::Relaxed), distinct_seen: observed.len() };
    if let Some(v) = saver_fail.into_inner().unwrap() {
        return Ok((v, info));
    }
    if missing.load(Ordering::Relaxed) > 0 {
        return Ok((
            Verdict::fail(
                format!("{}/observer/destination-missing", kind),
                format!("{} of the observer's opens found no destination although it existed before the saves began", missing.load(Ordering::Relaxed)),
            ),
            info,
        ));
    }
    let mut keys: Vec<&u64> = observed.keys().collect();
    keys.sort();
    for k in keys {
        let b = &observed[k];
        if !complete_set.iter().any(|x| x == b) {
            let prefix_of = complete_set.iter().position(|x| x.starts_with(b));
            return Ok((
                Verdict::fail(
                    format!("{}/observer/torn-read", kind),
                    format!(
                        "observer read {} bytes that are neither the old content nor any complete file a finished save left ({} complete versions, lengths {:?}){}",
                        b.len(),
                        complete_set.len(),
                        complete_set.iter().map(|x| x.len()).collect::<BTreeSet<_>>(),
                        match prefix_of {
                            Some(_) => "; it is a proper prefix of a complete version",
                            None => "",
                        }
                    ),
                ),
                info,
            ));
        }
    }
    if let Some(e) = other_err.into_inner().unwrap() {
        return Err(Trouble(format!("observer could not read the destination: {}", e)));
    }
    Ok((Verdict::Pass, info))
}

// ---------------------------------------------------------------------------------------
// chained saves: an unsuccessful (killed / failed) save followed by another save into the
// same directory, so that the second one meets whatever the first one left behind

#[derive(Debug, Clone, PartialEq, Eq, Hash, Serialize, Deserialize)]
pub struct Step {
    pub spec: BookSpec,
    /// None | Fsize | Inject | DestIsDir (the directory is created before and removed after the step)
    pub fault: Fault,
}

#[derive(Debug, Clone, PartialEq, Eq, Hash, Serialize, Deserialize)]
pub struct ChainCase {
    pub kind: SaveKind,
    #[serde(default, skip_serializing_if = "Option::is_none")]
    pub name: Option<String>,
    pub pre: Pre,
    pub steps: Vec<Step>,
}

pub fn check_chain(c: &ChainCase) -> Result<(Verdict, Vec<Info>), Trouble> {
    let td = TempDir::new("chain")?;
    let dir = td.path.clone();
    let dest = dir.join(c.name.clone().unwrap_or_else(|| default_name(c.kind)));
    let io = |r: std::io::Result<()>| r.map_err(|e| Trouble(format!("cannot prepare {}: {}", dir.display(), e)));
    io(apply_pre(&dir, &dest, &c.pre))?;
    let mut infos = Vec::new();
    let mut prev = String::from("first");
    for (i, st) in c.steps.iter().enumerate() {
        let pc = PathCase { spec: st.spec.clone(), kind: c.kind, pre: c.pre.clone(), fault: st.fault.clone(), name: c.name.clone(), stale_tmp: None };
        let made_dir = if let Fault::DestIsDir { nonempty } = &st.fault {
            if snapshot(&dest) != Snap::Absent {
                return Err(Trouble("chain step DestIsDir needs an absent destination".into()));
            }
            io(std::fs::create_dir(&dest))?;
            if *nonempty {
                io(std::fs::write(dest.join("keep.txt"), b"keep"))?;
            }
            true
        } else {
            false
        };
        let (v, info) = run_step(&pc, &dir, &dest, false)?;
        if made_dir {
            io(std::fs::remove_dir_all(&dest))?;
        }
        let outcome = info.outcome.clone();
        let class = fault_class(&pc, 0);
        infos.push(info);
        if let Verdict::Fail { key, detail } = v {
            // key of a later step says what preceded it
            let key = if i == 0 { key } else { format!("{}@after-{}", key, prev) };
            return Ok((Verdict::Fail { key, detail: format!("step {} of {}: {}", i + 1, c.steps.len(), detail) }, infos));
        }
        prev = format!("{}-{}", class.split('+').next().unwrap_or("x").replace("-fits-buffer", "").replace("-exceeds-buffer", ""), outcome);
    }
    Ok((Verdict::Pass, infos))
}

// ---------------------------------------------------------------------------------------
// concurrent saves of different workbooks to different destinations of one directory
// (same stem, different extensions): each destination is judged on its own

#[derive(Debug, Clone, PartialEq, Eq, Hash, Serialize, Deserialize)]
pub struct ConcCase {
    pub kind: SaveKind,
    pub names: Vec<String>,
    pub specs: Vec<BookSpec>,
    pub iterations: u32,
    pub old_len: u32,
    /// every destination is read-only (0444) whenever a save to it starts
    #[serde(default, skip_serializing_if = "is_false")]
    pub readonly: bool,
}

pub struct ConcInfo {
    pub saves_ok: u64,
    pub saves_err: u64,
    pub reads: u64,
}

pub fn check_concurrent(c: &ConcCase) -> Result<(Verdict, ConcInfo), Trouble> {
    let n = c.names.len().min(c.specs.len());
    for s in &c.specs {
        expected(s, c.kind)?;
    }
    let td = TempDir::new("concurrent")?;
    let dests: Vec<PathBuf> = c.names.iter().take(n).map(|x| td.path.join(x)).collect();
    let olds: Vec<Vec<u8>> = (0..n).map(|i| old_content(c.old_len + i as u32 * 17)).collect();
    for (d, o) in dests.iter().zip(&olds) {
        std::fs::write(d, o).map_err(|e| Trouble(format!("cannot write {}: {}", d.display(), e)))?;
        if c.readonly {
            make_readonly(d);
        }
    }
    let books: Vec<_> = c.specs.iter().take(n).map(build_book).collect();
    let kind_s = if c.readonly { format!("{}+readonly-dest", c.kind.tag()) } else { c.kind.tag().to_string() };
    let kind = kind_s.as_str();
    let fail: Mutex<Option<Verdict>> = Mutex::new(None);
    let trouble: Mutex<Option<Trouble>> = Mutex::new(None);
    let completes: Vec<Mutex<Vec<Vec<u8>>>> = olds.iter().map(|o| Mutex::new(vec![o.clone()])).collect();
    let observed: Vec<Mutex<HashMap<u64, Vec<u8>>>> = (0..n).map(|_| Mutex::new(HashMap::new())).collect();
    let missing = AtomicU64::new(0);
    let running = AtomicU64::new(n as u64);
    let (oks, errs, reads) = (AtomicU64::new(0), AtomicU64::new(0), AtomicU64::new(0));
    std::thread::scope(|s| {
        for i in 0..n {
            // observer of destination i
            let (dests, observed, running, missing, reads) = (&dests, &observed, &running, &missing, &reads);
            s.spawn(move || {
                let mut last = false;
                loop {
                    if running.load(Ordering::SeqCst) == 0 {
                        if last {
                            break;
                        }
                        last = true;
                    }
                    match std::fs::read(&dests[i]) {
                        Ok(b) => {
                            reads.fetch_add(1, Ordering::Relaxed);
                            let h = fnv(&b) ^ (b.len() as u64).rotate_left(32);
                            let mut o = observed[i].lock().unwrap();
                            if !o.contains_key(&h) && o.len() < 4096 {
                                o.insert(h, b);
                            }
                        }
                        Err(e) if e.kind() == std::io::ErrorKind::NotFound => {
                            missing.fetch_add(1, Ordering::Relaxed);
                        }
                        Err(_) => {}
                    }
                }
            });
            // saver of destination i
            let (books, specs, completes, fail, trouble, oks, errs) = (&books, &c.specs, &completes, &fail, &trouble, &oks, &errs);
            s.spawn(move || {
                let mut last_complete: Vec<u8> = completes[i].lock().unwrap()[0].clone();
                for round in 0..c.iterations {
                    if fail.lock().unwrap().is_some() {
                        break;
                    }
                    let r = guard(|| save_to_path(&books[i], c.kind, &dests[i]));
                    let now = std::fs::read(&dests[i]);
                    let set_fail = |v: Verdict| {
                        let mut f = fail.lock().unwrap();
                        if f.is_none() {
                            *f = Some(v);
                        }
                    };
                    match r {
                        Err(p) => {
                            set_fail(Verdict::fail(format!("{}/concurrent/panic:{}", kind, p.site()), format!("save {} to {} panicked: {}", round, c.names[i], p.short())));
                            break;
                        }
                        Ok(Ok(())) => {
                            oks.fetch_add(1, Ordering::Relaxed);
                            match now {
                                Err(e) => {
                                    set_fail(Verdict::fail(format!("{}/concurrent/ok-but-destination-not-a-file", kind), format!("save {} to {} returned Ok, destination unreadable: {}", round, c.names[i], e)));
                                    break;
                                }
                                Ok(b) => match complete(&specs[i], c.kind, &b) {
                                    Err(t) => {
                                        *trouble.lock().unwrap() = Some(t);
                                        break;
                                    }
                                    Ok(Err(why)) => {
                                        set_fail(Verdict::fail(
                                            format!("{}/concurrent/ok-but-destination-incomplete", kind),
                                            format!("save {} to {} returned Ok(()) while other saves ran to {:?}, but its destination is not its complete new file: {}", round, c.names[i], c.names, why),
                                        ));
                                        break;
                                    }
                                    Ok(Ok(())) => {
                                        let mut cs = completes[i].lock().unwrap();
                                        if !cs.iter().any(|x| x == &b) {
                                            cs.push(b.clone());
                                        }
                                        last_complete = b;
                                        if c.readonly {
                                            make_readonly(&dests[i]);
                                        }
                                    }
                                },
                            }
                        }
                        Ok(Err(e)) => {
                            errs.fetch_add(1, Ordering::Relaxed);
                            let same = matches!(&now, Ok(b) if *b == last_complete);
                            if !same {
                                set_fail(Verdict::fail(
                                    format!("{}/concurrent/err-but-destination-changed", kind),
                                    format!("save {} to {} returned Err({:?}) and its destination changed: had {} bytes, now {}", round, c.names[i], e, last_complete.len(), now.map(|b| format!("{} bytes", b.len())).unwrap_or_else(|e| e.to_string())),
                                ));
                                break;
                            }
                        }
                    }
                }
                running.fetch_sub(1, Ordering::SeqCst);
            });
        }
    });
    if let Some(t) = trouble.into_inner().unwrap() {
        return Err(t);
    }
    let info = ConcInfo { saves_ok: oks.load(Ordering::Relaxed), saves_err: errs.load(Ordering::Relaxed), reads: reads.load(Ordering::Relaxed) };
    if let Some(v) = fail.into_inner().unwrap() {
        return Ok((v, info));
    }
    if missing.load(Ordering::Relaxed) > 0 {
        return Ok((Verdict::fail(format!("{}/concurrent/destination-missing", kind), format!("{} opens found a destination missing that existed before the saves began", missing.load(Ordering::Relaxed))), info));
    }
    for i in 0..n {
        let obs = observed[i].lock().unwrap();
        let cs = completes[i].lock().unwrap();
        let mut keys: Vec<&u64> = obs.keys().collect();
        keys.sort();
        for k in keys {
            if !cs.iter().any(|x| x == &obs[k]) {
                return Ok((
                    Verdict::fail(
                        format!("{}/concurrent/torn-read", kind),
                        format!("an observer of {} read {} bytes that are neither its old content nor a complete file one of its finished saves left ({} versions)", c.names[i], obs[k].len(), cs.len()),
                    ),
                    info,
                ));
            }
        }
    }
    Ok((Verdict::Pass, info))
}

// ---------------------------------------------------------------------------------------
// enumeration

fn spec(rows: u32, cols: u32, text_len: u16, seed: u32) -> BookSpec {
    BookSpec { sheets: 1, rows, cols, text_len, seed }
}

/// Model of the csv size (cells joined by ',', rows ended by CRLF) used only to *search*
/// for specs with an exact byte length; the result is verified against the library.
fn csv_len_model(s: &BookSpec) -> u64 {
    let mut n = 0u64;
    for r in 1..=s.rows {
        for c in 1..=s.cols {
            n += match cell_content(s, 0, r, c) {
                CellContent::Num(v) => format!("{}", v).len() as u64,
                CellContent::Text(t) => t.len() as u64,
            };
        }
        n += (s.cols as u64 - 1) + 2;
    }
    n
}

/// a csv spec (one column) whose file is exactly `target` bytes long, if the search finds one
fn csv_spec_with_len(target: u64, seed: u32) -> Option<BookSpec> {
    for text_len in (8u16..160).rev() {
        let mut total = 0u64;
        let mut rows = 0u32;
        while total < target {
            rows += 1;
            let probe = spec(rows, 1, text_len, seed);
            total += match cell_content(&probe, 0, rows, 1) {
                CellContent::Num(v) => format!("{}", v).len() as u64,
                CellContent::Text(t) => t.len() as u64,
            } + 2;
        }
        if total == target {
            let s = spec(rows, 1, text_len, seed);
            debug_assert_eq!(csv_len_model(&s), target);
            return Some(s);
        }
    }
    None
}

struct Combo {
    kind: SaveKind,
    spec: BookSpec,
    label: &'static str,
    /// takes part in the strace legs
    traced: bool,
}

fn combos(seed: u64) -> Vec<Combo> {
    let s32 = |k: u64| splitmix(seed ^ k) as u32;
    let j = |k: u64, m: u32| (splitmix(seed.wrapping_add(k)) % m as u64) as u32;
    let mut v = Vec::new();
    // xlsx: ~5.5 KB (fits the buffer) and ~12 KB+
    v.push(Combo { kind: SaveKind::Xlsx, spec: spec(2 + j(1, 3), 2, 6, s32(11)), label: "small", traced: true });
    v.push(Combo { kind: SaveKind::Xlsx, spec: spec(40 + j(2, 8), 8, 24, s32(12)), label: "large", traced: true });
    v.push(Combo { kind: SaveKind::Xlsx, spec: BookSpec { sheets: 2, rows: 12 + j(3, 6), cols: 3, text_len: 10, seed: s32(13) }, label: "two-sheets", traced: false });
    // light: never below ~14 KB (stored theme), so only "above"
    v.push(Combo { kind: SaveKind::Light, spec: spec(2 + j(4, 3), 2, 6, s32(14)), label: "small", traced: true });
    v.push(Combo { kind: SaveKind::Light, spec: spec(30 + j(5, 8), 6, 20, s32(15)), label: "large", traced: false });
    // csv: tiny, just below the buffer, exactly around it, well above
    v.push(Combo { kind: SaveKind::Csv, spec: spec(2 + j(6, 3), 2, 6, s32(16)), label: "small", traced: true });
    v.push(Combo { kind: SaveKind::Csv, spec: spec(40 + j(7, 4), 8, 20, s32(17)), label: "medium", traced: false });
    for (t, label) in [(8191u64, "len-8191"), (8192, "len-8192"), (8193, "len-8193")] {
        if let Some(s) = csv_spec_with_len(t, s32(18)) {
            v.push(Combo { kind: SaveKind::Csv, spec: s, label, traced: false });
        }
    }
    v.push(Combo { kind: SaveKind::Csv, spec: spec(150 + j(8, 20), 8, 24, s32(19)), label: "large", traced: true });
    // password: compound files of ~28 KB and ~36 KB+
    v.push(Combo { kind: SaveKind::Password, spec: spec(2 + j(9, 3), 2, 6, s32(20)), label: "small", traced: true });
    v.push(Combo { kind: SaveKind::Password, spec: spec(48 + j(10, 8), 8, 24, s32(21)), label: "large", traced: false });
    v
}

fn case_fp(sub: &str, c: &impl Serialize) -> u64 {
    fnv(format!("{}|{}", sub, serde_json::to_string(c).unwrap()).as_bytes())
}

struct Leg<'a> {
    ctx: &'a Ctx,
    troubles: Mutex<Vec<String>>,
    leftovers: Mutex<BTreeMap<String, u64>>,
}

impl<'a> Leg<'a> {
    /// run the cases in parallel, judge them in list order
    fn run(&self, sub: &str, cases: Vec<PathCase>) -> Vec<Option<Info>> {
        let results: Vec<Result<(Verdict, Info), Trouble>> = cases.par_iter().map(|c| check_path_case(c, false)).collect();
        let mut infos = Vec::new();
        let mut sampled = 0;
        for (c, r) in cases.iter().zip(results) {
            match r {
                Err(t) => {
                    self.troubles.lock().unwrap().push(format!("{}: {:?}: {}", sub, c, t.0));
                    infos.push(None);
                }
                Ok((v, info)) => {
                    self.ctx.count_case(case_fp(sub, c), info.nontrivial);
                    for cl in &info.classes {
                        self.ctx.add_class(&format!("{}/{}", sub, cl), 1);
                    }
                    if !info.leftovers.is_empty() {
                        let key = format!("{}/{}/{}", sub, info.classes.first().cloned().unwrap_or_default(), info.outcome);
                        *self.leftovers.lock().unwrap().entry(key).or_insert(0) += 1;
                    }
                    if info.nontrivial && sampled < 1 {
                        sampled += 1;
                        self.ctx.add_sample(json!({"sub": sub, "case": c, "outcome": info.outcome}));
                    }
                    self.ctx.judge(sub, c, v);
                    infos.push(Some(info));
                }
            }
        }
        infos
    }
}

fn pick_ks(ks: &[u32], all_below: usize, edge: usize, sample: usize, seed: u64) -> Vec<u32> {
    if ks.len() <= all_below {
        return ks.to_vec();
    }
    let mut set: BTreeSet<u32> = BTreeSet::new();
    for k in ks.iter().take(edge) {
        set.insert(*k);
    }
    for k in ks.iter().rev().take(edge) {
        set.insert(*k);
    }
    let mut x = seed;
    for _ in 0..sample {
        x = splitmix(x);
        set.insert(ks[(x % ks.len() as u64) as usize]);
    }
    set.into_iter().collect()
}

fn extra(ctx: &Ctx) {
    let thorough = ctx.tier == Tier::Thorough;
    let leg = Leg { ctx, troubles: Mutex::new(Vec::new()), leftovers: Mutex::new(BTreeMap::new()) };
    let combos = combos(ctx.seed);
    let strace = strace_available();
    let pres = |full: u64| -> Vec<Pre> {
        vec![Pre::Old { len: 1500 }, Pre::Absent, Pre::Old { len: (full + 20_000) as u32 }, Pre::OldReadOnly { len: 1500 }, Pre::SymlinkToOld { len: 1500 }]
    };
    let special_pres = [Pre::OldReadOnly { len: 1500 }, Pre::SymlinkToOld { len: 1500 }];

    // ---- healthy dry runs (traced when strace works): file lengths and syscall lists
    let mut lens: Vec<u64> = Vec::new();
    let mut traces: Vec<Option<Vec<TraceLine>>> = Vec::new();
    {
        let dry: Vec<Result<(Verdict, Info), Trouble>> = combos
            .par_iter()
            .map(|cb| {
                let c = PathCase { spec: cb.spec.clone(), kind: cb.kind, pre: Pre::Old { len: 1500 }, fault: Fault::None, name: None, stale_tmp: None };
                check_path_case(&c, strace.is_ok() && cb.traced)
            })
            .collect();
        for (cb, r) in combos.iter().zip(dry) {
            let c = PathCase { spec: cb.spec.clone(), kind: cb.kind, pre: Pre::Old { len: 1500 }, fault: Fault::None, name: None, stale_tmp: None };
            match r {
                Err(t) => {
                    println!("HARNESS-ERROR: C13 healthy dry run failed: {}", t.0);
                    std::process::exit(2);
                }
                Ok((v, info)) => {
                    ctx.count_case(case_fp("healthy", &c), false);
                    let Some(l) = info.after_len else {
                        // a healthy save that leaves no file is a violation in its own right
                        ctx.judge("fsize", &c, v);
                        lens.push(0);
                        traces.push(None);
                        continue;
                    };
                    ctx.judge("fsize", &c, v);
                    set_healthy_len(&cb.spec, cb.kind, l);
                    ctx.add_class(&format!("file-size/{}/{}/{}", cb.kind.tag(), cb.label, if l < BUF { "below-8KiB" } else { "above-8KiB" }), 1);
                    lens.push(l);
                    traces.push(info.trace);
                }
            }
        }
    }

    // dry runs of the traced combos with a read-only / symlinked destination: the syscall list
    // of a save may depend on the pre-state (e.g. an extra unlink), so each gets its own
    let mut special_traces: Vec<Vec<Option<Vec<TraceLine>>>> = Vec::new(); // [pre][combo]
    for sp in &special_pres {
        let dry: Vec<Result<(Verdict, Info), Trouble>> = combos
            .par_iter()
            .map(|cb| {
                let c = PathCase { spec: cb.spec.clone(), kind: cb.kind, pre: sp.clone(), fault: Fault::None, name: None, stale_tmp: None };
                check_path_case(&c, strace.is_ok() && cb.traced)
            })
            .collect();
        let mut row = Vec::new();
        for (cb, r) in combos.iter().zip(dry) {
            let c = PathCase { spec: cb.spec.clone(), kind: cb.kind, pre: sp.clone(), fault: Fault::None, name: None, stale_tmp: None };
            match r {
                Err(t) => {
                    leg.troubles.lock().unwrap().push(format!("dry run {:?}: {}", c, t.0));
                    row.push(None);
                }
                Ok((v, info)) => {
                    ctx.count_case(case_fp("healthy", &c), false);
                    ctx.add_class(&format!("fsize/{}/healthy{}/{}", cb.kind.tag(), pre_suffix(sp), info.outcome), 1);
                    ctx.judge("fsize", &c, v);
                    row.push(info.trace);
                }
            }
        }
        special_traces.push(row);
    }

    // ---- (a) byte-offset sweep
    let mut fsize_cases = Vec::new();
    let mut exhaustive_offsets = Vec::new();
    for (i, cb) in combos.iter().enumerate() {
        let full = lens[i];
        if full == 0 {
            continue;
        }
        let pres = pres(full);
        let mut fixed: BTreeSet<u64> = [0u64, 1, 2, 511, 512, 513, 4095, 4096, 4097, 8191, 8192, 8193]
            .into_iter()
            .filter(|n| *n <= full + 1)
            .collect();
        for d in [full.saturating_sub(2), full.saturating_sub(1), full, full + 1] {
            fixed.insert(d);
        }
        let mut generated: BTreeSet<u64> = BTreeSet::new();
        if thorough {
            let budget: u64 = if cb.kind == SaveKind::Password { 1500 } else { 3000 };
            let stride = if full <= 9216 { 1 } else { (full / budget).max(1) };
            if stride == 1 {
                exhaustive_offsets.push(format!("{}/{} (0..={})", cb.kind.tag(), cb.label, full + 1));
            }
            let mut n = 0;
            while n <= full + 1 {
                generated.insert(n);
                n += stride;
            }
        }
        let mut x = splitmix(ctx.seed ^ 0xA11CE ^ (i as u64) << 8);
        let want = if thorough { 200 } else if cb.kind == SaveKind::Password { 40 } else { 64 };
        for _ in 0..want {
            x = splitmix(x);
            generated.insert(1 + x % full.max(2).saturating_sub(1));
        }
        // first a plain mid-file failure over an existing destination (the most readable witness)
        fsize_cases.push(PathCase { spec: cb.spec.clone(), kind: cb.kind, pre: pres[0].clone(), fault: Fault::Fsize { limit: (full / 2).max(1) }, name: None, stale_tmp: None });
        generated.remove(&((full / 2).max(1)));
        // boundary offsets with every pre-state; generated offsets with one pre-state each
        for n in &fixed {
            for p in &pres {
                fsize_cases.push(PathCase { spec: cb.spec.clone(), kind: cb.kind, pre: p.clone(), fault: Fault::Fsize { limit: *n }, name: None, stale_tmp: None });
            }
        }
        for n in generated.difference(&fixed) {
            let p = pres[(splitmix(*n ^ ctx.seed) % pres.len() as u64) as usize].clone();
            fsize_cases.push(PathCase { spec: cb.spec.clone(), kind: cb.kind, pre: p, fault: Fault::Fsize { limit: *n }, name: None, stale_tmp: None });
        }
    }
    let n_fsize = fsize_cases.len();
    leg.run("fsize", fsize_cases);

    // ---- (b) unwritable target
    let mut target_cases = Vec::new();
    for cb in combos.iter().filter(|c| c.label == "small" || c.label == "large") {
        for f in [Fault::MissingDir, Fault::DestIsDir { nonempty: false }, Fault::DestIsDir { nonempty: true }] {
            target_cases.push(PathCase { spec: cb.spec.clone(), kind: cb.kind, pre: Pre::Absent, fault: f, name: None, stale_tmp: None });
        }
        for p in [Pre::Absent, Pre::Old { len: 1500 }, Pre::OldReadOnly { len: 1500 }, Pre::SymlinkToOld { len: 1500 }] {
            target_cases.push(PathCase { spec: cb.spec.clone(), kind: cb.kind, pre: p, fault: Fault::TmpIsDir, name: None, stale_tmp: None });
        }
    }
    let n_target = target_cases.len();
    leg.run("target", target_cases);

    // ---- (d) kill sweep and (d') errno sweep
    let mut kill_cases = Vec::new();
    let mut errno_cases = Vec::new();
    let mut exhaustive_kill = Vec::new();
    let kill_mode;
    match &strace {
        Ok(()) => {
            kill_mode = "strace-inject".to_string();
            for (i, cb) in combos.iter().enumerate() {
                let Some(tr) = &traces[i] else { continue };
                let mut per_name: BTreeMap<String, Vec<u32>> = BTreeMap::new();
                let mut pre_begin_one: Option<(String, u32)> = None;
                for l in tr {
                    if l.after_begin {
                        per_name.entry(l.name.clone()).or_default().push(l.k);
                    } else if l.name == "close" {
                        pre_begin_one = Some((l.name.clone(), l.k));
                    }
                }
                ctx.add_class(&format!("kill/post-begin-syscalls/{}/{}", cb.kind.tag(), cb.label), per_name.values().map(|v| v.len() as u64).sum());
                let mut complete_here = true;
                for (name, ks) in &per_name {
                    let chosen = if thorough {
                        pick_ks(ks, 2500, 600, 1300, splitmix(ctx.seed ^ fnv(name.as_bytes()) ^ i as u64))
                    } else {
                        pick_ks(ks, 12, 8, 40, splitmix(ctx.seed ^ fnv(name.as_bytes()) ^ i as u64))
                    };
                    if chosen.len() < ks.len() {
                        complete_here = false;
                    }
                    for k in chosen {
                        let old_big = Pre::Old { len: (lens[i] + 20_000) as u32 };
                        let pre_list: Vec<Pre> = if ks.len() <= 12 { vec![Pre::Old { len: 1500 }, Pre::Absent, old_big] } else { vec![Pre::Old { len: 1500 }] };
                        for p in pre_list {
                            kill_cases.push(PathCase {
                                spec: cb.spec.clone(),
                                kind: cb.kind,
                                pre: p,
                                fault: Fault::Inject(Inject::Kill { syscall: name.clone(), k }), name: None, stale_tmp: None });
                        }
                    }
                    // errno leg: same points for the calls that can fail in real life
                    let plan: Option<(&str, bool)> = match name.as_str() {
                        "openat" | "open" | "creat" => Some(("EACCES", false)),
                        "write" | "pwrite64" => Some(("ENOSPC", true)),
                        "lseek" => Some(("EIO", false)),
                        "rename" | "renameat" | "renameat2" => Some(("EACCES", false)),
                        "unlink" | "unlinkat" => Some(("EACCES", false)),
                        "ftruncate" | "fsync" | "fdatasync" => Some(("EIO", false)),
                        _ => None,
                    };
                    if let Some((errno, persistent)) = plan {
                        let chosen = if thorough { pick_ks(ks, 400, 100, 200, splitmix(ctx.seed ^ 77 ^ i as u64)) } else { pick_ks(ks, 8, 6, 24, splitmix(ctx.seed ^ 77 ^ i as u64)) };
                        for k in chosen {
                            for p in [Pre::Old { len: 1500 }, Pre::Absent] {
                                errno_cases.push(PathCase {
                                    spec: cb.spec.clone(),
                                    kind: cb.kind,
                                    pre: p,
                                    fault: Fault::Inject(Inject::Errno { syscall: name.clone(), k, errno: errno.into(), persistent }), name: None, stale_tmp: None });
                            }
                        }
                    }
                }
                if complete_here {
                    exhaustive_kill.push(format!("{}/{}", cb.kind.tag(), cb.label));
                }
                // the same sweep over the syscall list of a save onto a read-only / symlinked
                // destination (short lists: every call; long lists: first 2 and last 8 per name)
                for (pi, sp) in special_pres.iter().enumerate() {
                    let Some(tr) = &special_traces[pi][i] else { continue };
                    let mut per_name: BTreeMap<String, Vec<u32>> = BTreeMap::new();
                    for l in tr.iter().filter(|l| l.after_begin) {
                        per_name.entry(l.name.clone()).or_default().push(l.k);
                    }
                    for (name, ks) in &per_name {
                        let chosen: Vec<u32> = if ks.len() <= 12 || thorough && ks.len() <= 400 {
                            ks.clone()
                        } else {
                            let mut b: BTreeSet<u32> = ks.iter().take(2).cloned().collect();
                            b.extend(ks.iter().rev().take(8));
                            b.into_iter().collect()
                        };
                        let plan: Option<&str> = match name.as_str() {
                            "openat" | "open" | "creat" => Some("EACCES"),
                            "write" | "pwrite64" => Some("ENOSPC"),
                            "rename" | "renameat" | "renameat2" | "unlink" | "unlinkat" => Some("EACCES"),
                            _ => None,
                        };
                        for k in chosen {
                            kill_cases.push(PathCase {
                                spec: cb.spec.clone(),
                                kind: cb.kind,
                                pre: sp.clone(),
                                fault: Fault::Inject(Inject::Kill { syscall: name.clone(), k }),
                                name: None,
                                stale_tmp: None,
                            });
                            if let (Some(errno), true) = (plan, ks.len() <= 12) {
                                errno_cases.push(PathCase {
                                    spec: cb.spec.clone(),
                                    kind: cb.kind,
                                    pre: sp.clone(),
                                    fault: Fault::Inject(Inject::Errno { syscall: name.clone(), k, errno: errno.into(), persistent: name.contains("write") }),
                                    name: None,
                                    stale_tmp: None,
                                });
                            }
                        }
                    }
                }
                // one point before BEGIN: must be classified trivial and leave the destination alone
                if let Some((name, k)) = pre_begin_one {
                    kill_cases.push(PathCase {
                        spec: cb.spec.clone(),
                        kind: cb.kind,
                        pre: Pre::Old { len: 1500 },
                        fault: Fault::Inject(Inject::Kill { syscall: name, k }), name: None, stale_tmp: None });
                }
            }
        }
        Err(why) => {
            kill_mode = format!("timed-kill-fallback ({})", why);
            eprintln!("note: C13 kill leg falls back to timed kills, errno leg skipped: {}", why);
            for (i, cb) in combos.iter().enumerate().filter(|(_, c)| c.traced) {
                let mut x = splitmix(ctx.seed ^ 0xDEAD ^ i as u64);
                for _ in 0..ctx.tier.pick(24, 400) {
                    x = splitmix(x);
                    let spins = x % if cb.kind == SaveKind::Password { 40_000_000 } else { 400_000 };
                    kill_cases.push(PathCase { spec: cb.spec.clone(), kind: cb.kind, pre: Pre::Old { len: 1500 }, fault: Fault::TimedKill { spins }, name: None, stale_tmp: None });
                }
            }
        }
    }
    let (n_kill, n_errno) = (kill_cases.len(), errno_cases.len());
    leg.run("kill", kill_cases);
    leg.run("errno", errno_cases);

    // the rename call of a save, as strace counts it (same index for every combo: the
    // process start-up issues none)
    let rename_point: Option<(String, u32)> = traces
        .iter()
        .flatten()
        .flat_map(|t| t.iter())
        .find(|l| l.after_begin && l.name.starts_with("rename"))
        .map(|l| (l.name.clone(), l.k));

    // ---- (f) a stale temp file pre-exists under exactly the library's temp name
    let mut stale_cases = Vec::new();
    for (i, cb) in combos.iter().enumerate().filter(|(_, c)| c.label == "small" || c.label == "large") {
        let full = lens[i];
        if full == 0 {
            continue;
        }
        let stales = [
            Stale { len: (full + 7000) as u32, readonly: false },
            Stale { len: full as u32, readonly: false },
            Stale { len: (full / 2).max(1) as u32, readonly: false },
            Stale { len: (full + 7000) as u32, readonly: true },
        ];
        for st in &stales {
            let mut faults = vec![(Fault::None, Pre::Old { len: 1500 }), (Fault::None, Pre::Absent), (Fault::None, Pre::OldReadOnly { len: 1500 }), (Fault::None, Pre::SymlinkToOld { len: 1500 }), (Fault::Fsize { limit: (full / 2).max(1) }, Pre::Old { len: 1500 }), (Fault::Fsize { limit: full.saturating_sub(1) }, Pre::Absent)];
            if let (Some((name, k)), false) = (&rename_point, st.readonly) {
                faults.push((Fault::Inject(Inject::Kill { syscall: name.clone(), k: *k }), Pre::Old { len: 1500 }));
                faults.push((Fault::Inject(Inject::Errno { syscall: name.clone(), k: *k, errno: "EACCES".into(), persistent: false }), Pre::Old { len: 1500 }));
            }
            for (f, p) in faults {
                stale_cases.push(PathCase { spec: cb.spec.clone(), kind: cb.kind, pre: p, fault: f, name: None, stale_tmp: Some(st.clone()) });
            }
        }
    }
    let n_stale = stale_cases.len();
    leg.run("stale", stale_cases);

    // ---- (g) destination names: no extension, *.tmp, *.<ext>.tmp, several dots, dot-file
    let mut name_cases = Vec::new();
    for (i, cb) in combos.iter().enumerate().filter(|(_, c)| c.label == "small" || (c.label == "large" && c.kind != SaveKind::Password)) {
        let full = lens[i];
        if full == 0 {
            continue;
        }
        let e = cb.kind.ext();
        for name in ["book".to_string(), "book.tmp".to_string(), format!("book.{}.tmp", e), format!("my.book.v2.{}", e), format!(".book-{}", e)] {
            let mk = |pre: Pre, fault: Fault, stale: Option<Stale>| PathCase { spec: cb.spec.clone(), kind: cb.kind, pre, fault, name: Some(name.clone()), stale_tmp: stale };
            name_cases.push(mk(Pre::Absent, Fault::None, None));
            name_cases.push(mk(Pre::Old { len: 1500 }, Fault::None, None));
            name_cases.push(mk(Pre::OldReadOnly { len: 1500 }, Fault::None, None));
            name_cases.push(mk(Pre::SymlinkToOld { len: 1500 }, Fault::Fsize { limit: (full / 2).max(1) }, None));
            name_cases.push(mk(Pre::Old { len: 1500 }, Fault::Fsize { limit: (full / 2).max(1) }, None));
            name_cases.push(mk(Pre::Old { len: (full + 20_000) as u32 }, Fault::Fsize { limit: 1 }, None));
            name_cases.push(mk(Pre::Absent, Fault::Fsize { limit: full.saturating_sub(1) }, None));
            name_cases.push(mk(Pre::Old { len: 1500 }, Fault::None, Some(Stale { len: (full + 7000) as u32, readonly: false })));
            if let Some((rn, k)) = &rename_point {
                name_cases.push(mk(Pre::Old { len: 1500 }, Fault::Inject(Inject::Kill { syscall: rn.clone(), k: *k }), None));
                name_cases.push(mk(Pre::Old { len: 1500 }, Fault::Inject(Inject::Kill { syscall: "write".into(), k: 1 }), None));
            }
        }
    }
    let n_names = name_cases.len();
    leg.run("names", name_cases);

    // ---- (h) chained saves: a big save that is killed / fails, then a small save
    let mut chain_cases = Vec::new();
    for kind in SaveKind::ALL {
        let find = |label: &str| combos.iter().position(|c| c.kind == kind && c.label == label);
        let (Some(bi), Some(si)) = (find("large"), find("small")) else { continue };
        let (big, small) = (&combos[bi].spec, &combos[si].spec);
        let (bfull, sfull) = (lens[bi], lens[si]);
        if bfull == 0 || sfull == 0 {
            continue;
        }
        let mut firsts: Vec<(Fault, Pre)> = vec![
            (Fault::DestIsDir { nonempty: false }, Pre::Absent),
            (Fault::DestIsDir { nonempty: true }, Pre::Absent),
            (Fault::Fsize { limit: (bfull / 2).max(1) }, Pre::Old { len: 1500 }),
        ];
        if let Some((rn, k)) = &rename_point {
            firsts.push((Fault::Inject(Inject::Kill { syscall: rn.clone(), k: *k }), Pre::Old { len: 1500 }));
            firsts.push((Fault::Inject(Inject::Kill { syscall: rn.clone(), k: *k }), Pre::Absent));
            firsts.push((Fault::Inject(Inject::Kill { syscall: rn.clone(), k: *k }), Pre::OldReadOnly { len: 1500 }));
            firsts.push((Fault::Inject(Inject::Errno { syscall: rn.clone(), k: *k, errno: "EACCES".into(), persistent: false }), Pre::OldReadOnly { len: 1500 }));
            firsts.push((Fault::Inject(Inject::Kill { syscall: rn.clone(), k: *k }), Pre::SymlinkToOld { len: 1500 }));
            firsts.push((Fault::Inject(Inject::Errno { syscall: rn.clone(), k: *k, errno: "EACCES".into(), persistent: false }), Pre::Old { len: 1500 }));
            // killed after the data was written, before the temp file is closed and renamed
            if let Some(k) = traces.iter().flatten().flat_map(|t| t.iter()).find(|l| l.after_begin && l.name == "close").map(|l| l.k) {
                firsts.push((Fault::Inject(Inject::Kill { syscall: "close".into(), k }), Pre::Old { len: 1500 }));
            }
        }
        for (f, p) in firsts {
            for second in [Fault::None, Fault::Fsize { limit: (sfull / 2).max(1) }] {
                for (a, b) in [(big, small), (small, big)] {
                    chain_cases.push(ChainCase {
                        kind,
                        name: None,
                        pre: p.clone(),
                        steps: vec![Step { spec: a.clone(), fault: f.clone() }, Step { spec: b.clone(), fault: second.clone() }],
                    });
                }
            }
        }
    }
    let chain_results: Vec<Result<(Verdict, Vec<Info>), Trouble>> = chain_cases.par_iter().map(check_chain).collect();
    let mut chain_sampled = false;
    for (c, r) in chain_cases.iter().zip(chain_results) {
        match r {
            Err(t) => leg.troubles.lock().unwrap().push(format!("chain: {:?}: {}", c, t.0)),
            Ok((v, infos)) => {
                // non-trivial: the second save started with a leftover temp file in the directory
                let leftover_before_second = infos.first().map(|i| !i.leftovers.is_empty()).unwrap_or(false);
                ctx.count_case(case_fp("chain", c), leftover_before_second);
                let outcomes: Vec<&str> = infos.iter().map(|i| i.outcome.as_str()).collect();
                ctx.add_class(&format!("chain/{}/{}{}", c.kind.tag(), outcomes.join("-then-"), if leftover_before_second { "/second-save-met-leftover-temp" } else { "" }), 1);
                if leftover_before_second && !chain_sampled {
                    chain_sampled = true;
                    ctx.add_sample(json!({"sub": "chain", "case": c, "outcomes": outcomes}));
                }
                ctx.judge("chain", c, v);
            }
        }
    }

    // ---- (e) concurrent observer
    let mut obs_cases = Vec::new();
    for kind in SaveKind::ALL {
        let s = |k: u64| splitmix(ctx.seed ^ k ^ kind as u64) as u32;
        let (a, b) = match kind {
            SaveKind::Csv => (spec(900, 8, 24, s(1)), spec(500, 6, 30, s(2))),
            _ => (spec(160, 8, 24, s(1)), spec(90, 6, 30, s(2))),
        };
        obs_cases.push(ObsCase {
            kind,
            spec_a: a,
            spec_b: b,
            iterations: match kind {
                SaveKind::Password => ctx.tier.pick(12, 80),
                _ => ctx.tier.pick(120, 1500),
            },
            old_len: 30_000,
            observers: 2,
            name: None,
            readonly: false,
        });
        // read-only destination at the start of every save (small files: fast reader loop)
        obs_cases.push(ObsCase {
            kind,
            spec_a: spec(2, 2, 6, s(7)),
            spec_b: spec(20, 4, 12, s(8)),
            iterations: match kind {
                SaveKind::Password => ctx.tier.pick(12, 80),
                _ => ctx.tier.pick(300, 3000),
            },
            old_len: 3000,
            observers: 2,
            name: None,
            readonly: true,
        });
        // and a pair that fits the buffer (xlsx, csv)
        if matches!(kind, SaveKind::Xlsx | SaveKind::Csv) {
            obs_cases.push(ObsCase {
                kind,
                spec_a: spec(2, 2, 6, s(3)),
                spec_b: spec(3, 2, 8, s(4)),
                iterations: ctx.tier.pick(200, 3000),
                old_len: 3000,
                observers: 2,
                name: None,
                readonly: false,
            });
            // the same with a destination that is itself called *.tmp
            obs_cases.push(ObsCase {
                kind,
                spec_a: spec(40, 8, 24, s(5)),
                spec_b: spec(3, 2, 8, s(6)),
                iterations: ctx.tier.pick(60, 1000),
                old_len: 3000,
                observers: 2,
                name: Some("book.tmp".into()),
                readonly: false,
            });
        }
    }
    let obs_results: Vec<Result<(Verdict, ObsInfo), Trouble>> = obs_cases.par_iter().map(check_observer).collect();
    let mut obs_reads = 0u64;
    for (c, r) in obs_cases.iter().zip(obs_results) {
        match r {
            Err(t) => leg.troubles.lock().unwrap().push(format!("observer: {}", t.0)),
            Ok((v, info)) => {
                obs_reads += info.reads;
                ctx.count_case(case_fp("observer", c), info.distinct_seen >= 2);
                ctx.add_class(&format!("observer/{}/reads", c.kind.tag()), info.reads);
                ctx.add_class(&format!("observer/{}/distinct-contents-seen", c.kind.tag()), info.distinct_seen as u64);
                if info.distinct_seen >= 2 && c.kind == SaveKind::Xlsx {
                    ctx.add_sample(json!({"sub": "observer", "case": c, "reads": info.reads, "distinct_contents_seen": info.distinct_seen}));
                }
                ctx.judge("observer", c, v);
            }
        }
    }

    // ---- (i) concurrent saves to same-stem destinations of one directory
    let mut conc_cases = Vec::new();
    for kind in SaveKind::ALL {
        let s = |k: u64| splitmix(ctx.seed ^ 0xC0C0 ^ k ^ kind as u64) as u32;
        let names: Vec<Vec<String>> = match kind {
            SaveKind::Csv => vec![vec!["report.csv".into(), "report.txt".into()], vec!["report.v1.csv".into(), "report.v2.csv".into(), "report.v1.tsv".into()]],
            _ => vec![vec!["report.xlsx".into(), "report.xlsm".into()], vec!["report.v1.xlsx".into(), "report.v2.xlsx".into(), "report.v1.xlsm".into()]],
        };
        for (j, ns) in names.into_iter().enumerate() {
            let specs: Vec<BookSpec> = (0..ns.len()).map(|q| spec(if q % 2 == 0 { 120 } else { 30 } + q as u32, 8, 24, s(q as u64 + 10 * j as u64))).collect();
            conc_cases.push(ConcCase {
                kind,
                names: ns,
                specs,
                iterations: match kind {
                    SaveKind::Password => ctx.tier.pick(8, 60),
                    _ => ctx.tier.pick(60, 1000),
                },
                old_len: 2000,
                readonly: j == 1,
            });
        }
    }
    let conc_results: Vec<Result<(Verdict, ConcInfo), Trouble>> = conc_cases.par_iter().map(check_concurrent).collect();
    for (c, r) in conc_cases.iter().zip(conc_results) {
        match r {
            Err(t) => leg.troubles.lock().unwrap().push(format!("concurrent: {}", t.0)),
            Ok((v, info)) => {
                ctx.count_case(case_fp("concurrent", c), info.saves_ok >= 2);
                ctx.add_class(&format!("concurrent/{}/saves-ok", c.kind.tag()), info.saves_ok);
                ctx.add_class(&format!("concurrent/{}/saves-err", c.kind.tag()), info.saves_err);
                ctx.add_class(&format!("concurrent/{}/reads", c.kind.tag()), info.reads);
                ctx.judge("concurrent", c, v);
            }
        }
    }

    ctx.set_extra(
        "fault_legs",
        json!({
            "fsize_cases": n_fsize,
            "target_cases": n_target,
            "kill_cases": n_kill,
            "errno_cases": n_errno,
            "observer_cases": obs_cases.len(),
            "stale_tmp_cases": n_stale,
            "name_cases": n_names,
            "chain_cases": chain_cases.len(),
            "concurrent_cases": conc_cases.len(),
            "observer_reads": obs_reads,
            "kill_mode": kill_mode,
            "exhaustive_offsets_for": exhaustive_offsets,
            "every_post_begin_syscall_killed_for": exhaustive_kill,
            "healthy_file_lengths": combos.iter().zip(lens.iter()).map(|(c, l)| json!({"kind": c.kind.tag(), "spec": c.label, "bytes": l})).collect::<Vec<_>>(),
        }),
    );
    // leftover temp files: evidence only, never judged
    ctx.set_extra("leftover_tmp", json!(*leg.leftovers.lock().unwrap()));
    if thorough && strace.is_ok() {
        ctx.exhaustive.store(true, Ordering::Relaxed);
    }
    let troubles = leg.troubles.lock().unwrap();
    if !troubles.is_empty() {
        for t in troubles.iter().take(5) {
            println!("HARNESS-ERROR: C13 {}", truncate(t, 600));
        }
        println!("INCONCLUSIVE property=C13 {} cases could not be run", troubles.len());
        std::process::exit(2);
    }
}

fn replay_extra(_ctx: &Ctx, sub: &str, case: &Value) -> Option<Verdict> {
    match sub {
        "fsize" | "target" | "kill" | "errno" | "stale" | "names" => {
            let c: PathCase = match serde_json::from_value(case.clone()) {
                Ok(c) => c,
                Err(e) => return Some(Verdict::Discard(format!("cannot deserialise case: {}", e))),
            };
            Some(match check_path_case(&c, false) {
                Ok((v, _)) => v,
                Err(t) => Verdict::Discard(format!("harness trouble: {}", t.0)),
            })
        }
        "chain" => {
            let c: ChainCase = match serde_json::from_value(case.clone()) {
                Ok(c) => c,
                Err(e) => return Some(Verdict::Discard(format!("cannot deserialise case: {}", e))),
            };
            Some(match check_chain(&c) {
                Ok((v, _)) => v,
                Err(t) => Verdict::Discard(format!("harness trouble: {}", t.0)),
            })
        }
        "concurrent" => {
            let c: ConcCase = match serde_json::from_value(case.clone()) {
                Ok(c) => c,
                Err(e) => return Some(Verdict::Discard(format!("cannot deserialise case: {}", e))),
            };
            Some(match check_concurrent(&c) {
                Ok((v, _)) => v,
                Err(t) => Verdict::Discard(format!("harness trouble: {}", t.0)),
            })
        }
        "observer" => {
            let c: ObsCase = match serde_json::from_value(case.clone()) {
                Ok(c) => c,
                Err(e) => return Some(Verdict::Discard(format!("cannot deserialise case: {}", e))),
            };
            Some(match check_observer(&c) {
                Ok((v, _)) => v,
                Err(t) => Verdict::Discard(format!("harness trouble: {}", t.0)),
            })
        }
        _ => None,
    }
}
