//! C10 — the cell store stays coherent under any history of operations.
//!
//! One sheet of a small workbook, a history of 1..60 public operations (get_cell_mut,
//! set_cell, remove_cell, set_style, set_style_by_range for cell/row/column ranges,
//! insert/remove rows/columns, move_range, copy_range, cleanup, copy_row_styling,
//! copy_col_styling, interleaved saves).  Operations are resolved against the sheet's own
//! current content (public getters), so arguments are always in range.
//!
//! Oracle after EVERY operation, with E = the cells of `get_collection_to_hashmap()`:
//! * every map key equals the cell's own coordinate;
//! * `get_cell(c)` is `Some` exactly for c in E (probed at every cell, its four
//!   neighbours and fixed absent positions) and the cell found reports c;
//! * `get_cell_collection`, `get_cell_collection_sorted` (strictly ascending by row,
//!   column), `get_collection_by_row` / `_by_column` (+ `_to_hashmap`) for every used and
//!   some unused indices, `get_cell_value_by_range` on rectangles around the content,
//!   `get_highest_column_and_row` (+ `get_highest_row/column`) and
//!   `calculate_worksheet_dimension` equal the brute-force answer over E; no duplicates.
//! * no cell is lost: operations that delete nothing by their documented meaning
//!   (get_cell_mut, set_cell/set value/remove_cell apart from the addressed cell, styling
//!   calls, save) keep every existing cell with its value; inserts keep the multiset of
//!   values (what removals, move, copy and cleanup delete is C07's business).
//! * `cleanup()` removes invisible garbage only: a cell that has a value, a formula or a
//!   hyperlink (the library's own `is_visually_empty` criteria besides visible style) is
//!   still there afterwards, unchanged.
//! On save (`Save` ops and once at the end): every row that holds a cell of E is in
//! `get_row_dimensions()`; the bytes written by `write_writer`, read back with the
//! library's own `read_reader`, contain every cell of E that has a non-empty value, at
//! its coordinate, with its value.
//!
//! A panic inside an observer, or at one of the store's own index->map `unwrap()`s
//! (`structs/cells.rs`), is incoherence.  A panic elsewhere inside a mutating operation is
//! not judged by this property (the statement speaks about the state after operations):
//! the history stops there and the case is labelled.
use super::Prop;
use crate::engine::*;
use crate::gen::grid::*;
use crate::model::grid::*;
use proptest::prelude::*;
use serde::{Deserialize, Serialize};
use std::collections::{BTreeMap, BTreeSet};
use umya_spreadsheet::{Spreadsheet, Worksheet};

pub fn prop() -> Prop {
    Prop {
        id: "C10",
        describe,
        subs,
        extra: super::no_extra,
        replay_extra: super::no_replay_extra,
        watchdog_s: (900, 14400),
    }
}

fn describe(ctx: &Ctx) {
    ctx.rule("one sheet built through the public API (valued/styled cells at small, boundary and near-limit positions, row/column settings) x histories of 1..60 operations {get_cell_mut, set_cell, set value, remove_cell, set_style, set_style_by_range (cell, row and column ranges), insert/remove rows/columns, move_range, copy_range, cleanup, copy_row_styling, copy_col_styling, save}; after every operation all lookups/listings are compared with a brute-force scan of get_collection_to_hashmap(), saves are read back with the library's reader. Non-trivial = the history has a structural shift (insert/remove rows/columns, move, copy) followed later by a remove_cell, cleanup, set_cell or save; distinct by serialised case");
    ctx.assume("arguments are resolved against the sheet's current content so that they are in range: inserts never push content past the grid, move/copy destinations stay inside it, bulk styling calls are bounded to 64 rows/columns");
    ctx.assume("set_style_by_range with a row range (\"3:5\") or a column range (\"B:D\") is generated, but on this tree it always panics in helper/range.rs (\"Non-standard range.\") before the sheet is touched; that is not a cell-store matter: the op is labelled and the history continues on the unchanged state");
    ctx.assume("'non-empty cell' on save = a cell of E whose get_value() is not the empty string");
}

#[derive(Clone, Debug, Serialize, Deserialize)]
pub struct Case {
    pub sheet: SheetSpec,
    pub ops: Vec<AOp>,
}

fn op_kinds() -> Vec<(u32, AKind)> {
    vec![
        (2, AKind::GetCellMut),
        (3, AKind::SetCell),
        (2, AKind::SetValue),
        (3, AKind::RemoveCell),
        (1, AKind::SetStyle),
        (1, AKind::StyleRange),
        (1, AKind::StyleRows),
        (1, AKind::StyleCols),
        (2, AKind::InsertRows),
        (2, AKind::InsertCols),
        (2, AKind::RemoveRows),
        (2, AKind::RemoveCols),
        (2, AKind::Move),
        (2, AKind::Copy),
        (1, AKind::Cleanup),
        (1, AKind::CopyRowStyling),
        (1, AKind::CopyColStyling),
        (1, AKind::Save),
    ]
}

fn strategy(t: Tier) -> BoxedStrategy<Case> {
    (sheet_spec(t.pick(14, 28), false), prop::collection::vec(aop(op_kinds()), 1..=60))
        .prop_map(|(sheet, ops)| Case { sheet, ops })
        .boxed()
}

fn subs() -> Vec<Box<dyn DynSub>> {
    vec![Box::new(Sub {
        name: "history",
        strategy,
        cases: (800, 20000),
        check,
        max_shrink_iters: 6000,
    })]
}

// ---------------------------------------------------------------------------------------
// coherence oracle

type Pos = (u32, u32); // (row, col)

fn fail(what: &str, mode: &str, detail: String) -> Option<(String, String)> {
    Some((format!("{}/{}", what, mode), detail))
}

fn own(c: &umya_spreadsheet::Cell) -> Pos {
    (*c.get_coordinate().get_row_num(), *c.get_coordinate().get_col_num())
}

fn show(p: Pos) -> String {
    format!("{}{}", col_name(p.1), p.0)
}

/// Compare a listing (own coordinates of the returned cells) with the expected set.
fn listing_diff(name: &str, got: &mut Vec<Pos>, want: &BTreeSet<Pos>) -> Option<(String, String)> {
    let n = got.len();
    got.sort();
    let mut dedup = got.clone();
    dedup.dedup();
    if dedup.len() != n {
        return fail(name, "duplicate", format!("{} lists a cell twice: {:?}", name, got.iter().map(|p| show(*p)).collect::<Vec<_>>()));
    }
    let gs: BTreeSet<Pos> = got.iter().copied().collect();
    let lost: Vec<String> = want.difference(&gs).map(|p| show(*p)).collect();
    let extra: Vec<String> = gs.difference(want).map(|p| show(*p)).collect();
    if !lost.is_empty() {
        return fail(name, "lost", format!("{} misses existing cells {:?} (extra {:?})", name, lost, extra));
    }
    if !extra.is_empty() {
        return fail(name, "phantom", format!("{} lists cells that do not exist: {:?}", name, extra));
    }
    None
}

/// All coherence invariants of the statement; `probe` adds one caller-chosen position.
pub fn coherence(ws: &Worksheet, probe: Pos) -> Option<(String, String)> {
    // E: brute-force scan of the set of existing cells
    let map = ws.get_collection_to_hashmap();
    let mut e: BTreeMap<Pos, String> = BTreeMap::new();
    for (k, cell) in map.iter() {
        let o = own(cell);
        if *k != o {
            return fail(
                "store",
                "key-differs-from-own-coordinate",
                format!("map key (row {}, col {}) holds a cell that reports {}", k.0, k.1, show(o)),
            );
        }
        e.insert(o, cell.get_value().to_string());
    }
    let set: BTreeSet<Pos> = e.keys().copied().collect();

    // lookup by coordinate: every existing cell, its neighbours, fixed absent positions
    let mut probes: BTreeSet<Pos> = set.clone();
    for &(r, c) in &set {
        for (dr, dc) in [(0i64, 1i64), (1, 0), (0, -1), (-1, 0)] {
            let (nr, nc) = (r as i64 + dr, c as i64 + dc);
            if nr >= 1 && nr <= MAX_ROW as i64 && nc >= 1 && nc <= MAX_COL as i64 {
                probes.insert((nr as u32, nc as u32));
            }
        }
    }
    probes.extend([(1, 1), (MAX_ROW, MAX_COL), (1, MAX_COL), (MAX_ROW, 1), (7, 7), probe]);
    for &(r, c) in &probes {
        let found = ws.get_cell((c, r));
        match (found, set.contains(&(r, c))) {
            (None, true) => return fail("lookup", "existing-cell-not-found", format!("get_cell({}) is None but the cell exists", show((r, c)))),
            (Some(x), false) => {
                return fail("lookup", "absent-cell-found", format!("get_cell({}) found a cell reporting {} that is not in the store", show((r, c)), show(own(x))))
            }
            (Some(x), true) => {
                if own(x) != (r, c) {
                    return fail("lookup", "reports-other-coordinate", format!("get_cell({}) reports {}", show((r, c)), show(own(x))));
                }
                if ws.get_value((c, r)) != e[&(r, c)] {
                    return fail("lookup", "value-differs", format!("get_value({}) = {:?}, the stored cell holds {:?}", show((r, c)), ws.get_value((c, r)), e[&(r, c)]));
                }
            }
            (None, false) => {}
        }
    }

    // unordered and sorted listings
    let mut got: Vec<Pos> = ws.get_cell_collection().iter().map(|c| own(c)).collect();
    if let Some(x) = listing_diff("get_cell_collection", &mut got, &set) {
        return Some(x);
    }
    let sorted: Vec<Pos> = ws.get_cell_collection_sorted().iter().map(|c| own(c)).collect();
    for w in sorted.windows(2) {
        if w[0] >= w[1] {
            return fail(
                "get_cell_collection_sorted",
                "not-strictly-ascending",
                format!("{} is followed by {}", show(w[0]), show(w[1])),
            );
        }
    }
    let mut got = sorted.clone();
    if let Some(x) = listing_diff("get_cell_collection_sorted", &mut got, &set) {
        return Some(x);
    }

    // by row / by column, used and unused indices
    let max_row = set.iter().map(|p| p.0).max().unwrap_or(0);
    let max_col = set.iter().map(|p| p.1).max().unwrap_or(0);
    let mut rows: BTreeSet<u32> = set.iter().map(|p| p.0).collect();
    let mut cols: BTreeSet<u32> = set.iter().map(|p| p.1).collect();
    for extra in [1u32, 2, probe.0, max_row + 1, max_row.saturating_sub(1).max(1)] {
        if extra <= MAX_ROW {
            rows.insert(extra);
        }
    }
    for extra in [1u32, 2, probe.1, max_col + 1, max_col.saturating_sub(1).max(1)] {
        if extra <= MAX_COL {
            cols.insert(extra);
        }
    }
    for &r in &rows {
        let want: BTreeSet<Pos> = set.iter().copied().filter(|p| p.0 == r).collect();
        let mut got: Vec<Pos> = ws.get_collection_by_row(&r).iter().map(|c| own(c)).collect();
        if let Some(x) = listing_diff("get_collection_by_row", &mut got, &want) {
            return Some((x.0, format!("row {}: {}", r, x.1)));
        }
        let hm = ws.get_collection_by_row_to_hashmap(&r);
        let keys: BTreeSet<u32> = hm.keys().copied().collect();
        let want_keys: BTreeSet<u32> = want.iter().map(|p| p.1).collect();
        if keys != want_keys || hm.iter().any(|(k, c)| own(c) != (r, *k)) {
            return fail("get_collection_by_row_to_hashmap", "differs", format!("row {}: columns {:?}, expected {:?}", r, keys, want_keys));
        }
    }
    for &c in &cols {
        let want: BTreeSet<Pos> = set.iter().copied().filter(|p| p.1 == c).collect();
        let mut got: Vec<Pos> = ws.get_collection_by_column(&c).iter().map(|x| own(x)).collect();
        if let Some(x) = listing_diff("get_collection_by_column", &mut got, &want) {
            return Some((x.0, format!("column {}: {}", c, x.1)));
        }
        let hm = ws.get_collection_by_column_to_hashmap(&c);
        let keys: BTreeSet<u32> = hm.keys().copied().collect();
        let want_keys: BTreeSet<u32> = want.iter().map(|p| p.0).collect();
        if keys != want_keys || hm.iter().any(|(k, x)| own(x) != (*k, c)) {
            return fail("get_collection_by_column_to_hashmap", "differs", format!("column {}: rows {:?}, expected {:?}", c, keys, want_keys));
        }
    }

    // by range: rectangles around the first cell, the last cell and the probe
    let mut rects: Vec<Rect> = Vec::new();
    let around = |r: u32, c: u32, up: u32, left: u32| {
        let r1 = r.saturating_sub(up).max(1);
        let c1 = c.saturating_sub(left).max(1);
        Rect::new(r1, c1, (r1 + 4).min(MAX_ROW), (c1 + 4).min(MAX_COL))
    };
    if let Some(&(r, c)) = set.iter().next() {
        rects.push(around(r, c, 0, 0));
    }
    if let Some(&(r, c)) = set.iter().next_back() {
        rects.push(around(r, c, 4, 4));
    }
    rects.push(around(probe.0, probe.1, 2, 2));
    for rect in rects {
        let got: Vec<String> = ws.get_cell_value_by_range(&rect.a1()).iter().map(|v| v.get_value().to_string()).collect();
        let mut want: Vec<String> = Vec::new();
        for r in rect.r1..=rect.r2 {
            for c in rect.c1..=rect.c2 {
                want.push(e.get(&(r, c)).cloned().unwrap_or_default());
            }
        }
        if got != want {
            return fail("get_cell_value_by_range", "differs", format!("range {}: {:?}, expected {:?}", rect.a1(), got, want));
        }
    }

    // highest row / column, dimension
    let hi = ws.get_highest_column_and_row();
    if hi != (max_col, max_row) || ws.get_highest_column() != max_col || ws.get_highest_row() != max_row {
        return fail(
            "get_highest_column_and_row",
            "differs",
            format!("(col,row) = {:?} / {} / {}, brute force ({}, {})", hi, ws.get_highest_column(), ws.get_highest_row(), max_col, max_row),
        );
    }
    let dim = ws.calculate_worksheet_dimension();
    let want = if set.is_empty() { "A1".to_string() } else { format!("A1:{}{}", col_name(max_col), max_row) };
    if dim != want {
        return fail("calculate_worksheet_dimension", "differs", format!("{:?}, expected {:?}", dim, want));
    }
    None
}

/// Save leg: rows known to the writer, every non-empty cell emitted.
pub fn save_check(book: &Spreadsheet) -> Option<(String, String)> {
    let ws = book.get_sheet(&0).unwrap();
    let known: BTreeSet<u32> = ws.get_row_dimensions().iter().map(|r| *r.get_row_num()).collect();
    let mut valued: BTreeMap<Pos, String> = BTreeMap::new();
    for cell in ws.get_collection_to_hashmap().values() {
        let o = own(cell);
        if !known.contains(&o.0) {
            return fail("save", "row-unknown-to-writer", format!("cell {} exists but row {} is not in get_row_dimensions()", show(o), o.0));
        }
        let v = cell.get_value().to_string();
        if !v.is_empty() {
            valued.insert(o, v);
        }
    }
    let mut bytes: Vec<u8> = Vec::new();
    match umya_spreadsheet::writer::xlsx::write_writer(book, &mut bytes) {
        Ok(()) => {}
        Err(e) => return fail("save", "write-error", format!("{:?}", e)),
    }
    let back = match umya_spreadsheet::reader::xlsx::read_reader(std::io::Cursor::new(bytes), true) {
        Ok(b) => b,
        Err(e) => return fail("save", "own-reader-rejects-file", format!("{:?}", e)),
    };
    let ws2 = back.get_sheet(&0).unwrap();
    // the reloaded sheet is a cell store as well (filled by the reader's own insert path)
    if let Some((k, d)) = coherence(ws2, (3, 3)) {
        return Some((format!("reloaded/{}", k), format!("after save + reload: {}", d)));
    }
    for (&(r, c), v) in &valued {
        match ws2.get_cell((c, r)) {
            None => return fail("save", "cell-not-emitted", format!("cell {} = {:?} is missing from the saved sheet", show((r, c)), v)),
            Some(x) => {
                if x.get_value() != v.as_str() {
                    return fail("save", "cell-value-differs", format!("cell {} = {:?} was saved as {:?}", show((r, c)), v, x.get_value()));
                }
            }
        }
    }
    None
}

/// Brute-force scan: own coordinate -> value text of every existing cell.
fn scan(ws: &Worksheet) -> BTreeMap<Pos, String> {
    ws.get_collection_to_hashmap().values().map(|c| (own(c), c.get_value().to_string())).collect()
}

/// Cells that are content by the library's own definition (`cleanup` removes "invisible
/// garbage"): a value, a formula or a hyperlink. own coordinate -> (value, formula, url)
fn scan_content(ws: &Worksheet) -> BTreeMap<Pos, (String, String, Option<String>)> {
    ws.get_collection_to_hashmap()
        .values()
        .filter(|c| !c.get_value().is_empty() || !c.get_formula().is_empty() || c.get_hyperlink().is_some())
        .map(|c| {
            (
                own(c),
                (
                    c.get_value().to_string(),
                    c.get_formula().to_string(),
                    c.get_hyperlink().map(|h| h.get_url().to_string()),
                ),
            )
        })
        .collect()
}

/// "No cell is lost": operations that by their documented meaning delete nothing must keep
/// every existing cell (with its value); inserts must keep the multiset of values.
/// Removals, move, copy and cleanup delete by design and are C07's business.
fn content_check(op: &COp, before: &BTreeMap<Pos, String>, after: &BTreeMap<Pos, String>) -> Option<(String, String)> {
    let kind = op.kind_name();
    let touched: Option<Pos> = match op {
        COp::SetValue { row, col, .. } | COp::SetCell { row, col, .. } | COp::RemoveCell { row, col, .. } => Some((*row, *col)),
        _ => None,
    };
    match op {
        COp::Insert { .. } => {
            let mut a: Vec<&String> = before.values().collect();
            let mut b: Vec<&String> = after.values().collect();
            a.sort();
            b.sort();
            if a != b {
                return fail("content", &format!("lost-by-{}", kind), format!("cell values before {:?}, after {:?}", a, b));
            }
        }
        COp::GetCellMut { .. }
        | COp::SetStyle { .. }
        | COp::StyleRange { .. }
        | COp::StyleRows { .. }
        | COp::StyleCols { .. }
        | COp::CopyRowStyling { .. }
        | COp::CopyColStyling { .. }
        | COp::SetValue { .. }
        | COp::SetCell { .. }
        | COp::RemoveCell { .. } => {
            for (pos, v) in before {
                if Some(*pos) == touched {
                    continue;
                }
                if after.get(pos) != Some(v) {
                    return fail(
                        "content",
                        &format!("lost-by-{}", kind),
                        format!("cell {} = {:?} became {:?}", show(*pos), v, after.get(pos)),
                    );
                }
            }
            if let COp::RemoveCell { row, col, .. } = op {
                if after.contains_key(&(*row, *col)) {
                    return fail("content", "remove-cell-left-the-cell", format!("cell {} still exists", show((*row, *col))));
                }
            }
        }
        _ => {}
    }
    None
}

fn is_shift(op: &COp) -> bool {
    matches!(op, COp::Insert { .. } | COp::Remove { .. } | COp::Move { .. } | COp::Copy { .. })
}

fn is_follow_up(op: &COp) -> bool {
    matches!(op, COp::RemoveCell { .. } | COp::Cleanup { .. } | COp::Save | COp::SetCell { .. })
}

fn check(case: &Case, obs: &mut Obs) -> Verdict {
    let mut tags = Tags::default();
    // cells and dimension settings only: the merge/comment variants of `far` belong to C07
    let mut sheet = case.sheet.clone();
    if sheet.far >= 6 {
        sheet.far -= 5;
    }
    let built = guard(|| build_book(std::slice::from_ref(&sheet), &mut tags));
    let (mut book, _model) = match built {
        Ok(x) => x,
        Err(p) => return Verdict::fail(format!("build/panic:{}", p.site()), p.short()),
    };
    let mut trace: Vec<String> = Vec::new();
    let mut shifted = false;
    let judge = |r: Result<Option<(String, String)>, PanicInfo>, phase: &str, trace: &Vec<String>| -> Option<Verdict> {
        match r {
            Err(p) => Some(Verdict::fail(
                format!("{}/panic:{}", phase, p.site()),
                format!("{} ; history: {}", p.short(), trace.join("; ")),
            )),
            Ok(Some((key, detail))) => Some(Verdict::fail(key, format!("{} ; history: {}", detail, trace.join("; ")))),
            Ok(None) => None,
        }
    };
    if let Some(v) = judge(guard(|| coherence(book.get_sheet(&0).unwrap(), (3, 3))), "observer", &trace) {
        return v;
    }
    for (i, aop) in case.ops.iter().enumerate() {
        let occ = Occ::from_sheet(book.get_sheet(&0).unwrap());
        let mut cx = ResolveCtx {
            occ: &occ,
            sheet: 0,
            allow_partial: true,
            tags: &mut tags,
            steered: 0,
            bulk_limit: 64,
            from_other_variants: true,
        };
        let op = match resolve(aop, &mut cx) {
            Resolved::Skip(why) => {
                obs.class(format!("skipped:{}", why));
                continue;
            }
            Resolved::Op(op) => op,
        };
        let kind = op.kind_name();
        trace.push(format!("#{} {:?}", i, op));
        let before = scan(book.get_sheet(&0).unwrap());
        let content_before = if matches!(op, COp::Cleanup { .. }) { scan_content(book.get_sheet(&0).unwrap()) } else { BTreeMap::new() };
        if op == COp::Save {
            if let Some(v) = judge(guard(|| save_check(&book)), "save", &trace) {
                return v;
            }
        } else if let Err(p) = guard(|| apply_lib(&mut book, &op)) {
            if p.site().ends_with("structs/cells.rs") {
                return Verdict::fail(
                    format!("op-{}/panic:{}", kind, p.site()),
                    format!("{} ; history: {}", p.short(), trace.join("; ")),
                );
            }
            obs.class(format!("op-panicked:{}:{}", kind, p.site()));
            if p.site().ends_with("helper/range.rs") {
                // the range string was rejected while it was being parsed, before the
                // sheet was touched (set_style_by_range with a row or column range):
                // the state is unchanged, the history goes on
                trace.pop();
                continue;
            }
            return Verdict::Pass;
        }
        obs.class(format!("op:{}", kind));
        if shifted && is_follow_up(&op) {
            obs.nontrivial(true);
        }
        if is_shift(&op) {
            shifted = true;
        }
        let probe = (row_of(aop.d), col_of(aop.e));
        if let Some(v) = judge(guard(|| coherence(book.get_sheet(&0).unwrap(), probe)), "observer", &trace) {
            return v;
        }
        let after = scan(book.get_sheet(&0).unwrap());
        if let Some(v) = judge(Ok(content_check(&op, &before, &after)), "content", &trace) {
            return v;
        }
        if matches!(op, COp::Cleanup { .. }) {
            // cleanup removes invisible garbage only: a cell with a value, a formula or a
            // hyperlink is never garbage
            let content_after = scan_content(book.get_sheet(&0).unwrap());
            for (pos, c) in &content_before {
                if content_after.get(pos) != Some(c) {
                    let what = if !c.0.is_empty() {
                        "valued-cell"
                    } else if !c.1.is_empty() {
                        "formula-cell"
                    } else {
                        "hyperlink-only-cell"
                    };
                    return Verdict::fail(
                        format!("content/cleanup-removed-{}", what),
                        format!(
                            "cleanup() changed cell {} (value {:?}, formula {:?}, hyperlink {:?}) into {:?} ; history: {}",
                            show(*pos),
                            c.0,
                            c.1,
                            c.2,
                            content_after.get(pos),
                            trace.join("; ")
                        ),
                    );
                }
            }
            if !content_before.is_empty() {
                obs.class("cleanup-with-content");
            }
            if content_before.values().any(|c| c.0.is_empty()) {
                obs.class("cleanup-with-valueless-content-cell");
            }
        }
        match &op {
            COp::Insert { call, .. } | COp::Remove { call, .. } if call.from_other => obs.class(format!("from-other-sheet:{}", kind)),
            COp::SetCell { content, .. } => obs.class(format!("set-cell:{:?}", content)),
            _ => {}
        }
    }
    trace.push("final save".into());
    if shifted {
        obs.nontrivial(true);
    }
    if let Some(v) = judge(guard(|| save_check(&book)), "save", &trace) {
        return v;
    }
    Verdict::Pass
}
