//! C20 — CSV export is a faithful rectangular rendering of the active sheet.
//!
//! Oracle (statement, sentence by sentence):
//!  * "one record per row 1..highest used row, one field per column 1..highest used column
//!    of the active sheet, each field carrying the cell's value text (empty for missing
//!    cells), trimmed or wrapped as the options say, in the encoding the options select":
//!    bytes -> `model::csv::decode(selected encoding)` -> `model::csv::parse(',', wrap char)`
//!    -> grid compared with the grid computed from the case (not from the library).
//!  * "a standard CSV parser configured with the same delimiter and quote character recovers
//!    exactly that grid, also when values contain commas, quote characters or line breaks":
//!    the reference parser is the lenient standard parser (Python `csv` semantics).
//!
//! Domain restriction (notes/C20.md): without a wrap character there is no quote character,
//! so a value that contains the delimiter or a line break is not representable in any CSV
//! text a parser "configured with the same ... quote character" (none) could read back.  No
//! writer can satisfy the sentence there, so such cases are not judged by grid equality;
//! they form the stratum `unrepresentable`, where only "no panic, decodable in the selected
//! encoding, the value texts appear in order" is asserted.
use super::Prop;
use crate::engine::*;
use crate::model::csv as mcsv;
use proptest::prelude::*;
use serde::{Deserialize, Serialize};
use serde_json::json;
use std::collections::BTreeMap;
use std::sync::atomic::{AtomicU64, Ordering};
use umya_spreadsheet::structs::{CsvEncodeValues, CsvWriterOption};

pub fn prop() -> Prop {
    Prop {
        id: "C20",
        describe,
        subs,
        extra,
        replay_extra: super::no_replay_extra,
        watchdog_s: (900, 14400),
    }
}

fn describe(ctx: &Ctx) {
    ctx.rule("grid: 1..3 sheets with a generated active tab, each a sparse set of cells (text / number / boolean) in columns 1..8 (sometimes up to 30) and rows 1..10 (sometimes up to 60); text from printable ASCII, the delimiter, both quote characters, CR / LF / CRLF, edge blanks and, per encoding, non-ASCII characters the encoding represents unambiguously; options: 10 encodings x trim on/off x wrap none / \" / '; written with write_writer into memory (1 in 8 through write() to a file). Non-trivial = the grid has a gap (missing cell inside the rectangle) and a value that needs quoting (delimiter, quote character, line break, edge blank) or is non-ASCII; distinct by the whole case");
    ctx.rule("enumerated: one fixed sheet (gap, every value feature, the whole non-ASCII alphabet of the encoding in one cell, number, boolean, second sheet inactive) under every one of the 10 x 2 x 3 option combinations (values with delimiter / line break left out when there is no wrap character), plus the same with such values for wrap = none (stratum unrepresentable)");
    ctx.assume("value text of a number cell = any text that parses (str::parse::<f64>) to the same f64 bits; of a boolean = TRUE / FALSE (case-insensitive); of a text cell = the text");
    ctx.assume("'trimmed' = leading/trailing white space removed; both the Unicode reading (str::trim) and the ASCII reading (space, tab, CR, LF, VT, FF) are accepted per field");
    ctx.assume("a leading byte order mark is accepted and ignored; an empty line is a record with one empty field (RFC 4180 grammar)");
    ctx.assume("wrap = none and a field that contains ',' CR or LF is outside the domain of the grid-recovery clause (no quote character exists that a parser could be configured with): stratum `unrepresentable`, weak oracle only");
    ctx.assume("cells with an empty value are not generated (whether such a cell counts as 'used' is not fixed by the statement); characters the selected legacy encoding cannot represent are not generated");
}

// ---------------------------------------------------------------------------------------
// case

#[derive(Debug, Clone, Serialize, Deserialize, PartialEq)]
pub enum Val {
    Str(String),
    /// decimal text of a finite number
    Num(String),
    Bool(bool),
}

#[derive(Debug, Clone, Serialize, Deserialize)]
pub struct CellSpec {
    pub col: u16,
    pub row: u16,
    pub val: Val,
}

#[derive(Debug, Clone, Serialize, Deserialize)]
pub struct CsvCase {
    /// cells per sheet, applied in order (a later cell at the same position replaces the earlier one)
    pub sheets: Vec<Vec<CellSpec>>,
    /// index of the active sheet (clamped to the sheet count)
    pub active: u8,
    /// index into model::csv::ENCODINGS
    pub enc: u8,
    pub trim: bool,
    /// 0 = none, 1 = ", 2 = '
    pub wrap: u8,
    /// write through writer::csv::write to a file instead of write_writer to memory
    pub via_path: bool,
    /// cells of the active sheet removed again (remove_cell) after filling: raw indexes mapped
    /// monotonically onto the distinct filled positions in (row, column) order
    #[serde(default)]
    pub removed: Vec<u16>,
    /// column edits of the active sheet after filling (and removing): (insert?, at, n),
    /// through Worksheet::insert_new_column_by_index / remove_column_by_index
    #[serde(default)]
    pub col_edits: Vec<(bool, u16, u16)>,
}

fn wrap_char(w: u8) -> Option<char> {
    match w {
        1 => Some('"'),
        2 => Some('\''),
        _ => None,
    }
}

fn text_value(enc: &'static str, breaking: bool) -> BoxedStrategy<String> {
    let non_ascii = mcsv::non_ascii_alphabet(enc);
    let edge_list: Vec<&'static str> = if breaking {
        vec!["", "", "", " ", "  ", "\t", "\n", "\r\n", " \n ", "\r"]
    } else {
        vec!["", "", "", " ", "  ", "\t", " \t"]
    };
    let mut exotic: Vec<String> = Vec::new();
    for c in ['\u{3000}', '\u{a0}'] {
        if non_ascii.contains(&c) {
            exotic.push(c.to_string());
        }
    }
    let breaking_atoms: Vec<&'static str> = if breaking { vec![",", ",", "\n", "\r\n", "\r", ",,"] } else { vec![";", ".", "|"] };
    let atom = prop_oneof![
        8 => "[A-Za-z0-9]{1,4}".prop_map(|s| s),
        2 => prop::sample::select(vec![" ", ";", ".", "-", "=", "#", "\t", "|", "\\", "~"]).prop_map(|s| s.to_string()),
        3 => prop::sample::select(vec!["\"", "'", "\"\"", "''", "\"'"]).prop_map(|s| s.to_string()),
        3 => prop::sample::select(breaking_atoms).prop_map(|s| s.to_string()),
        5 => prop::collection::vec(prop::sample::select(non_ascii), 1..4).prop_map(|v| v.into_iter().collect::<String>()),
    ];
    let edge = prop_oneof![
        9 => prop::sample::select(edge_list).prop_map(|s| s.to_string()),
        1 => if exotic.is_empty() { Just(" ".to_string()).boxed() } else { prop::sample::select(exotic).boxed() },
    ];
    let look = prop::sample::select(vec!["123", "TRUE", "false", "1e5", "-0", "#N/A", "=A1", "x"]).prop_map(|s| s.to_string());
    prop_oneof![
        12 => (edge.clone(), prop::collection::vec(atom, 1..5), edge).prop_map(|(a, mid, b)| format!("{}{}{}", a, mid.concat(), b)),
        1 => look,
    ]
    .prop_map(|s| if s.is_empty() { "x".to_string() } else { s })
    .boxed()
}

fn value(enc: &'static str, breaking: bool) -> BoxedStrategy<Val> {
    let num = prop::sample::select(vec![
        "0", "1", "-1", "12.5", "-3.25", "0.1", "0.30000000000000004", "1e21", "123456789.125", "1e-7", "100000", "2.5e-5", "99999999999",
    ])
    .prop_map(|s| Val::Num(s.to_string()));
    prop_oneof![
        10 => text_value(enc, breaking).prop_map(Val::Str),
        2 => num,
        1 => any::<bool>().prop_map(Val::Bool),
    ]
    .boxed()
}

fn sheet(enc: &'static str, breaking: bool) -> BoxedStrategy<Vec<CellSpec>> {
    // column XFD (16384) makes every record 16384 fields wide: rare, and only in low rows
    let col = prop_oneof![2000 => 1u16..=8, 200 => 9u16..=30, 1 => Just(16384u16)];
    let row = prop_oneof![10 => 1u16..=10, 1 => 11u16..=60];
    let cell = (col, row, value(enc, breaking)).prop_map(|(col, row, val)| CellSpec { col, row: if col == 16384 { 1 + row % 3 } else { row }, val });
    prop_oneof![
        1 => Just(Vec::new()),
        3 => prop::collection::vec(cell.clone(), 1..3),
        10 => prop::collection::vec(cell, 2..12),
    ]
    .boxed()
}

fn csv_case(_t: Tier) -> BoxedStrategy<CsvCase> {
    // wrap and encoding first: the text alphabet depends on both
    (0u8..10, 0u8..3, prop::bool::weighted(0.12))
        .prop_flat_map(|(enc, wrap, unrep)| {
            let e = mcsv::ENCODINGS[enc as usize];
            // line breaks / delimiters inside values: always with a wrap character, and in
            // the small `unrepresentable` stratum without one
            let breaking = wrap != 0 || unrep;
            (
                Just(enc),
                Just(wrap),
                prop::collection::vec(sheet(e, breaking), 1..4),
                any::<u8>(),
                any::<bool>(),
                prop::bool::weighted(0.125),
                prop_oneof![3 => Just(Vec::new()), 2 => prop::collection::vec(any::<u16>(), 1..4)],
                prop_oneof![4 => Just(Vec::new()), 1 => prop::collection::vec((any::<bool>(), 1u16..=9, 1u16..=3), 1..3)],
            )
        })
        .prop_map(|(enc, wrap, sheets, active, trim, via_path, removed, col_edits)| {
            let n = sheets.len() as u8;
            CsvCase { sheets, active: active % n.max(1), enc, trim, wrap, via_path, removed, col_edits }
        })
        .boxed()
}

// ---------------------------------------------------------------------------------------
// oracle

fn ascii_trim(s: &str) -> &str {
    s.trim_matches(|c| matches!(c, ' ' | '\t' | '\r' | '\n' | '\u{b}' | '\u{c}'))
}

#[derive(Debug, Clone)]
enum Expect {
    Missing,
    /// acceptable texts (one, or two when the two readings of "trimmed" differ) and the
    /// cell's own text (for the feature class of a finding key)
    Text(Vec<String>, String),
    Number(f64),
    Bool(bool),
}

impl Expect {
    fn accepts(&self, field: &str) -> bool {
        match self {
            Expect::Missing => field.is_empty(),
            Expect::Text(v, _) => v.iter().any(|t| t == field),
            Expect::Number(x) => field.parse::<f64>().map_or(false, |y| y.to_bits() == x.to_bits()),
            Expect::Bool(b) => field.eq_ignore_ascii_case(if *b { "TRUE" } else { "FALSE" }),
        }
    }
    /// the cell's value text before trimming (feature classes)
    fn original(&self) -> String {
        match self {
            Expect::Text(_, o) => o.clone(),
            _ => self.primary(),
        }
    }
    /// primary expected text (for messages)
    fn primary(&self) -> String {
        match self {
            Expect::Missing => String::new(),
            Expect::Text(v, _) => v[0].clone(),
            Expect::Number(x) => x.to_string(),
            Expect::Bool(b) => if *b { "TRUE" } else { "FALSE" }.to_string(),
        }
    }
}

fn is_breaking(s: &str) -> bool {
    s.contains(|c| c == ',' || c == '\r' || c == '\n')
}

fn feature(s: &str, wrap: Option<char>, enc: &str) -> String {
    if let Some(q) = wrap {
        if s.contains(q) {
            return "wrap-char-in-value".into();
        }
    }
    if s.contains(|c| c == '\r' || c == '\n') {
        return "line-break-in-value".into();
    }
    if s.contains(',') {
        return "delimiter-in-value".into();
    }
    if s.contains(|c| c == '"' || c == '\'') {
        return "quote-char-in-value".into();
    }
    if !s.is_ascii() {
        return format!("non-ascii:{}", enc);
    }
    if s.starts_with(char::is_whitespace) || s.ends_with(char::is_whitespace) {
        return "edge-blank".into();
    }
    "plain".into()
}

static FILE_COUNTER: AtomicU64 = AtomicU64::new(0);

fn check_csv(c: &CsvCase, obs: &mut Obs) -> Verdict {
    if c.sheets.is_empty() || c.enc as usize >= mcsv::ENCODINGS.len() || c.wrap > 2 {
        return Verdict::Discard("malformed case".into());
    }
    let enc = mcsv::ENCODINGS[c.enc as usize];
    let wrap = wrap_char(c.wrap);
    let active = (c.active as usize).min(c.sheets.len() - 1);
    // ---- reference grid of the active sheet, from the case alone
    let mut grid: BTreeMap<(u32, u32), Expect> = BTreeMap::new();
    let mut raw_texts: Vec<String> = Vec::new();
    for cell in &c.sheets[active] {
        if cell.col == 0 || cell.row == 0 {
            return Verdict::Discard("cell position 0".into());
        }
        let e = match &cell.val {
            Val::Str(s) => {
                if s.is_empty() {
                    return Verdict::Discard("empty text cell".into());
                }
                if c.trim {
                    let a = s.trim().to_string();
                    let b = ascii_trim(s).to_string();
                    if a == b {
                        Expect::Text(vec![a], s.clone())
                    } else {
                        Expect::Text(vec![a, b], s.clone())
                    }
                } else {
                    Expect::Text(vec![s.clone()], s.clone())
                }
            }
            Val::Num(t) => match t.parse::<f64>() {
                Ok(x) if x.is_finite() => Expect::Number(x),
                _ => return Verdict::Discard("number text is not a finite number".into()),
            },
            Val::Bool(b) => Expect::Bool(*b),
        };
        grid.insert((cell.row as u32, cell.col as u32), e);
    }
    // cells removed again after filling
    let mut removed_pos: Vec<(u32, u32)> = Vec::new();
    for raw in &c.removed {
        let keys: Vec<(u32, u32)> = grid.keys().cloned().collect();
        if keys.len() <= 1 {
            break;
        }
        let k = keys[pick_idx(*raw, keys.len())];
        grid.remove(&k);
        removed_pos.push(k);
    }
    if !removed_pos.is_empty() {
        obs.class("history/fill-then-remove");
    }
    // column inserts/removals (skipped when a cell sits in the last columns: no room to shift)
    let mut col_edits: Vec<(bool, u32, u32)> = Vec::new();
    for (ins, at, n) in &c.col_edits {
        let (at, n) = (*at as u32, *n as u32);
        let maxc = grid.keys().map(|k| k.1).max().unwrap_or(0);
        if *ins {
            if maxc + n > 16384 {
                continue;
            }
            grid = grid.into_iter().map(|((r, cc), e)| ((r, if cc >= at { cc + n } else { cc }), e)).collect();
        } else {
            grid = grid
                .into_iter()
                .filter(|((_, cc), _)| !(*cc >= at && *cc < at + n))
                .map(|((r, cc), e)| ((r, if cc >= at + n { cc - n } else { cc }), e))
                .collect();
        }
        col_edits.push((*ins, at, n));
    }
    if !col_edits.is_empty() {
        obs.class("history/column-insert-remove");
    }
    let max_row = grid.keys().map(|k| k.0).max().unwrap_or(0);
    let max_col = grid.keys().map(|k| k.1).max().unwrap_or(0);
    for e in grid.values() {
        raw_texts.push(e.original());
    }
    let has_gap = (grid.len() as u64) < max_row as u64 * max_col as u64;
    let special = raw_texts.iter().any(|s| feature(s, wrap, enc) != "plain");
    // with no quote character, fields containing the delimiter or a line break are not representable
    let unrepresentable = wrap.is_none()
        && grid.values().any(|e| match e {
            Expect::Text(v, _) => v.iter().any(|t| is_breaking(t)),
            _ => false,
        });
    obs.nontrivial(has_gap && special && !unrepresentable);
    obs.class(format!("enc/{}", enc));
    obs.class(format!("wrap/{}", match c.wrap { 0 => "none", 1 => "dquote", _ => "squote" }));
    obs.class(if c.trim { "trim/on" } else { "trim/off" });
    obs.class(if unrepresentable { "stratum/unrepresentable(no quote char, value with delimiter or line break)" } else { "stratum/grid" });
    obs.class(if c.via_path { "route/write-path" } else { "route/write_writer" });
    if grid.is_empty() {
        obs.class("sheet/empty");
    }
    if has_gap {
        obs.class("grid/gap");
    }
    obs.class(format!("sheets/{}-active-{}", c.sheets.len(), active));
    let mut feats: Vec<String> = raw_texts.iter().map(|s| feature(s, wrap, enc)).map(|f| if f.starts_with("non-ascii") { "non-ascii".to_string() } else { f }).collect();
    feats.sort();
    feats.dedup();
    for f in &feats {
        obs.class(format!("value/{}", f));
    }

    // ---- the library
    let r = guard(|| {
        let mut book = umya_spreadsheet::new_file_empty_worksheet();
        for (i, cells) in c.sheets.iter().enumerate() {
            let sheet = book.new_sheet(format!("S{}", i + 1)).unwrap();
            for cell in cells {
                let target = sheet.get_cell_mut((cell.col as u32, cell.row as u32));
                match &cell.val {
                    Val::Str(s) => {
                        target.set_value_string(s.clone());
                    }
                    Val::Num(t) => {
                        target.set_value_number(t.parse::<f64>().unwrap());
                    }
                    Val::Bool(b) => {
                        target.set_value_bool(*b);
                    }
                }
            }
        }
        for (row, col) in &removed_pos {
            book.get_sheet_mut(&active).unwrap().remove_cell((*col, *row));
        }
        for (ins, at, n) in &col_edits {
            let ws = book.get_sheet_mut(&active).unwrap();
            if *ins {
                ws.insert_new_column_by_index(at, n);
            } else {
                ws.remove_column_by_index(at, n);
            }
        }
        book.set_active_sheet(active as u32);
        let mut option = CsvWriterOption::default();
        option.set_csv_encode_value(enc.parse::<CsvEncodeValues>().unwrap());
        option.set_do_trim(c.trim);
        if let Some(q) = wrap {
            option.set_wrap_with_char(q.to_string());
        }
        if c.via_path {
            let dir = std::env::temp_dir().join(format!("verif-c20-{}", std::process::id()));
            let _ = std::fs::create_dir_all(&dir);
            let path = dir.join(format!("case-{}.csv", FILE_COUNTER.fetch_add(1, Ordering::Relaxed)));
            let res = umya_spreadsheet::writer::csv::write(&book, &path, Some(&option));
            let bytes = std::fs::read(&path);
            let _ = std::fs::remove_file(&path);
            match (res, bytes) {
                (Ok(()), Ok(b)) => Ok(b),
                (Err(e), _) => Err(format!("write() returned an error: {:?}", e)),
                (_, Err(e)) => Err(format!("written file cannot be read: {}", e)),
            }
        } else {
            let mut cur = std::io::Cursor::new(Vec::new());
            match umya_spreadsheet::writer::csv::write_writer(&book, &mut cur, &option) {
                Ok(()) => Ok(cur.into_inner()),
                Err(e) => Err(format!("write_writer returned an error: {:?}", e)),
            }
        }
    });
    let case_feature = feats.iter().find(|f| f.as_str() != "plain").cloned().unwrap_or_else(|| "plain".into());
    let bytes = match r {
        Err(p) => return Verdict::fail(format!("{}/panic:{}", case_feature, p.site()), p.short()),
        Ok(Err(e)) => return Verdict::fail(format!("{}/write-error", case_feature), e),
        Ok(Ok(b)) => b,
    };

    // ---- decode in the selected encoding
    let grid_matches = |text: &str| -> Result<(), (String, String)> { compare_grid(text, wrap, enc, &grid, max_row, max_col) };
    let decoded = mcsv::decode(enc, &bytes);
    // weak oracle of the `unrepresentable` stratum: the value texts appear in order
    // (delimiters, line breaks and blanks aside)
    let squash = |s: &str| -> String { s.chars().filter(|ch| *ch != ',' && !ch.is_whitespace()).collect() };
    let mut want = String::new();
    for r in 1..=max_row {
        for col in 1..=max_col {
            if let Some(e) = grid.get(&(r, col)) {
                want.push_str(&squash(&e.primary()));
            }
        }
    }
    // diagnosis for "the bytes are UTF-8 although another encoding was selected": as UTF-8
    // the output satisfies the very oracle it fails in the selected encoding
    let utf8_instead = || -> bool {
        if enc == "utf_8" {
            return false;
        }
        match String::from_utf8(bytes.clone()) {
            Ok(t) => Some(&t) != decoded.as_ref() && if unrepresentable { squash(&t) == want } else { grid_matches(&t).is_ok() },
            Err(_) => false,
        }
    };
    let Some(text) = decoded.clone() else {
        let mode = if utf8_instead() { "emits-utf-8" } else { "undecodable" };
        return Verdict::fail(
            format!("{}/{}", enc, mode),
            format!("{} bytes are not valid {}: {:?}", bytes.len(), enc, truncate(&String::from_utf8_lossy(&bytes), 200)),
        );
    };
    let text = text.strip_prefix('\u{feff}').map(|s| s.to_string()).unwrap_or(text);

    if unrepresentable {
        if squash(&text) != want {
            if utf8_instead() {
                return Verdict::fail(format!("{}/emits-utf-8", enc), "the output is UTF-8".to_string());
            }
            return Verdict::fail(
                "unrepresentable/content-lost",
                format!("value texts in order {:?}, output {:?}", truncate(&want, 300), truncate(&text, 300)),
            );
        }
        return Verdict::Pass;
    }

    match grid_matches(&text) {
        Ok(()) => Verdict::Pass,
        Err((key, detail)) => {
            if utf8_instead() {
                return Verdict::fail(format!("{}/emits-utf-8", enc), format!("the output is UTF-8 text, not {}", enc));
            }
            Verdict::fail(key, format!("enc={} trim={} wrap={:?}: {}", enc, c.trim, wrap, detail))
        }
    }
}

fn compare_grid(
    text: &str,
    wrap: Option<char>,
    enc: &str,
    grid: &BTreeMap<(u32, u32), Expect>,
    max_row: u32,
    max_col: u32,
) -> Result<(), (String, String)> {
    let parsed = mcsv::parse(text, ',', wrap);
    let sheet_feature = || -> String {
        let mut best = "plain".to_string();
        for e in grid.values() {
            let f = feature(&e.original(), wrap, enc);
            if f != "plain" {
                // most specific first
                let rank = |f: &str| match f {
                    "wrap-char-in-value" => 0,
                    "line-break-in-value" => 1,
                    "delimiter-in-value" => 2,
                    "quote-char-in-value" => 3,
                    "edge-blank" => 5,
                    "plain" => 6,
                    _ => 4,
                };
                if rank(&f) < rank(&best) {
                    best = f;
                }
            }
        }
        best
    };
    if parsed.records.len() != max_row as usize {
        return Err((
            format!("{}/record-count", sheet_feature()),
            format!("{} records, highest used row is {} (anomalies {:?}); output {:?}", parsed.records.len(), max_row, parsed.anomalies, truncate(text, 300)),
        ));
    }
    for (ri, rec) in parsed.records.iter().enumerate() {
        let row = ri as u32 + 1;
        if rec.len() != max_col as usize {
            let row_feature = (1..=max_col)
                .filter_map(|cidx| grid.get(&(row, cidx)))
                .map(|e| feature(&e.original(), wrap, enc))
                .find(|f| f != "plain")
                .unwrap_or_else(sheet_feature);
            return Err((
                format!("{}/field-count", row_feature),
                format!("record {} has {} fields, highest used column is {} (anomalies {:?}); output {:?}", row, rec.len(), max_col, parsed.anomalies, truncate(text, 300)),
            ));
        }
        for (ci, field) in rec.iter().enumerate() {
            let col = ci as u32 + 1;
            let e = grid.get(&(row, col)).cloned().unwrap_or(Expect::Missing);
            if !e.accepts(field) {
                let (feat, mode) = match &e {
                    Expect::Missing => (sheet_feature(), "missing-cell-not-empty"),
                    Expect::Number(_) => ("number".to_string(), "field-text"),
                    Expect::Bool(_) => ("boolean".to_string(), "field-text"),
                    Expect::Text(..) => (feature(&e.original(), wrap, enc), "field-text"),
                };
                return Err((
                    format!("{}/{}", feat, mode),
                    format!("row {} column {}: field {:?}, expected {:?}; output {:?}", row, col, field, e, truncate(text, 300)),
                ));
            }
        }
    }
    Ok(())
}

fn subs() -> Vec<Box<dyn DynSub>> {
    vec![Box::new(Sub {
        name: "grid",
        strategy: csv_case,
        cases: (30000, 600_000),
        check: check_csv,
        max_shrink_iters: 1500,
    })]
}

// ---------------------------------------------------------------------------------------
// enumerated option combinations + oracle self-tests

fn harness_error(msg: &str) -> ! {
    eprintln!("HARNESS-ERROR: {}", msg);
    println!("INCONCLUSIVE property=C20 {}", msg);
    std::process::exit(2);
}

fn extra(ctx: &Ctx) {
    // the reference parser on hand-computed cases (cheap, every run)
    let v = |x: &[&[&str]]| -> Vec<Vec<String>> { x.iter().map(|r| r.iter().map(|s| s.to_string()).collect()).collect() };
    let checks: Vec<(&str, Option<char>, Vec<Vec<String>>)> = vec![
        ("a,b\r\nc,d\r\n", Some('"'), v(&[&["a", "b"], &["c", "d"]])),
        ("\"a,b\",\"c\"\"d\"\r\n", Some('"'), v(&[&["a,b", "c\"d"]])),
        ("\"a\r\nb\",c\r\n", Some('"'), v(&[&["a\r\nb", "c"]])),
        ("\r\n", Some('"'), v(&[&[""]])),
        ("a\"b,'c'\r\n", None, v(&[&["a\"b", "'c'"]])),
        ("'a''b','',\r\n", Some('\''), v(&[&["a'b", "", ""]])),
        (",\r\n,\r\n", None, v(&[&["", ""], &["", ""]])),
    ];
    for (text, q, want) in checks {
        let got = mcsv::parse(text, ',', q).records;
        if got != want {
            harness_error(&format!("reference parser reads {:?} as {:?}, expected {:?}", text, got, want));
        }
    }
    if ctx.tier == Tier::Thorough {
        match crate::model::selftest_numcsv::run_python_selftest(&["csv", "enc"]) {
            Ok(msg) => ctx.set_extra("oracle_selftest", json!(msg)),
            Err(e) => harness_error(&format!("oracle self-test against Python csv/codecs failed: {}", e)),
        }
    }
    let mut n = 0u64;
    for enc in 0..10u8 {
        let e = mcsv::ENCODINGS[enc as usize];
        let alphabet: String = mcsv::non_ascii_alphabet(e).into_iter().collect();
        for trim in [false, true] {
            for wrap in 0..3u8 {
                for breaking in [false, true] {
                    if wrap != 0 && !breaking {
                        continue;
                    }
                    let comma = if breaking { "a,b" } else { "a;b" };
                    let lines = if breaking { "l1\r\nl2\nl3\rl4" } else { "l1 l2" };
                    let cell = |col: u16, row: u16, s: &str| CellSpec { col, row, val: Val::Str(s.to_string()) };
                    let active = vec![
                        cell(2, 1, comma),
                        cell(4, 1, "q\"q'q"),
                        cell(1, 2, lines),
                        cell(3, 2, "  both  "),
                        cell(5, 2, "\""),
                        cell(2, 4, &alphabet),
                        cell(6, 4, "''"),
                        CellSpec { col: 1, row: 5, val: Val::Num("-12.5".into()) },
                        CellSpec { col: 3, row: 5, val: Val::Bool(true) },
                        cell(6, 5, if breaking { ",\"," } else { "\";\"" }),
                    ];
                    let other = vec![cell(1, 1, "other sheet"), cell(9, 9, "x")];
                    for (sheets, act) in [(vec![active.clone(), other.clone()], 0u8), (vec![other.clone(), active.clone()], 1u8)] {
                        let case = CsvCase { sheets, active: act, enc, trim, wrap, via_path: false, removed: Vec::new(), col_edits: Vec::new() };
                        let mut obs = Obs::default();
                        let v = check_csv(&case, &mut obs);
                        let fp = fnv(format!("enum|{}|{}|{}|{}|{}", enc, trim, wrap, breaking, act).as_bytes());
                        ctx.count_case(fp, obs.nontrivial);
                        n += 1;
                        if n == 1 {
                            ctx.add_sample(json!({"sub": "grid", "case": serde_json::to_value(&case).unwrap()}));
                        }
                        ctx.judge("grid", &case, v);
                    }
                }
            }
        }
    }
    ctx.add_class("enumerated/option-combinations", n);
}
