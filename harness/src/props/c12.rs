//! C12 — a saved file contains only content of the workbook being saved.
//!
//! Histories over a family of workbook objects (W0, clones of members, reloaded files).
//! Every string ever written into a cell is a unique ASCII token `tokNNNNx`, so the set of
//! strings stored anywhere in a written package can be found by a raw scan of every
//! decompressed part, and compared with the set of tokens reachable from the workbook that
//! was saved (tracked by the harness's own model of the history).
//!
//! Oracle at every save (statement of C12, sentence by sentence):
//!  * "the text stored in a written file is exactly the text reachable from the workbook":
//!    tokens found in the package == tokens of the member's model; and, resolved through an
//!    independent decoder (quick-xml over sheetN.xml + sharedStrings.xml, no library code),
//!    every cell of the file shows the token the model has at that position;
//!  * "strings that were overwritten or deleted ..., only ever existed in another workbook
//!    object ..., registered by an earlier save do not appear": an extra token is classified
//!    by how it left (or never entered) the member's model -> finding key;
//!  * "saving twice in a row gives the same content both times": second save has the same
//!    token set, the same decoded cells and the same `count`/`uniqueCount` of `<sst>`.
use super::Prop;
use crate::engine::*;
use proptest::prelude::*;
use quick_xml::events::Event;
use serde::{Deserialize, Serialize};
use std::collections::{BTreeMap, BTreeSet};
use std::io::{Cursor, Read};
use umya_spreadsheet::{reader, writer, RichText, Spreadsheet, TextElement};

pub fn prop() -> Prop {
    Prop {
        id: "C12",
        describe,
        subs,
        extra: super::no_extra,
        replay_extra: super::no_replay_extra,
        watchdog_s: (900, 7200),
    }
}

fn describe(ctx: &Ctx) {
    ctx.rule("histories of 1..30 steps over a family of workbook objects (W0 = new_file, clones of any member, files reloaded eagerly or — sub-check `lazy` — lazily): set / overwrite / delete cell text (plain, guessed or rich text; every string a unique token tokNNNNx), remove rows, remove / add sheets, clone, save any member (twice, to memory), reload a saved file as a new member. Non-trivial = at some save a token had been overwritten/deleted/removed from that member, or a token existed only in another member, or a member sharing its origin had been saved (or loaded) before; distinct by the whole history");
    ctx.assume("tokens are plain ASCII and unique, so a byte scan of every decompressed part finds every stored occurrence (no XML escaping, no splitting: rich-text tokens sit in a single run)");
    ctx.assume("rows are removed through Worksheet::remove_row on small grids without formulas (Spreadsheet-level removal is C07's subject)");
    ctx.assume("the independent decoder assumes the part naming of the library's own writer (xl/worksheets/sheetN.xml in workbook order, xl/sharedStrings.xml); it is only ever applied to files the library wrote");
}

// ---------------------------------------------------------------------------------------
// package inspection (shared with C16)

/// All parts of a zip package, decompressed, by name (directory entries skipped).
pub fn unzip_parts(bytes: &[u8]) -> Result<BTreeMap<String, Vec<u8>>, String> {
    let mut arv = zip::ZipArchive::new(Cursor::new(bytes)).map_err(|e| format!("zip: {}", e))?;
    let mut out = BTreeMap::new();
    for i in 0..arv.len() {
        let mut f = arv.by_index(i).map_err(|e| format!("zip entry {}: {}", i, e))?;
        if f.is_dir() {
            continue;
        }
        let name = f.name().to_string();
        let mut data = Vec::new();
        f.read_to_end(&mut data).map_err(|e| format!("zip read {}: {}", name, e))?;
        out.insert(name, data);
    }
    Ok(out)
}

pub fn token(n: u32) -> String {
    format!("tok{:04}x", n)
}

/// Every `tokNNNNx` occurring in any part (name or content) -> the parts it occurs in.
pub fn scan_tokens(parts: &BTreeMap<String, Vec<u8>>) -> BTreeMap<String, BTreeSet<String>> {
    let mut out: BTreeMap<String, BTreeSet<String>> = BTreeMap::new();
    let mut scan = |hay: &[u8], part: &str| {
        let mut i = 0;
        while i + 8 <= hay.len() {
            if &hay[i..i + 3] == b"tok" && hay[i + 3..i + 7].iter().all(|b| b.is_ascii_digit()) && hay[i + 7] == b'x' {
                let t = String::from_utf8_lossy(&hay[i..i + 8]).to_string();
                out.entry(t).or_default().insert(part.to_string());
                i += 8;
            } else {
                i += 1;
            }
        }
    };
    for (name, data) in parts {
        scan(name.as_bytes(), name);
        scan(data, name);
    }
    out
}

/// `count` / `uniqueCount` of `<sst>`; None if the package has no sharedStrings part.
pub fn sst_counts(parts: &BTreeMap<String, Vec<u8>>) -> Option<(Option<u64>, Option<u64>)> {
    let data = parts.get("xl/sharedStrings.xml")?;
    let text = String::from_utf8_lossy(data);
    let start = text.find("<sst")?;
    let end = text[start..].find('>')? + start;
    let tag = &text[start..end];
    let attr = |name: &str| -> Option<u64> {
        let pat = format!(" {}=\"", name);
        let p = tag.find(&pat)? + pat.len();
        let q = tag[p..].find('"')? + p;
        tag[p..q].parse().ok()
    };
    Some((attr("count"), attr("uniqueCount")))
}

fn attr_of(e: &quick_xml::events::BytesStart, name: &[u8]) -> Option<String> {
    for a in e.attributes().with_checks(false).flatten() {
        if a.key.as_ref() == name {
            return a.unescape_value().ok().map(|v| v.to_string());
        }
    }
    None
}

/// Strings of sharedStrings.xml by index: concatenation of the `<t>` of an `<si>` outside `<rPh>`.
pub fn decode_sst(data: &[u8]) -> Result<Vec<String>, String> {
    let text = std::str::from_utf8(data).map_err(|e| format!("sharedStrings not utf-8: {}", e))?;
    let mut rd = quick_xml::Reader::from_str(text);
    let mut out = Vec::new();
    let (mut in_si, mut in_t, mut in_rph) = (false, false, false);
    let mut cur = String::new();
    loop {
        match rd.read_event() {
            Ok(Event::Start(e)) => match e.local_name().as_ref() {
                b"si" => {
                    in_si = true;
                    cur.clear();
                }
                b"t" => in_t = in_si && !in_rph,
                b"rPh" => in_rph = true,
                _ => {}
            },
            Ok(Event::Empty(e)) => {
                if e.local_name().as_ref() == b"si" {
                    out.push(String::new());
                }
            }
            Ok(Event::Text(t)) => {
                if in_t {
                    cur.push_str(&t.unescape().map_err(|e| format!("sst text: {}", e))?);
                }
            }
            Ok(Event::End(e)) => match e.local_name().as_ref() {
                b"si" => {
                    in_si = false;
                    out.push(cur.clone());
                }
                b"t" => in_t = false,
                b"rPh" => in_rph = false,
                _ => {}
            },
            Ok(Event::Eof) => break,
            Err(e) => return Err(format!("sharedStrings.xml: {}", e)),
            _ => {}
        }
    }
    Ok(out)
}

fn parse_ref(r: &str) -> Option<(u32, u32)> {
    let mut col = 0u32;
    let mut row = 0u32;
    for ch in r.chars() {
        if ch.is_ascii_alphabetic() {
            col = col * 26 + (ch.to_ascii_uppercase() as u32 - 'A' as u32 + 1);
        } else if ch.is_ascii_digit() {
            row = row * 10 + (ch as u32 - '0' as u32);
        } else if ch != '$' {
            return None;
        }
    }
    if col == 0 || row == 0 {
        None
    } else {
        Some((row, col))
    }
}

/// One decoded cell: (kind, text) where kind is the `t` attribute ("n" if absent) and text
/// is the shared string / inline string / `<v>` content.
pub type DecodedSheet = BTreeMap<(u32, u32), (String, String)>;

pub fn decode_sheet(data: &[u8], sst: &[String]) -> Result<DecodedSheet, String> {
    let text = std::str::from_utf8(data).map_err(|e| format!("sheet not utf-8: {}", e))?;
    let mut rd = quick_xml::Reader::from_str(text);
    let mut out = DecodedSheet::new();
    let mut cur: Option<((u32, u32), String)> = None;
    let (mut in_v, mut in_is_t) = (false, false);
    let mut val = String::new();
    let mut have_val = false;
    loop {
        match rd.read_event() {
            Ok(Event::Start(e)) => match e.local_name().as_ref() {
                b"c" => {
                    let r = attr_of(&e, b"r").ok_or("cell without r")?;
                    let pos = parse_ref(&r).ok_or(format!("bad cell ref {}", r))?;
                    cur = Some((pos, attr_of(&e, b"t").unwrap_or_else(|| "n".into())));
                    val.clear();
                    have_val = false;
                }
                b"v" => {
                    in_v = cur.is_some();
                    have_val = true;
                }
                b"t" => {
                    in_is_t = cur.is_some();
                    have_val = true;
                }
                _ => {}
            },
            Ok(Event::Text(t)) => {
                if in_v || in_is_t {
                    val.push_str(&t.unescape().map_err(|e| format!("cell text: {}", e))?);
                }
            }
            Ok(Event::End(e)) => match e.local_name().as_ref() {
                b"v" => in_v = false,
                b"t" => in_is_t = false,
                b"c" => {
                    if let Some((pos, kind)) = cur.take() {
                        if have_val {
                            let text = if kind == "s" {
                                let idx: usize = val.trim().parse().map_err(|_| format!("shared string index {:?} is not a number", val))?;
                                match sst.get(idx) {
                                    Some(s) => s.clone(),
                                    None => return Err(format!("cell {:?} refers to shared string {} but the table has {}", pos, idx, sst.len())),
                                }
                            } else {
                                val.clone()
                            };
                            if out.insert(pos, (kind, text)).is_some() {
                                return Err(format!("cell {:?} occurs twice", pos));
                            }
                        }
                    }
                }
                _ => {}
            },
            Ok(Event::Eof) => break,
            Err(e) => return Err(format!("sheet xml: {}", e)),
            _ => {}
        }
    }
    Ok(out)
}

/// Independent decode of a library-written package: sheets in workbook order as
/// (name, cells).  Err = the package is not decodable (dangling shared-string index, ...).
pub fn decode_package(parts: &BTreeMap<String, Vec<u8>>) -> Result<Vec<(String, DecodedSheet)>, String> {
    let wb = parts.get("xl/workbook.xml").ok_or("no xl/workbook.xml")?;
    let text = std::str::from_utf8(wb).map_err(|e| format!("workbook not utf-8: {}", e))?;
    let mut rd = quick_xml::Reader::from_str(text);
    let mut names = Vec::new();
    loop {
        match rd.read_event() {
            Ok(Event::Start(e)) | Ok(Event::Empty(e)) => {
                if e.local_name().as_ref() == b"sheet" {
                    names.push(attr_of(&e, b"name").unwrap_or_default());
                }
            }
            Ok(Event::Eof) => break,
            Err(e) => return Err(format!("workbook.xml: {}", e)),
            _ => {}
        }
    }
    let sst = match parts.get("xl/sharedStrings.xml") {
        Some(d) => decode_sst(d)?,
        None => Vec::new(),
    };
    let mut out = Vec::new();
    for (i, name) in names.into_iter().enumerate() {
        let part = format!("xl/worksheets/sheet{}.xml", i + 1);
        let data = parts.get(&part).ok_or(format!("missing part {}", part))?;
        out.push((name, decode_sheet(data, &sst).map_err(|e| format!("{}: {}", part, e))?));
    }
    Ok(out)
}

pub fn save_to_vec(wb: &Spreadsheet) -> Result<Result<Vec<u8>, String>, PanicInfo> {
    guard(|| {
        let mut buf: Vec<u8> = Vec::new();
        writer::xlsx::write_writer(wb, &mut buf).map(|_| buf).map_err(|e| format!("{:?}", e))
    })
}

// ---------------------------------------------------------------------------------------
// case

#[derive(Debug, Clone, Serialize, Deserialize)]
pub enum Step {
    /// put a fresh token into (sheet, col, row); kind 0 = set_value_string, 1 = set_value, 2 = rich text
    Set { m: u16, sheet: u16, col: u8, row: u8, kind: u8 },
    /// replace the text of an existing text cell (pick) by a fresh token
    Overwrite { m: u16, pick: u16, kind: u8 },
    /// delete the text of an existing text cell; how 0 = remove_cell, 1 = set_blank, 2 = set_value_number
    Delete { m: u16, pick: u16, how: u8 },
    RemoveRow { m: u16, sheet: u16, row: u8, n: u8 },
    RemoveSheet { m: u16, sheet: u16 },
    AddSheet { m: u16 },
    CloneWb { m: u16 },
    Save { m: u16 },
    /// save member m and read the bytes back as a new member
    Reload { m: u16, lazy: bool },
}

#[derive(Debug, Clone, Serialize, Deserialize)]
pub struct History {
    pub steps: Vec<Step>,
}

const MAX_MEMBERS: usize = 6;
const MAX_SHEETS: usize = 4;

fn step_strategy(lazy_ok: bool) -> BoxedStrategy<Step> {
    let lazy = if lazy_ok { prop::bool::weighted(0.7).boxed() } else { Just(false).boxed() };
    prop_oneof![
        6 => (any::<u16>(), any::<u16>(), 1u8..=3, 1u8..=5, 0u8..=2).prop_map(|(m, sheet, col, row, kind)| Step::Set { m, sheet, col, row, kind }),
        4 => (any::<u16>(), any::<u16>(), 0u8..=2).prop_map(|(m, pick, kind)| Step::Overwrite { m, pick, kind }),
        3 => (any::<u16>(), any::<u16>(), 0u8..=2).prop_map(|(m, pick, how)| Step::Delete { m, pick, how }),
        1 => (any::<u16>(), any::<u16>(), 1u8..=5, 1u8..=2).prop_map(|(m, sheet, row, n)| Step::RemoveRow { m, sheet, row, n }),
        1 => (any::<u16>(), any::<u16>()).prop_map(|(m, sheet)| Step::RemoveSheet { m, sheet }),
        1 => any::<u16>().prop_map(|m| Step::AddSheet { m }),
        2 => any::<u16>().prop_map(|m| Step::CloneWb { m }),
        4 => any::<u16>().prop_map(|m| Step::Save { m }),
        2 => (any::<u16>(), lazy).prop_map(|(m, lazy)| Step::Reload { m, lazy }),
    ]
    .boxed()
}

fn history_strategy(tier: Tier, lazy_ok: bool) -> BoxedStrategy<History> {
    let max = tier.pick(30usize, 30usize);
    (prop::collection::vec(step_strategy(lazy_ok), 1..=max), any::<u16>())
        .prop_map(|(mut steps, last)| {
            // a history that never saves decides nothing: end with a save
            if !matches!(steps.last(), Some(Step::Save { .. }) | Some(Step::Reload { .. })) {
                if steps.len() >= 30 {
                    steps.pop();
                }
                steps.push(Step::Save { m: last });
            }
            History { steps }
        })
        .boxed()
}

fn eager_history(t: Tier) -> BoxedStrategy<History> {
    history_strategy(t, false)
}
fn lazy_history(t: Tier) -> BoxedStrategy<History> {
    history_strategy(t, true)
}

fn subs() -> Vec<Box<dyn DynSub>> {
    vec![
        Box::new(Sub { name: "history", strategy: eager_history, cases: (500, 12000), check: check_eager, max_shrink_iters: 6000 }),
        Box::new(Sub { name: "lazy", strategy: lazy_history, cases: (200, 4000), check: check_lazy, max_shrink_iters: 6000 }),
    ]
}

// ---------------------------------------------------------------------------------------
// model

#[derive(Clone, Debug)]
struct SheetM {
    name: String,
    /// (row, col) -> token
    cells: BTreeMap<(u32, u32), String>,
    /// still an unloaded (raw) sheet of a lazily read member
    raw: bool,
}

struct Member {
    wb: Spreadsheet,
    sheets: Vec<SheetM>,
    /// tokens that left this member's model (or its ancestors' before the clone/reload) -> how
    lost: BTreeMap<String, &'static str>,
    /// tokens stored in the file this member (or the member it was cloned from) was read from
    loaded: BTreeSet<String>,
    /// members that descend from one another by `clone` (share whatever clones share)
    origin: usize,
    how_made: &'static str,
}

impl Member {
    fn tokens(&self) -> BTreeSet<String> {
        self.sheets.iter().flat_map(|s| s.cells.values().cloned()).collect()
    }
    fn text_cells(&self) -> Vec<(usize, (u32, u32))> {
        let mut v = Vec::new();
        for (si, s) in self.sheets.iter().enumerate() {
            for pos in s.cells.keys() {
                v.push((si, *pos));
            }
        }
        v
    }
    fn has_raw(&self) -> bool {
        self.sheets.iter().any(|s| s.raw)
    }
}

fn put_text(wb: &mut Spreadsheet, si: usize, pos: (u32, u32), text: &str, kind: u8) {
    let ws = wb.get_sheet_mut(&si).expect("sheet index in range");
    let cell = ws.get_cell_mut((pos.1, pos.0));
    match kind {
        0 => {
            cell.set_value_string(text);
        }
        1 => {
            cell.set_value(text);
        }
        _ => {
            let mut te = TextElement::default();
            te.set_text(text);
            te.get_font_mut().set_bold(true);
            let mut rt = RichText::default();
            rt.add_rich_text_elements(te);
            cell.set_rich_text(rt);
        }
    }
}

struct SaveOutcome {
    bytes: Vec<u8>,
    /// a difference in the `<sst>` counters of two successive saves: reported only if the
    /// history shows no discrepancy in the stored strings themselves (which says more)
    counters: Option<Verdict>,
}

/// The oracle of one save of member `mi`.  Ok(bytes of the first save) or the failure.
fn judge_save(members: &[Member], mi: usize, saved_origins: &BTreeSet<usize>, obs: &mut Obs) -> Result<SaveOutcome, Verdict> {
    let m = &members[mi];
    let expected = m.tokens();
    // non-triviality (DESIGN C12 NT)
    let foreign = members.iter().enumerate().any(|(j, o)| j != mi && o.tokens().iter().any(|t| !expected.contains(t)));
    let nt = !m.lost.is_empty() || foreign || saved_origins.contains(&m.origin);
    obs.nontrivial(nt);
    if !m.lost.is_empty() {
        obs.class("save/after-token-left-the-model");
    }
    if foreign {
        obs.class("save/other-member-has-own-tokens");
    }
    if saved_origins.contains(&m.origin) {
        obs.class("save/after-earlier-save-or-load");
    }
    if m.has_raw() {
        obs.class("save/with-unloaded-sheet");
    }
    let raw_suffix = if m.has_raw() { "-with-unloaded-sheet" } else { "" };

    let first = match save_to_vec(&m.wb) {
        Err(p) => return Err(Verdict::fail(format!("save/panic:{}", p.site()), format!("member {} ({}): {}", mi, m.how_made, p.short()))),
        Ok(Err(e)) => return Err(Verdict::fail("save/error", format!("member {}: {}", mi, e))),
        Ok(Ok(b)) => b,
    };
    let parts = unzip_parts(&first).map_err(|e| Verdict::fail("save/not-a-zip", e))?;
    let found_map = scan_tokens(&parts);
    let found: BTreeSet<String> = found_map.keys().cloned().collect();

    // 1. nothing reachable is missing
    let missing: Vec<&String> = expected.difference(&found).collect();
    if !missing.is_empty() {
        return Err(Verdict::fail(
            format!("reachable-string/missing{}", raw_suffix),
            format!("member {} ({}): tokens {:?} are in the model but nowhere in the package", mi, m.how_made, missing),
        ));
    }
    // 2. every cell shows its own token (independent decoder)
    let decoded = match decode_package(&parts) {
        Ok(d) => d,
        Err(e) => return Err(Verdict::fail(format!("cell-text/undecodable{}", raw_suffix), format!("member {} ({}): {}", mi, m.how_made, e))),
    };
    let view = |d: &Vec<(String, DecodedSheet)>| -> Vec<(String, BTreeMap<(u32, u32), String>)> {
        d.iter()
            .map(|(n, cells)| (n.clone(), cells.iter().filter(|(_, (_, t))| t.contains("tok")).map(|(p, (_, t))| (*p, t.clone())).collect()))
            .collect()
    };
    let got = view(&decoded);
    let want: Vec<(String, BTreeMap<(u32, u32), String>)> = m.sheets.iter().map(|s| (s.name.clone(), s.cells.clone())).collect();
    if got != want {
        return Err(Verdict::fail(
            format!("cell-text/differs{}", raw_suffix),
            format!("member {} ({}): file shows {:?}, model has {:?}", mi, m.how_made, got, want),
        ));
    }
    // 3. nothing else is stored
    let extra: Vec<&String> = found.difference(&expected).collect();
    if !extra.is_empty() {
        let mut classes: BTreeMap<&'static str, Vec<String>> = BTreeMap::new();
        for t in &extra {
            let class = match m.lost.get(*t) {
                // residual of R7 (open): the loaded table is kept whole while a sheet is still unloaded
                Some(_) if m.has_raw() && m.loaded.contains(*t) => "stale-loaded-string",
                Some(how) => *how,
                None => "other-member-string",
            };
            classes.entry(class).or_default().push(format!("{} in {:?}", t, found_map[*t]));
        }
        // deterministic choice of the reported class
        let order = ["other-member-string", "removed-sheet-string", "removed-row-string", "deleted-string", "overwritten-string", "stale-loaded-string"];
        let class = order.iter().find(|c| classes.contains_key(**c)).unwrap();
        return Err(Verdict::fail(
            format!("{}/leaks{}", class, raw_suffix),
            format!("member {} ({}): package stores tokens that are not reachable from the workbook: {:?}", mi, m.how_made, classes),
        ));
    }
    // 4. saving again gives the same
    let second = match save_to_vec(&m.wb) {
        Err(p) => return Err(Verdict::fail(format!("double-save/panic:{}", p.site()), p.short())),
        Ok(Err(e)) => return Err(Verdict::fail("double-save/error", e)),
        Ok(Ok(b)) => b,
    };
    let parts2 = unzip_parts(&second).map_err(|e| Verdict::fail("double-save/not-a-zip", e))?;
    let found2: BTreeSet<String> = scan_tokens(&parts2).keys().cloned().collect();
    if found2 != found {
        return Err(Verdict::fail(
            format!("double-save/strings-differ{}", raw_suffix),
            format!("member {}: first save stores {:?}, second {:?}", mi, found, found2),
        ));
    }
    match decode_package(&parts2) {
        Ok(d2) => {
            if d2 != decoded {
                return Err(Verdict::fail(format!("double-save/cells-differ{}", raw_suffix), format!("member {}: {:?} vs {:?}", mi, decoded, d2)));
            }
        }
        Err(e) => return Err(Verdict::fail(format!("double-save/undecodable{}", raw_suffix), e)),
    }
    let (c1, c2) = (sst_counts(&parts), sst_counts(&parts2));
    if c1 != c2 {
        let key = match (c1, c2) {
            (Some((a, ua)), Some((b, ub))) if ua == ub && b > a => "double-save/sst-count-grows",
            (Some((_, ua)), Some((_, ub))) if ua != ub => "double-save/sst-unique-count-differs",
            _ => "double-save/sst-count-differs",
        };
        let v = Verdict::fail(format!("{}{}", key, raw_suffix), format!("member {}: <sst count,uniqueCount> first save {:?}, second save {:?}", mi, c1, c2));
        return Ok(SaveOutcome { bytes: first, counters: Some(v) });
    }
    Ok(SaveOutcome { bytes: first, counters: None })
}

fn run_history(h: &History, obs: &mut Obs) -> Verdict {
    let mut next_token = 0u32;
    let mut next_sheet = 0u32;
    let mut next_origin = 1usize;
    let mut fresh = || {
        next_token += 1;
        token(next_token)
    };
    let mut members: Vec<Member> = vec![Member {
        wb: umya_spreadsheet::new_file(),
        sheets: vec![SheetM { name: "Sheet1".into(), cells: BTreeMap::new(), raw: false }],
        lost: BTreeMap::new(),
        loaded: BTreeSet::new(),
        origin: 0,
        how_made: "new_file",
    }];
    // origins (clone families) one of whose members has been saved, or that were loaded from a file
    let mut saved_origins: BTreeSet<usize> = BTreeSet::new();
    let (mut saves, mut clones, mut reloads, mut lazies) = (0, 0, 0, 0);
    let mut pending: Option<Verdict> = None;

    for step in &h.steps {
        let n = members.len();
        match *step {
            Step::Set { m, sheet, col, row, kind } => {
                let mi = pick_idx(m, n);
                let mem = &mut members[mi];
                let si = pick_idx(sheet, mem.sheets.len());
                let pos = (row as u32, col as u32);
                let t = fresh();
                if let Err(p) = guard(|| put_text(&mut mem.wb, si, pos, &t, kind)) {
                    return Verdict::fail(format!("edit/panic:{}", p.site()), p.short());
                }
                mem.sheets[si].raw = false;
                if let Some(old) = mem.sheets[si].cells.insert(pos, t) {
                    mem.lost.insert(old, "overwritten-string");
                }
            }
            Step::Overwrite { m, pick, kind } => {
                let mi = pick_idx(m, n);
                let mem = &mut members[mi];
                let cells = mem.text_cells();
                if cells.is_empty() {
                    continue;
                }
                let (si, pos) = cells[pick_idx(pick, cells.len())];
                let t = fresh();
                if let Err(p) = guard(|| put_text(&mut mem.wb, si, pos, &t, kind)) {
                    return Verdict::fail(format!("edit/panic:{}", p.site()), p.short());
                }
                mem.sheets[si].raw = false;
                let old = mem.sheets[si].cells.insert(pos, t).unwrap();
                mem.lost.insert(old, "overwritten-string");
            }
            Step::Delete { m, pick, how } => {
                let mi = pick_idx(m, n);
                let mem = &mut members[mi];
                let cells = mem.text_cells();
                if cells.is_empty() {
                    continue;
                }
                let (si, pos) = cells[pick_idx(pick, cells.len())];
                let r = guard(|| {
                    let ws = mem.wb.get_sheet_mut(&si).expect("sheet index in range");
                    match how {
                        0 => {
                            ws.remove_cell((pos.1, pos.0));
                        }
                        1 => {
                            ws.get_cell_mut((pos.1, pos.0)).set_blank();
                        }
                        _ => {
                            ws.get_cell_mut((pos.1, pos.0)).set_value_number(42);
                        }
                    }
                });
                if let Err(p) = r {
                    return Verdict::fail(format!("edit/panic:{}", p.site()), p.short());
                }
                mem.sheets[si].raw = false;
                let old = mem.sheets[si].cells.remove(&pos).unwrap();
                mem.lost.insert(old, "deleted-string");
            }
            Step::RemoveRow { m, sheet, row, n: cnt } => {
                let mi = pick_idx(m, n);
                let mem = &mut members[mi];
                let si = pick_idx(sheet, mem.sheets.len());
                let (row, cnt) = (row as u32, cnt as u32);
                let r = guard(|| {
                    mem.wb.get_sheet_mut(&si).expect("sheet index in range").remove_row(&row, &cnt);
                });
                if let Err(p) = r {
                    return Verdict::fail(format!("edit/panic:{}", p.site()), p.short());
                }
                mem.sheets[si].raw = false;
                let old = std::mem::take(&mut mem.sheets[si].cells);
                for ((r0, c0), t) in old {
                    if r0 < row {
                        mem.sheets[si].cells.insert((r0, c0), t);
                    } else if r0 < row + cnt {
                        mem.lost.insert(t, "removed-row-string");
                    } else {
                        mem.sheets[si].cells.insert((r0 - cnt, c0), t);
                    }
                }
            }
            Step::RemoveSheet { m, sheet } => {
                let mi = pick_idx(m, n);
                let mem = &mut members[mi];
                if mem.sheets.len() < 2 {
                    continue;
                }
                let si = pick_idx(sheet, mem.sheets.len());
                match guard(|| mem.wb.remove_sheet(si)) {
                    Err(p) => return Verdict::fail(format!("edit/panic:{}", p.site()), p.short()),
                    Ok(Err(e)) => return Verdict::fail("edit/remove-sheet-refused", e.to_string()),
                    Ok(Ok(())) => {}
                }
                let gone = mem.sheets.remove(si);
                for (_, t) in gone.cells {
                    mem.lost.insert(t, "removed-sheet-string");
                }
            }
            Step::AddSheet { m } => {
                let mi = pick_idx(m, n);
                let mem = &mut members[mi];
                if mem.sheets.len() >= MAX_SHEETS {
                    continue;
                }
                next_sheet += 1;
                let name = format!("N{}", next_sheet);
                match guard(|| mem.wb.new_sheet(name.clone()).map(|_| ())) {
                    Err(p) => return Verdict::fail(format!("edit/panic:{}", p.site()), p.short()),
                    Ok(Err(e)) => return Verdict::fail("edit/new-sheet-refused", e.to_string()),
                    Ok(Ok(())) => {}
                }
                mem.sheets.push(SheetM { name, cells: BTreeMap::new(), raw: false });
            }
            Step::CloneWb { m } => {
                if n >= MAX_MEMBERS {
                    continue;
                }
                let mi = pick_idx(m, n);
                let src = &members[mi];
                let copy = Member { wb: src.wb.clone(), sheets: src.sheets.clone(), lost: src.lost.clone(), loaded: src.loaded.clone(), origin: src.origin, how_made: "clone" };
                members.push(copy);
                clones += 1;
            }
            Step::Save { m } => {
                let mi = pick_idx(m, n);
                saves += 1;
                match judge_save(&members, mi, &saved_origins, obs) {
                    Ok(o) => {
                        if pending.is_none() {
                            pending = o.counters;
                        }
                    }
                    Err(v) => return v,
                }
                saved_origins.insert(members[mi].origin);
            }
            Step::Reload { m, lazy } => {
                let mi = pick_idx(m, n);
                saves += 1;
                if !lazy {
                    // main stratum: reloads are eager, so no save ever meets an unloaded sheet
                    obs.excluded("stale-loaded-string/leaks-with-unloaded-sheet");
                }
                let out = match judge_save(&members, mi, &saved_origins, obs) {
                    Ok(o) => o,
                    Err(v) => return v,
                };
                if pending.is_none() {
                    pending = out.counters.clone();
                }
                saved_origins.insert(members[mi].origin);
                if n >= MAX_MEMBERS {
                    continue;
                }
                let wb = match guard(|| reader::xlsx::read_reader(Cursor::new(&out.bytes[..]), !lazy)) {
                    Err(p) => return Verdict::fail(format!("reload/panic:{}", p.site()), p.short()),
                    Ok(Err(e)) => return Verdict::fail("reload/error", format!("{:?}", e)),
                    Ok(Ok(wb)) => wb,
                };
                let src = &members[mi];
                let mut sheets = src.sheets.clone();
                for s in sheets.iter_mut() {
                    s.raw = lazy;
                }
                if !lazy {
                    // the library's own reader must show the model too (it is what the history continues on)
                    let got: Vec<(String, BTreeMap<(u32, u32), String>)> = wb
                        .get_sheet_collection_no_check()
                        .iter()
                        .map(|ws| {
                            (
                                ws.get_name().to_string(),
                                ws.get_cell_collection()
                                    .iter()
                                    .filter(|c| c.get_value().contains("tok"))
                                    .map(|c| ((*c.get_coordinate().get_row_num(), *c.get_coordinate().get_col_num()), c.get_value().to_string()))
                                    .collect(),
                            )
                        })
                        .collect();
                    let want: Vec<(String, BTreeMap<(u32, u32), String>)> = sheets.iter().map(|s| (s.name.clone(), s.cells.clone())).collect();
                    if got != want {
                        return Verdict::fail("reload/cell-text-differs", format!("reader shows {:?}, model has {:?}", got, want));
                    }
                }
                let origin = next_origin;
                next_origin += 1;
                // a loaded workbook starts with whatever the file's table held
                saved_origins.insert(origin);
                let loaded = src.tokens();
                members.push(Member { wb, sheets, lost: src.lost.clone(), loaded, origin, how_made: if lazy { "lazy reload" } else { "reload" } });
                reloads += 1;
                if lazy {
                    lazies += 1;
                }
            }
        }
    }
    obs.class(format!("saves/{}", match saves { 0 => "0", 1 => "1", 2..=3 => "2-3", _ => "4+" }));
    obs.class(format!("members/{}", members.len()));
    if clones > 0 {
        obs.class("family/has-clone");
    }
    if reloads > 0 {
        obs.class("family/has-reload");
    }
    if lazies > 0 {
        obs.class("family/has-lazy-reload");
    }
    if clones > 0 && reloads > 0 {
        obs.class("family/clone-and-reload");
    }
    if let Some(v) = pending {
        return v;
    }
    Verdict::Pass
}

fn check_eager(h: &History, obs: &mut Obs) -> Verdict {
    run_history(h, obs)
}

fn check_lazy(h: &History, obs: &mut Obs) -> Verdict {
    run_history(h, obs)
}
