pub mod dump;
pub mod engine;
pub mod gen;
pub mod model;
pub mod props;
pub mod pyworker;
