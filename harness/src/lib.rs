pub mod engine;
pub mod gen;
pub mod model;
pub mod props;
