pub mod dump;
pub mod engine;
pub mod gen;
pub mod props;
