//! Formula grammar with known structure (DESIGN 3.4): AST, proptest strategy, renderer with
//! optional decorative blanks, expected-token emission with a per-reference outcome map, and a
//! small independent reference lexer for the library's *output*.  Expected results of every
//! transformation are computed on the AST; the library's input is never parsed.
use proptest::prelude::*;
use proptest::strategy::BoxedStrategy;
use serde::{Deserialize, Serialize};

pub const MAX_COL: u32 = 16384;
pub const MAX_ROW: u32 = 1_048_576;

// ---------------------------------------------------------------------------------------
// AST

#[derive(Debug, Clone, PartialEq, Eq, Hash, Serialize, Deserialize)]
pub struct CellRef {
    pub col: u32,
    pub row: u32,
    pub abs_col: bool,
    pub abs_row: bool,
}

#[derive(Debug, Clone, PartialEq, Eq, Hash, Serialize, Deserialize)]
pub enum Area {
    Cell(CellRef),
    Range(CellRef, CellRef),
    Rows { r1: u32, a1: bool, r2: u32, a2: bool },
    Cols { c1: u32, a1: bool, c2: u32, a2: bool },
}

/// Sheet qualifier.  `book` (with optional `path`) makes it an external reference.
#[derive(Debug, Clone, PartialEq, Eq, Hash, Serialize, Deserialize)]
pub struct Qual {
    /// monotone selector used by C08 to bind the qualifier to a sheet of the workbook
    pub pick: u16,
    pub sheet: String,
    pub book: Option<String>,
    pub path: Option<String>,
    /// quotes although the name would not need them
    pub force_quote: bool,
    /// 3-D reference `sheet:sheet2!A1` (an opaque qualifier for this library: never one sheet)
    #[serde(default)]
    pub sheet2: Option<String>,
}

#[derive(Debug, Clone, PartialEq, Eq, Hash, Serialize, Deserialize)]
pub struct RefNode {
    pub qual: Option<Qual>,
    pub area: Area,
    /// written in lower case (`a1`, `$b$2:c3`); a result may come back in either case
    #[serde(default)]
    pub lower: bool,
}

#[derive(Debug, Clone, PartialEq, Eq, Hash, Serialize, Deserialize)]
pub enum Expr {
    Num(String),
    Str(String),
    Bool(bool),
    /// error literal, optionally sheet-qualified (`Sheet1!#REF!`)
    Err { qual: Option<Qual>, text: String },
    Ref(RefNode),
    Name { qual: Option<Qual>, name: String },
    Func { name: String, args: Vec<Expr> },
    /// empty function argument
    Missing,
    Unary { op: char, e: Box<Expr> },
    Percent(Box<Expr>),
    Binary { op: String, l: Box<Expr>, r: Box<Expr> },
    /// rendered with its own parentheses: (a,b,c)
    Union(Vec<Expr>),
    Intersect(Box<Expr>, Box<Expr>),
    Paren(Box<Expr>),
    Array(Vec<Vec<Expr>>),
    Structured { table: String, spec: String },
    /// implicit-intersection prefix `@`
    At(Box<Expr>),
}

pub fn col_name(mut n: u32) -> String {
    let mut out = Vec::new();
    while n > 0 {
        let r = (n - 1) % 26;
        out.push((b'A' + r as u8) as char);
        n = (n - 1) / 26;
    }
    out.iter().rev().collect()
}

pub fn col_index(s: &str) -> u32 {
    let mut n = 0u32;
    for c in s.chars() {
        n = n.saturating_mul(26).saturating_add(c as u32 - 'A' as u32 + 1);
    }
    n
}

impl CellRef {
    pub fn text(&self) -> String {
        format!(
            "{}{}{}{}",
            if self.abs_col { "$" } else { "" },
            col_name(self.col),
            if self.abs_row { "$" } else { "" },
            self.row
        )
    }
}

impl Area {
    pub fn text(&self) -> String {
        match self {
            Area::Cell(c) => c.text(),
            Area::Range(a, b) => format!("{}:{}", a.text(), b.text()),
            Area::Rows { r1, a1, r2, a2 } => format!("{}{}:{}{}", if *a1 { "$" } else { "" }, r1, if *a2 { "$" } else { "" }, r2),
            Area::Cols { c1, a1, c2, a2 } => format!(
                "{}{}:{}{}",
                if *a1 { "$" } else { "" },
                col_name(*c1),
                if *a2 { "$" } else { "" },
                col_name(*c2)
            ),
        }
    }
    pub fn kind(&self) -> &'static str {
        match self {
            Area::Cell(_) => "cell",
            Area::Range(..) => "range",
            Area::Rows { .. } => "rows",
            Area::Cols { .. } => "cols",
        }
    }
    /// "rel" | "abs" | "mixed"
    pub fn abs_kind(&self) -> &'static str {
        let flags: Vec<bool> = match self {
            Area::Cell(c) => vec![c.abs_col, c.abs_row],
            Area::Range(a, b) => vec![a.abs_col, a.abs_row, b.abs_col, b.abs_row],
            Area::Rows { a1, a2, .. } | Area::Cols { a1, a2, .. } => vec![*a1, *a2],
        };
        if flags.iter().all(|f| *f) {
            "abs"
        } else if flags.iter().all(|f| !*f) {
            "rel"
        } else {
            "mixed"
        }
    }
    pub fn relative(&self) -> Area {
        match self {
            Area::Cell(c) => Area::Cell(CellRef { abs_col: false, abs_row: false, ..c.clone() }),
            Area::Range(a, b) => Area::Range(
                CellRef { abs_col: false, abs_row: false, ..a.clone() },
                CellRef { abs_col: false, abs_row: false, ..b.clone() },
            ),
            Area::Rows { r1, r2, .. } => Area::Rows { r1: *r1, a1: false, r2: *r2, a2: false },
            Area::Cols { c1, c2, .. } => Area::Cols { c1: *c1, a1: false, c2: *c2, a2: false },
        }
    }
    pub fn absolute(&self) -> Area {
        match self {
            Area::Cell(c) => Area::Cell(CellRef { abs_col: true, abs_row: true, ..c.clone() }),
            Area::Range(a, b) => Area::Range(
                CellRef { abs_col: true, abs_row: true, ..a.clone() },
                CellRef { abs_col: true, abs_row: true, ..b.clone() },
            ),
            Area::Rows { r1, r2, .. } => Area::Rows { r1: *r1, a1: true, r2: *r2, a2: true },
            Area::Cols { c1, c2, .. } => Area::Cols { c1: *c1, a1: true, c2: *c2, a2: true },
        }
    }
    pub fn first_cell(&self) -> Area {
        match self {
            Area::Cell(c) => Area::Cell(c.clone()),
            Area::Range(a, _) => Area::Cell(a.clone()),
            Area::Rows { r1, a1, .. } => Area::Cell(CellRef { col: 1, row: *r1, abs_col: false, abs_row: *a1 }),
            Area::Cols { c1, a1, .. } => Area::Cell(CellRef { col: *c1, row: 1, abs_col: *a1, abs_row: false }),
        }
    }
    pub fn last_cell(&self) -> Area {
        match self {
            Area::Cell(c) => Area::Cell(c.clone()),
            Area::Range(_, b) => Area::Cell(b.clone()),
            Area::Rows { r2, a2, .. } => Area::Cell(CellRef { col: 1, row: *r2, abs_col: false, abs_row: *a2 }),
            Area::Cols { c2, a2, .. } => Area::Cell(CellRef { col: *c2, row: 1, abs_col: *a2, abs_row: false }),
        }
    }
    /// largest row / column mentioned (None for the unbounded axis of whole rows/columns)
    pub fn max_row(&self) -> Option<u32> {
        match self {
            Area::Cell(c) => Some(c.row),
            Area::Range(a, b) => Some(a.row.max(b.row)),
            Area::Rows { r1, r2, .. } => Some(*r1.max(r2)),
            Area::Cols { .. } => None,
        }
    }
    pub fn max_col(&self) -> Option<u32> {
        match self {
            Area::Cell(c) => Some(c.col),
            Area::Range(a, b) => Some(a.col.max(b.col)),
            Area::Cols { c1, c2, .. } => Some(*c1.max(c2)),
            Area::Rows { .. } => None,
        }
    }
}

/// Does a sheet name need quotes in a reference?  (Conservative: anything but letters of any
/// script, digits, `_` and `.` not starting with a digit, and not looking like a cell / R1C1
/// reference or a boolean.)
pub fn needs_quote(name: &str) -> bool {
    let first = name.chars().next().unwrap_or('a');
    if first.is_ascii_digit() || first == '.' {
        return true;
    }
    if name.chars().any(|c| !(c.is_alphanumeric() || c == '_' || c == '.')) {
        return true;
    }
    let up = name.to_uppercase();
    let letters: String = up.chars().take_while(|c| c.is_ascii_alphabetic()).collect();
    let digits: String = up.chars().skip(letters.chars().count()).collect();
    if !letters.is_empty() && letters.len() <= 3 && !digits.is_empty() && digits.chars().all(|c| c.is_ascii_digit()) {
        return true;
    }
    if matches!(up.as_str(), "TRUE" | "FALSE" | "R" | "C" | "RC") {
        return true;
    }
    up.starts_with('R') && up.len() > 1 && up[1..].chars().all(|c| c.is_ascii_digit() || c == 'C')
}

impl Qual {
    pub fn plain(sheet: &str) -> Qual {
        Qual { pick: 0, sheet: sheet.to_string(), book: None, path: None, force_quote: false, sheet2: None }
    }
    pub fn is_external(&self) -> bool {
        self.book.is_some()
    }
    pub fn is_3d(&self) -> bool {
        self.sheet2.is_some()
    }
    pub fn quoted(&self) -> bool {
        if self.force_quote || needs_quote(&self.sheet) || self.path.is_some() || self.sheet2.as_ref().map_or(false, |s| needs_quote(s)) {
            return true;
        }
        match &self.book {
            Some(b) => b.chars().any(|c| !(c.is_ascii_alphanumeric() || c == '.' || c == '_')),
            None => false,
        }
    }
    /// text including the trailing `!`
    pub fn text(&self) -> String {
        let mut inner = String::new();
        if let Some(p) = &self.path {
            inner.push_str(p);
        }
        if let Some(b) = &self.book {
            inner.push('[');
            inner.push_str(b);
            inner.push(']');
        }
        inner.push_str(&self.sheet);
        if let Some(s2) = &self.sheet2 {
            inner.push(':');
            inner.push_str(s2);
        }
        if self.quoted() {
            format!("'{}'!", inner.replace('\'', "''"))
        } else {
            format!("{}!", inner)
        }
    }
    pub fn class(&self) -> &'static str {
        if self.is_3d() {
            return "3d";
        }
        if self.is_external() {
            if self.quoted() {
                "ext-quoted"
            } else {
                "ext"
            }
        } else if self.sheet.contains('\'') {
            "apos-sheet"
        } else if needs_quote(&self.sheet) {
            "quoted-sheet"
        } else if self.force_quote {
            "forced-quote"
        } else {
            "bare-sheet"
        }
    }
}

fn qual_text(q: &Option<Qual>) -> String {
    q.as_ref().map(|q| q.text()).unwrap_or_default()
}

impl RefNode {
    pub fn area_text(&self, a: &Area) -> String {
        if self.lower {
            a.text().to_lowercase()
        } else {
            a.text()
        }
    }
    pub fn text(&self) -> String {
        format!("{}{}", qual_text(&self.qual), self.area_text(&self.area))
    }
    /// is lower case visible at all (whole-row references have no letters)
    pub fn shows_lower(&self) -> bool {
        self.lower && !matches!(self.area, Area::Rows { .. })
    }
}

// ---------------------------------------------------------------------------------------
// tokens

#[derive(Debug, Clone, Copy, PartialEq, Eq, Hash, Serialize, Deserialize)]
pub enum Kind {
    Num,
    Str,
    Bool,
    Err,
    Ref,
    Name,
    Structured,
    Func,
    Open,
    Close,
    Comma,
    Op,
    Prefix,
    Postfix,
    At,
    Intersect,
    ArrayOpen,
    ArrayClose,
    ArrayRowSep,
    Blank,
}

#[derive(Debug, Clone, PartialEq, Eq)]
pub struct Tok {
    pub kind: Kind,
    pub text: String,
    /// lexical class label (set on expected tokens only)
    pub class: String,
    /// other accepted texts (expected tokens only; kind is not compared for these)
    pub alts: Vec<String>,
}

impl Tok {
    pub fn new(kind: Kind, text: impl Into<String>, class: impl Into<String>) -> Tok {
        Tok { kind, text: text.into(), class: class.into(), alts: Vec::new() }
    }
    /// does the lexed token `actual` satisfy this expected token?
    pub fn accepts(&self, actual: &Tok) -> bool {
        (self.kind == actual.kind && self.text == actual.text) || self.alts.iter().any(|a| *a == actual.text)
    }
    pub fn is_operand(&self) -> bool {
        matches!(self.kind, Kind::Num | Kind::Str | Kind::Bool | Kind::Err | Kind::Ref | Kind::Name | Kind::Structured)
    }
}

/// Rendering pieces: tokens and the places where a decorative blank may be inserted.
#[derive(Debug, Clone)]
pub enum Piece {
    T(Tok),
    BlankOpt,
}

pub fn str_literal(content: &str) -> String {
    format!("\"{}\"", content.replace('"', "\"\""))
}

pub fn num_class(s: &str) -> &'static str {
    if s.contains('E') {
        if s.contains("E+") || s.contains("E-") {
            "num-sci-signed"
        } else {
            "num-sci"
        }
    } else if s.contains('.') {
        "num-dec"
    } else {
        "num-int"
    }
}

pub fn str_class(s: &str) -> &'static str {
    if s.contains('"') {
        "str-dquote"
    } else if s.contains('\'') {
        "str-apos"
    } else if s.chars().any(|c| "#{}[]()!,;:".contains(c)) {
        "str-special"
    } else {
        "str"
    }
}

/// does the name end like the mantissa of a scientific number: <digit 1-9>[.digits]E
pub fn sci_like_name(name: &str) -> Option<bool> {
    let lower = name.ends_with('e');
    if !(name.ends_with('E') || lower) {
        return None;
    }
    let body = &name[..name.len() - 1];
    let digits_tail: String = body.chars().rev().take_while(|c| c.is_ascii_digit()).collect();
    let rest = &body[..body.len() - digits_tail.len()];
    let ok = if digits_tail.is_empty() {
        false
    } else if let Some(r2) = rest.strip_suffix('.') {
        r2.chars().last().map_or(false, |c| ('1'..='9').contains(&c))
    } else {
        digits_tail.chars().next().map_or(false, |c| ('1'..='9').contains(&c))
    };
    if ok {
        Some(lower)
    } else {
        None
    }
}

pub fn name_class(name: &str) -> &'static str {
    match sci_like_name(name) {
        Some(false) => return "name-sci-like",
        Some(true) => return "name-sci-like-lower-e",
        None => {}
    }
    let first = name.chars().next().unwrap_or('a');
    let letters: String = name.chars().take_while(|c| c.is_ascii_uppercase()).collect();
    let after: String = name.chars().skip(letters.len()).collect();
    if !first.is_ascii() {
        "name-nonascii"
    } else if first == '_' {
        "name-underscore"
    } else if !letters.is_empty() && letters.len() <= 3 && after.chars().next().map_or(false, |c| c.is_ascii_digit()) {
        "name-cell-prefix"
    } else if first.is_ascii_uppercase() {
        "name-upper"
    } else if name.contains('.') {
        "name-dotted"
    } else {
        "name-lower"
    }
}

pub fn ref_class(r: &RefNode) -> String {
    let lc = if r.shows_lower() { "+lc" } else { "" };
    match &r.qual {
        None => format!("{}.{}{}", r.area.kind(), r.area.abs_kind(), lc),
        Some(q) => format!("{}.{}{}@{}", r.area.kind(), r.area.abs_kind(), lc, q.class()),
    }
}

/// Outcome map for references: the accepted results for one reference, the first being the
/// primary one.  `None` = `#REF!`.
pub type RefMap<'a> = &'a dyn Fn(&RefNode) -> Vec<Option<Area>>;

pub fn identity_map(r: &RefNode) -> Vec<Option<Area>> {
    vec![Some(r.area.clone())]
}

fn ref_tok(r: &RefNode, map: RefMap) -> Tok {
    let outs = map(r);
    let q = qual_text(&r.qual);
    let text_of = |o: &Option<Area>| -> Vec<String> {
        match o {
            // a lower-case reference may come back in either case
            Some(a) => vec![format!("{}{}", q, r.area_text(a)), format!("{}{}", q, a.text())],
            None => {
                if q.is_empty() {
                    vec!["#REF!".to_string()]
                } else {
                    vec!["#REF!".to_string(), format!("{}#REF!", q)]
                }
            }
        }
    };
    let mut t = match &outs[0] {
        Some(a) => Tok::new(Kind::Ref, format!("{}{}", q, r.area_text(a)), ref_class(r)),
        None => Tok::new(Kind::Err, "#REF!", ref_class(r)),
    };
    for o in outs.iter() {
        for s in text_of(o) {
            if s != t.text && !t.alts.contains(&s) {
                t.alts.push(s);
            }
        }
    }
    t
}

pub fn pieces(e: &Expr, map: RefMap, out: &mut Vec<Piece>) {
    use Piece::*;
    match e {
        Expr::Num(s) => out.push(T(Tok::new(Kind::Num, s.clone(), num_class(s)))),
        Expr::Str(s) => out.push(T(Tok::new(Kind::Str, str_literal(s), str_class(s)))),
        Expr::Bool(b) => out.push(T(Tok::new(Kind::Bool, if *b { "TRUE" } else { "FALSE" }, "bool"))),
        Expr::Err { qual, text } => {
            let class = if qual.is_some() {
                "err-qualified"
            } else if CLASSIC_ERRORS.contains(&text.as_str()) {
                "err"
            } else {
                "err-modern"
            };
            out.push(T(Tok::new(Kind::Err, format!("{}{}", qual_text(qual), text), class)))
        }
        Expr::Ref(r) => out.push(T(ref_tok(r, map))),
        Expr::Name { qual, name } => {
            let class = match qual {
                Some(q) => format!("{}@{}", name_class(name), q.class()),
                None => name_class(name).to_string(),
            };
            out.push(T(Tok::new(Kind::Name, format!("{}{}", qual_text(qual), name), class)))
        }
        Expr::Func { name, args } => {
            out.push(T(Tok::new(Kind::Func, name.clone(), "func")));
            if !args.is_empty() {
                out.push(BlankOpt);
                for (i, a) in args.iter().enumerate() {
                    if i > 0 {
                        out.push(BlankOpt);
                        out.push(T(Tok::new(Kind::Comma, ",", "arg-sep")));
                        out.push(BlankOpt);
                    }
                    pieces(a, map, out);
                }
                out.push(BlankOpt);
            }
            out.push(T(Tok::new(Kind::Close, ")", "close")));
        }
        Expr::Missing => {}
        Expr::Unary { op, e } => {
            out.push(T(Tok::new(Kind::Prefix, op.to_string(), if *op == '+' { "unary-plus" } else { "unary-minus" })));
            pieces(e, map, out);
        }
        Expr::Percent(e) => {
            pieces(e, map, out);
            out.push(T(Tok::new(Kind::Postfix, "%", "percent")));
        }
        Expr::Binary { op, l, r } => {
            pieces(l, map, out);
            out.push(BlankOpt);
            out.push(T(Tok::new(Kind::Op, op.clone(), "infix")));
            out.push(BlankOpt);
            pieces(r, map, out);
        }
        Expr::Union(items) => {
            out.push(T(Tok::new(Kind::Open, "(", "open")));
            for (i, a) in items.iter().enumerate() {
                if i > 0 {
                    out.push(T(Tok::new(Kind::Comma, ",", "union")));
                    out.push(BlankOpt);
                }
                pieces(a, map, out);
            }
            out.push(T(Tok::new(Kind::Close, ")", "close")));
        }
        Expr::Intersect(l, r) => {
            pieces(l, map, out);
            out.push(T(Tok::new(Kind::Intersect, " ", "intersect")));
            pieces(r, map, out);
        }
        Expr::Paren(e) => {
            out.push(T(Tok::new(Kind::Open, "(", "open")));
            out.push(BlankOpt);
            pieces(e, map, out);
            out.push(BlankOpt);
            out.push(T(Tok::new(Kind::Close, ")", "close")));
        }
        Expr::Array(rows) => {
            out.push(T(Tok::new(Kind::ArrayOpen, "{", "array")));
            for (i, row) in rows.iter().enumerate() {
                if i > 0 {
                    out.push(T(Tok::new(Kind::ArrayRowSep, ";", "array")));
                }
                for (j, x) in row.iter().enumerate() {
                    if j > 0 {
                        out.push(T(Tok::new(Kind::Comma, ",", "array")));
                    }
                    pieces(x, map, out);
                }
            }
            out.push(T(Tok::new(Kind::ArrayClose, "}", "array")));
        }
        Expr::Structured { table, spec } => {
            let cell_like = parse_area(&table.to_ascii_uppercase()).is_some();
            let class = if cell_like {
                "structured-cell-like-table"
            } else if spec[1..].contains('[') {
                "structured-nested"
            } else {
                "structured"
            };
            out.push(T(Tok::new(Kind::Structured, format!("{}{}", table, spec), class)))
        }
        Expr::At(e) => {
            out.push(T(Tok::new(Kind::At, "@", "at")));
            pieces(e, map, out);
        }
    }
}

/// Expected token list of `e` under the outcome map.
pub fn tokens(e: &Expr, map: RefMap) -> Vec<Tok> {
    let mut p = Vec::new();
    pieces(e, map, &mut p);
    p.into_iter()
        .filter_map(|x| match x {
            Piece::T(t) => Some(t),
            Piece::BlankOpt => None,
        })
        .collect()
}

/// Formula text (without the leading `=`).  `blanks[i]` spaces go into the i-th blank
/// opportunity (missing entries = none).
pub fn render(e: &Expr, blanks: &[u8]) -> String {
    let mut p = Vec::new();
    pieces(e, &identity_map, &mut p);
    let mut s = String::new();
    let mut k = 0usize;
    for x in p {
        match x {
            Piece::T(t) if t.kind == Kind::Intersect => {
                // the intersection operator is a blank run of its own: plan entry 0 = one space
                let run = blank_text(blanks.get(k).copied().unwrap_or(0));
                k += 1;
                s.push_str(if run.is_empty() { " " } else { &run });
            }
            Piece::T(t) => {
                s.push_str(&t.text);
                if t.kind == Kind::Func {
                    s.push('(');
                }
            }
            Piece::BlankOpt => {
                s.push_str(&blank_text(blanks.get(k).copied().unwrap_or(0)));
                k += 1;
            }
        }
    }
    s
}

/// blank codes: 0 none, 1-2 spaces, 3 line feed, 4 tab, 5 CR LF + indentation, >= 6 a run of
/// 2..4 characters mixing space / LF / tab / CR (base-4 digits of the code)
pub fn blank_text(code: u8) -> String {
    match code {
        0 => "".into(),
        1 => " ".into(),
        2 => "  ".into(),
        3 => "\n".into(),
        4 => "\t".into(),
        5 => "\r\n  ".into(),
        c => {
            let v = (c - 6) as usize;
            let len = 2 + v % 3;
            let mut d = v / 3;
            let mut out = String::new();
            for _ in 0..len {
                out.push([' ', '\n', '\t', '\r'][d % 4]);
                d /= 4;
            }
            out
        }
    }
}

/// (decorative codes used, intersection-operator codes used) of a rendering
pub fn plan_usage(e: &Expr, blanks: &[u8]) -> (Vec<u8>, Vec<u8>) {
    let mut p = Vec::new();
    pieces(e, &identity_map, &mut p);
    let (mut deco, mut inter) = (Vec::new(), Vec::new());
    let mut k = 0usize;
    for x in p {
        match x {
            Piece::T(t) if t.kind == Kind::Intersect => {
                inter.push(blanks.get(k).copied().unwrap_or(0));
                k += 1;
            }
            Piece::BlankOpt => {
                deco.push(blanks.get(k).copied().unwrap_or(0));
                k += 1;
            }
            _ => {}
        }
    }
    (deco, inter)
}

pub fn render_plain(e: &Expr) -> String {
    render(e, &[])
}

// ---------------------------------------------------------------------------------------
// tree helpers

impl Expr {
    pub fn children(&self) -> Vec<&Expr> {
        match self {
            Expr::Func { args, .. } => args.iter().collect(),
            Expr::Unary { e, .. } | Expr::Percent(e) | Expr::Paren(e) | Expr::At(e) => vec![e.as_ref()],
            Expr::Binary { l, r, .. } | Expr::Intersect(l, r) => vec![l.as_ref(), r.as_ref()],
            Expr::Union(v) => v.iter().collect(),
            Expr::Array(rows) => rows.iter().flat_map(|r| r.iter()).collect(),
            _ => vec![],
        }
    }
    pub fn node_count(&self) -> usize {
        1 + self.children().iter().map(|c| c.node_count()).sum::<usize>()
    }
    pub fn depth(&self) -> usize {
        1 + self.children().iter().map(|c| c.depth()).max().unwrap_or(0)
    }
    /// all subtrees in pre-order (including self)
    pub fn subtrees(&self) -> Vec<&Expr> {
        let mut v = vec![self];
        for c in self.children() {
            v.extend(c.subtrees());
        }
        v
    }
    pub fn refs(&self) -> Vec<&RefNode> {
        self.subtrees()
            .into_iter()
            .filter_map(|e| if let Expr::Ref(r) = e { Some(r) } else { None })
            .collect()
    }
    /// short label of the node kind (used as finding-key class of a minimal failing subtree)
    pub fn node_class(&self) -> String {
        let mut p = Vec::new();
        match self {
            Expr::Func { .. } => "func".into(),
            Expr::Missing => "missing-arg".into(),
            Expr::Unary { op, .. } => if *op == '+' { "unary-plus".into() } else { "unary-minus".into() },
            Expr::Percent(_) => "percent".into(),
            Expr::Binary { .. } => "infix".into(),
            Expr::Union(_) => "union".into(),
            Expr::Intersect(..) => "intersect".into(),
            Expr::Paren(_) => "paren".into(),
            Expr::Array(_) => "array".into(),
            Expr::At(_) => "at".into(),
            _ => {
                pieces(self, &identity_map, &mut p);
                match p.first() {
                    Some(Piece::T(t)) => t.class.clone(),
                    _ => "empty".into(),
                }
            }
        }
    }
    /// bottom-up rewrite
    pub fn map(&self, f: &mut dyn FnMut(Expr) -> Expr) -> Expr {
        let b = |e: &Expr, f: &mut dyn FnMut(Expr) -> Expr| Box::new(e.map(f));
        let inner = match self {
            Expr::Func { name, args } => Expr::Func { name: name.clone(), args: args.iter().map(|a| a.map(f)).collect() },
            Expr::Unary { op, e } => Expr::Unary { op: *op, e: b(e, f) },
            Expr::Percent(e) => Expr::Percent(b(e, f)),
            Expr::Paren(e) => Expr::Paren(b(e, f)),
            Expr::At(e) => Expr::At(b(e, f)),
            Expr::Binary { op, l, r } => {
                let l2 = b(l, f);
                let r2 = b(r, f);
                Expr::Binary { op: op.clone(), l: l2, r: r2 }
            }
            Expr::Intersect(l, r) => {
                let l2 = b(l, f);
                let r2 = b(r, f);
                Expr::Intersect(l2, r2)
            }
            Expr::Union(v) => Expr::Union(v.iter().map(|a| a.map(f)).collect()),
            Expr::Array(rows) => Expr::Array(rows.iter().map(|r| r.iter().map(|a| a.map(f)).collect()).collect()),
            other => other.clone(),
        };
        f(inner)
    }
    /// all lexical class labels present (tokens + structural nodes)
    pub fn classes(&self) -> std::collections::BTreeSet<String> {
        let mut s = std::collections::BTreeSet::new();
        for t in tokens(self, &identity_map) {
            match t.kind {
                Kind::Open | Kind::Close => {}
                _ => {
                    s.insert(t.class.clone());
                }
            }
        }
        for e in self.subtrees() {
            match e {
                Expr::Paren(_) => {
                    s.insert("paren".into());
                }
                Expr::Missing => {
                    s.insert("missing-arg".into());
                }
                _ => {}
            }
        }
        s
    }
}

// ---------------------------------------------------------------------------------------
// reference transformations on areas

/// Relative translation by (dc, dr): non-$ parts move; leaving the grid = None (#REF!).
pub fn translate_area(a: &Area, dc: i64, dr: i64) -> Option<Area> {
    let mv = |v: u32, abs: bool, d: i64, max: u32| -> Option<u32> {
        if abs {
            Some(v)
        } else {
            let n = v as i64 + d;
            if n < 1 || n > max as i64 {
                None
            } else {
                Some(n as u32)
            }
        }
    };
    let cell = |c: &CellRef| -> Option<CellRef> {
        Some(CellRef { col: mv(c.col, c.abs_col, dc, MAX_COL)?, row: mv(c.row, c.abs_row, dr, MAX_ROW)?, abs_col: c.abs_col, abs_row: c.abs_row })
    };
    Some(match a {
        Area::Cell(c) => Area::Cell(cell(c)?),
        Area::Range(x, y) => Area::Range(cell(x)?, cell(y)?),
        Area::Rows { r1, a1, r2, a2 } => Area::Rows { r1: mv(*r1, *a1, dr, MAX_ROW)?, a1: *a1, r2: mv(*r2, *a2, dr, MAX_ROW)?, a2: *a2 },
        Area::Cols { c1, a1, c2, a2 } => Area::Cols { c1: mv(*c1, *a1, dc, MAX_COL)?, a1: *a1, c2: mv(*c2, *a2, dc, MAX_COL)?, a2: *a2 },
    })
}

/// The expression with every reference translated by (dc, dr) (what a shared-formula child at
/// that distance from its master stands for); None if a reference would leave the grid.
pub fn translate_expr(e: &Expr, dc: i64, dr: i64) -> Option<Expr> {
    let mut ok = true;
    let out = e.map(&mut |x| match x {
        Expr::Ref(r) => match translate_area(&r.area, dc, dr) {
            Some(a) => Expr::Ref(RefNode { qual: r.qual, area: a, lower: r.lower }),
            None => {
                ok = false;
                Expr::Ref(r)
            }
        },
        o => o,
    });
    if ok {
        Some(out)
    } else {
        None
    }
}

/// One structural edit of a sheet.
#[derive(Debug, Clone, Copy, PartialEq, Eq, Serialize, Deserialize)]
pub enum Edit {
    InsertRows { at: u32, n: u32 },
    InsertCols { at: u32, n: u32 },
    RemoveRows { at: u32, n: u32 },
    RemoveCols { at: u32, n: u32 },
}

/// One interval [lo, hi] on one axis after the edit: the accepted results (None = deleted).
fn edit_interval(lo: u32, hi: u32, insert: bool, at: u32, n: u32) -> Vec<Option<(u32, u32)>> {
    if n == 0 {
        return vec![Some((lo, hi))];
    }
    if insert {
        let f = |v: u32| if v >= at { v + n } else { v };
        return vec![Some((f(lo), f(hi)))];
    }
    let end = at + n; // band [at, end)
    let dead = |v: u32| v >= at && v < end;
    let f = |v: u32| if v >= end { v - n } else { v };
    match (dead(lo), dead(hi)) {
        (true, true) => vec![None],
        (false, false) => vec![Some((f(lo), f(hi)))],
        // one corner deleted: the surviving part (Excel) or #REF!, both accepted
        (true, false) => vec![Some((at, f(hi))), None],
        (false, true) => vec![Some((lo, at - 1)), None],
    }
}

/// Structural edit applied to a reference into the edited sheet: accepted outcomes.
pub fn edit_area(a: &Area, e: &Edit) -> Vec<Option<Area>> {
    let (rows, insert, at, n) = match *e {
        Edit::InsertRows { at, n } => (true, true, at, n),
        Edit::InsertCols { at, n } => (false, true, at, n),
        Edit::RemoveRows { at, n } => (true, false, at, n),
        Edit::RemoveCols { at, n } => (false, false, at, n),
    };
    match a {
        Area::Cell(c) => {
            let v = if rows { c.row } else { c.col };
            edit_interval(v, v, insert, at, n)
                .into_iter()
                .take(1)
                .map(|o| {
                    o.map(|(x, _)| {
                        let mut c2 = c.clone();
                        if rows {
                            c2.row = x
                        } else {
                            c2.col = x
                        }
                        Area::Cell(c2)
                    })
                })
                .collect()
        }
        Area::Range(x, y) => {
            let (lo, hi) = if rows { (x.row, y.row) } else { (x.col, y.col) };
            edit_interval(lo, hi, insert, at, n)
                .into_iter()
                .map(|o| {
                    o.map(|(l, h)| {
                        let (mut x2, mut y2) = (x.clone(), y.clone());
                        if rows {
                            x2.row = l;
                            y2.row = h;
                        } else {
                            x2.col = l;
                            y2.col = h;
                        }
                        Area::Range(x2, y2)
                    })
                })
                .collect()
        }
        Area::Rows { r1, a1, r2, a2 } => {
            if !rows {
                return vec![Some(a.clone())];
            }
            edit_interval(*r1, *r2, insert, at, n)
                .into_iter()
                .map(|o| o.map(|(l, h)| Area::Rows { r1: l, a1: *a1, r2: h, a2: *a2 }))
                .collect()
        }
        Area::Cols { c1, a1, c2, a2 } => {
            if rows {
                return vec![Some(a.clone())];
            }
            edit_interval(*c1, *c2, insert, at, n)
                .into_iter()
                .map(|o| o.map(|(l, h)| Area::Cols { c1: l, a1: *a1, c2: h, a2: *a2 }))
                .collect()
        }
    }
}

/// A history of edits applied to one reference into the edited sheet(s): the set of accepted
/// outcomes (first = the "shrink" reading everywhere).
pub fn edit_area_history(a: &Area, edits: &[Edit]) -> Vec<Option<Area>> {
    let mut states: Vec<Option<Area>> = vec![Some(a.clone())];
    for e in edits {
        let mut next: Vec<Option<Area>> = Vec::new();
        for s in &states {
            let outs = match s {
                None => vec![None],
                Some(a) => edit_area(a, e),
            };
            for o in outs {
                if !next.contains(&o) {
                    next.push(o);
                }
            }
        }
        states = next;
    }
    states
}

// ---------------------------------------------------------------------------------------
// reference lexer (for the library's output)

pub const CLASSIC_ERRORS: &[&str] = &["#NULL!", "#DIV/0!", "#VALUE!", "#REF!", "#NAME?", "#NUM!", "#N/A"];
pub const MODERN_ERRORS: &[&str] = &["#GETTING_DATA", "#SPILL!", "#CALC!", "#FIELD!", "#BLOCKED!", "#CONNECT!", "#UNKNOWN!"];

fn is_number(s: &str) -> bool {
    // digits [. digits] | . digits, optional E[+-]digits
    let (mant, exp) = match s.find('E') {
        Some(i) => (&s[..i], Some(&s[i + 1..])),
        None => (s, None),
    };
    let mant_ok = {
        let mut parts = mant.splitn(2, '.');
        let a = parts.next().unwrap_or("");
        let b = parts.next();
        let digits = |x: &str| x.chars().all(|c| c.is_ascii_digit());
        match b {
            None => !a.is_empty() && digits(a),
            Some(b) => digits(a) && digits(b) && !(a.is_empty() && b.is_empty()),
        }
    };
    let exp_ok = match exp {
        None => true,
        Some(e) => {
            let e = e.strip_prefix('+').or_else(|| e.strip_prefix('-')).unwrap_or(e);
            !e.is_empty() && e.chars().all(|c| c.is_ascii_digit())
        }
    };
    mant_ok && exp_ok
}

/// mantissa followed by E, waiting for a signed exponent
fn is_sci_prefix(s: &str) -> bool {
    s.ends_with('E') && is_number(&s[..s.len() - 1]) && !s[..s.len() - 1].contains('E')
}

fn parse_part(p: &str) -> Option<(Option<(u32, bool)>, Option<(u32, bool)>)> {
    // [$]LETTERS[$]DIGITS | [$]LETTERS | [$]DIGITS
    let mut rest = p;
    let mut col = None;
    let mut abs = false;
    if let Some(r) = rest.strip_prefix('$') {
        abs = true;
        rest = r;
    }
    let letters: String = rest.chars().take_while(|c| c.is_ascii_uppercase()).collect();
    if !letters.is_empty() {
        if letters.len() > 3 {
            return None;
        }
        let c = col_index(&letters);
        if c < 1 || c > MAX_COL {
            return None;
        }
        col = Some((c, abs));
        rest = &rest[letters.len()..];
        abs = false;
        if let Some(r) = rest.strip_prefix('$') {
            abs = true;
            rest = r;
            if rest.is_empty() {
                return None;
            }
        }
    }
    if rest.is_empty() {
        return if col.is_some() && !abs { Some((col, None)) } else { None };
    }
    if !rest.chars().all(|c| c.is_ascii_digit()) || rest.starts_with('0') || rest.len() > 7 {
        return None;
    }
    let r: u32 = rest.parse().ok()?;
    if r < 1 || r > MAX_ROW {
        return None;
    }
    Some((col, Some((r, abs))))
}

/// Parse the area part of a reference (after the qualifier).
pub fn parse_area(s: &str) -> Option<Area> {
    let parts: Vec<&str> = s.split(':').collect();
    let cell = |p: (Option<(u32, bool)>, Option<(u32, bool)>)| -> Option<CellRef> {
        match p {
            (Some((c, ac)), Some((r, ar))) => Some(CellRef { col: c, row: r, abs_col: ac, abs_row: ar }),
            _ => None,
        }
    };
    match parts.len() {
        1 => Some(Area::Cell(cell(parse_part(parts[0])?)?)),
        2 => {
            let a = parse_part(parts[0])?;
            let b = parse_part(parts[1])?;
            match (a, b) {
                ((Some(_), Some(_)), (Some(_), Some(_))) => Some(Area::Range(cell(a)?, cell(b)?)),
                ((Some((c1, a1)), None), (Some((c2, a2)), None)) => Some(Area::Cols { c1, a1, c2, a2 }),
                ((None, Some((r1, a1))), (None, Some((r2, a2)))) => Some(Area::Rows { r1, a1, r2, a2 }),
                _ => None,
            }
        }
        _ => None,
    }
}

/// Split an operand into (qualifier incl. `!`, rest) at the last `!` outside quotes/brackets.
pub fn split_qualifier(s: &str) -> (&str, &str) {
    let mut in_q = false;
    let mut depth = 0i32;
    let mut last = None;
    let b: Vec<(usize, char)> = s.char_indices().collect();
    let mut i = 0;
    while i < b.len() {
        let (pos, c) = b[i];
        if in_q {
            if c == '\'' {
                if i + 1 < b.len() && b[i + 1].1 == '\'' {
                    i += 1;
                } else {
                    in_q = false;
                }
            }
        } else if c == '\'' && depth == 0 {
            in_q = true;
        } else if c == '[' {
            depth += 1;
        } else if c == ']' {
            depth -= 1;
        } else if c == '!' && depth == 0 {
            last = Some(pos);
        }
        i += 1;
    }
    match last {
        Some(p) => (&s[..=p], &s[p + 1..]),
        None => ("", s),
    }
}

fn classify_operand(s: &str) -> Kind {
    if is_number(s) {
        return Kind::Num;
    }
    if s == "TRUE" || s == "FALSE" {
        return Kind::Bool;
    }
    let (_q, rest) = split_qualifier(s);
    if parse_area(rest).is_some() || (rest.chars().all(|c| !c.is_ascii_uppercase()) && parse_area(&rest.to_ascii_uppercase()).is_some()) {
        return Kind::Ref;
    }
    if rest.contains('[') {
        return Kind::Structured;
    }
    Kind::Name
}

/// Reference lexer.  Input: formula text without the leading `=`.  Blanks that are not
/// intersection operators are dropped; a run of blanks between two operand-like ends is one
/// `Intersect` token.
pub fn lex(text: &str) -> Result<Vec<Tok>, String> {
    let ch: Vec<char> = text.chars().collect();
    let mut out: Vec<Tok> = Vec::new();
    let mut acc = String::new();
    let mut i = 0usize;
    fn flush(acc: &mut String, out: &mut Vec<Tok>) {
        if !acc.is_empty() {
            let k = classify_operand(acc);
            out.push(Tok::new(k, std::mem::take(acc), ""));
        }
    }
    let prev_sig = |out: &Vec<Tok>| -> Option<Kind> { out.iter().rev().find(|t| t.kind != Kind::Blank).map(|t| t.kind) };
    while i < ch.len() {
        let c = ch[i];
        match c {
            '"' => {
                flush(&mut acc, &mut out);
                let mut j = i + 1;
                let mut raw = String::from("\"");
                loop {
                    if j >= ch.len() {
                        return Err(format!("unterminated string literal at {}", i));
                    }
                    raw.push(ch[j]);
                    if ch[j] == '"' {
                        if j + 1 < ch.len() && ch[j + 1] == '"' {
                            raw.push('"');
                            j += 2;
                            continue;
                        }
                        j += 1;
                        break;
                    }
                    j += 1;
                }
                out.push(Tok::new(Kind::Str, raw, ""));
                i = j;
            }
            '\'' => {
                let mut j = i + 1;
                acc.push('\'');
                loop {
                    if j >= ch.len() {
                        return Err(format!("unterminated quoted name at {}", i));
                    }
                    acc.push(ch[j]);
                    if ch[j] == '\'' {
                        if j + 1 < ch.len() && ch[j + 1] == '\'' {
                            acc.push('\'');
                            j += 2;
                            continue;
                        }
                        j += 1;
                        break;
                    }
                    j += 1;
                }
                i = j;
            }
            '[' => {
                let mut depth = 0i32;
                let mut j = i;
                loop {
                    if j >= ch.len() {
                        return Err(format!("unterminated bracket group at {}", i));
                    }
                    let d = ch[j];
                    acc.push(d);
                    if d == '\'' && j + 1 < ch.len() && j > i {
                        acc.push(ch[j + 1]);
                        j += 2;
                        continue;
                    }
                    if d == '[' {
                        depth += 1;
                    } else if d == ']' {
                        depth -= 1;
                        if depth == 0 {
                            j += 1;
                            break;
                        }
                    }
                    j += 1;
                }
                i = j;
            }
            '#' => {
                let rest: String = ch[i..].iter().collect();
                let hit = CLASSIC_ERRORS.iter().chain(MODERN_ERRORS.iter()).find(|e| rest.starts_with(**e));
                match hit {
                    Some(e) => {
                        if acc.ends_with('!') {
                            let t = format!("{}{}", acc, e);
                            acc.clear();
                            out.push(Tok::new(Kind::Err, t, ""));
                        } else {
                            flush(&mut acc, &mut out);
                            out.push(Tok::new(Kind::Err, e.to_string(), ""));
                        }
                        i += e.chars().count();
                    }
                    None => return Err(format!("stray # at {}", i)),
                }
            }
            '{' => {
                flush(&mut acc, &mut out);
                out.push(Tok::new(Kind::ArrayOpen, "{", ""));
                i += 1;
            }
            '}' => {
                flush(&mut acc, &mut out);
                out.push(Tok::new(Kind::ArrayClose, "}", ""));
                i += 1;
            }
            ';' => {
                flush(&mut acc, &mut out);
                out.push(Tok::new(Kind::ArrayRowSep, ";", ""));
                i += 1;
            }
            ',' => {
                flush(&mut acc, &mut out);
                out.push(Tok::new(Kind::Comma, ",", ""));
                i += 1;
            }
            '(' => {
                if acc.is_empty() {
                    out.push(Tok::new(Kind::Open, "(", ""));
                } else {
                    out.push(Tok::new(Kind::Func, std::mem::take(&mut acc), ""));
                }
                i += 1;
            }
            ')' => {
                flush(&mut acc, &mut out);
                out.push(Tok::new(Kind::Close, ")", ""));
                i += 1;
            }
            ' ' | '\n' | '\t' | '\r' => {
                flush(&mut acc, &mut out);
                while i < ch.len() && matches!(ch[i], ' ' | '\n' | '\t' | '\r') {
                    i += 1;
                }
                out.push(Tok::new(Kind::Blank, " ", ""));
            }
            '%' => {
                flush(&mut acc, &mut out);
                out.push(Tok::new(Kind::Postfix, "%", ""));
                i += 1;
            }
            '@' => {
                flush(&mut acc, &mut out);
                out.push(Tok::new(Kind::At, "@", ""));
                i += 1;
            }
            '+' | '-' | '*' | '/' | '^' | '&' | '=' | '<' | '>' => {
                if (c == '+' || c == '-') && is_sci_prefix(&acc) && i + 1 < ch.len() && ch[i + 1].is_ascii_digit() {
                    acc.push(c);
                    i += 1;
                    continue;
                }
                flush(&mut acc, &mut out);
                let two: String = ch[i..(i + 2).min(ch.len())].iter().collect();
                if two == "<=" || two == ">=" || two == "<>" {
                    out.push(Tok::new(Kind::Op, two, ""));
                    i += 2;
                    continue;
                }
                let kind = if c == '+' || c == '-' {
                    match prev_sig(&out) {
                        None
                        | Some(Kind::Open)
                        | Some(Kind::Func)
                        | Some(Kind::Comma)
                        | Some(Kind::Op)
                        | Some(Kind::Prefix)
                        | Some(Kind::At)
                        | Some(Kind::ArrayOpen)
                        | Some(Kind::ArrayRowSep) => Kind::Prefix,
                        _ => Kind::Op,
                    }
                } else {
                    Kind::Op
                };
                out.push(Tok::new(kind, c.to_string(), ""));
                i += 1;
            }
            _ => {
                acc.push(c);
                i += 1;
            }
        }
    }
    flush(&mut acc, &mut out);
    // blanks -> intersections
    let mut res: Vec<Tok> = Vec::new();
    for (k, t) in out.iter().enumerate() {
        if t.kind != Kind::Blank {
            res.push(t.clone());
            continue;
        }
        let prev = if k > 0 { Some(&out[k - 1]) } else { None };
        let next = out.get(k + 1);
        let left_ok = prev.map_or(false, |p| p.is_operand() || p.kind == Kind::Close);
        let right_ok = next.map_or(false, |n| n.is_operand() || matches!(n.kind, Kind::Open | Kind::Func));
        if left_ok && right_ok {
            res.push(Tok::new(Kind::Intersect, " ", ""));
        }
    }
    Ok(res)
}

/// First position where `actual` does not satisfy `expected` (None = equal).
pub fn first_mismatch(expected: &[Tok], actual: &[Tok]) -> Option<usize> {
    for (i, e) in expected.iter().enumerate() {
        match actual.get(i) {
            Some(a) if e.accepts(a) => {}
            _ => return Some(i),
        }
    }
    if actual.len() > expected.len() {
        Some(expected.len())
    } else {
        None
    }
}

pub fn toks_text(t: &[Tok]) -> String {
    t.iter().map(|x| format!("{:?}:{}", x.kind, x.text)).collect::<Vec<_>>().join(" ")
}

// ---------------------------------------------------------------------------------------
// strategies

pub fn ref_col() -> BoxedStrategy<u32> {
    prop_oneof![
        4 => prop::sample::select(vec![1u32, 2, 3]),
        2 => prop::sample::select(vec![16382u32, 16383, 16384]),
        2 => prop::sample::select(vec![26u32, 27, 28, 52, 53, 702, 703, 704]),
        5 => 1u32..=12,
        1 => 1u32..=MAX_COL,
    ]
    .boxed()
}

pub fn ref_row() -> BoxedStrategy<u32> {
    prop_oneof![
        4 => prop::sample::select(vec![1u32, 2, 3]),
        2 => prop::sample::select(vec![1048574u32, 1048575, 1048576]),
        2 => prop::sample::select(vec![9u32, 10, 11, 99, 100, 101, 65535, 65536, 65537]),
        5 => 1u32..=12,
        1 => 1u32..=MAX_ROW,
    ]
    .boxed()
}

fn abs_flag() -> BoxedStrategy<bool> {
    prop::bool::weighted(0.35).boxed()
}

pub fn cell_ref() -> BoxedStrategy<CellRef> {
    (ref_col(), ref_row(), abs_flag(), abs_flag())
        .prop_map(|(col, row, abs_col, abs_row)| CellRef { col, row, abs_col, abs_row })
        .boxed()
}

pub fn area() -> BoxedStrategy<Area> {
    prop_oneof![
        8 => cell_ref().prop_map(Area::Cell),
        5 => (cell_ref(), cell_ref()).prop_map(|(a, b)| {
            Area::Range(
                CellRef { col: a.col.min(b.col), row: a.row.min(b.row), abs_col: a.abs_col, abs_row: a.abs_row },
                CellRef { col: a.col.max(b.col), row: a.row.max(b.row), abs_col: b.abs_col, abs_row: b.abs_row },
            )
        }),
        1 => (ref_row(), abs_flag(), ref_row(), abs_flag()).prop_map(|(a, a1, b, a2)| Area::Rows { r1: a.min(b), a1, r2: a.max(b), a2 }),
        1 => (ref_col(), abs_flag(), ref_col(), abs_flag()).prop_map(|(a, a1, b, a2)| Area::Cols { c1: a.min(b), a1, c2: a.max(b), a2 }),
    ]
    .boxed()
}

fn qual_sheet_name() -> BoxedStrategy<String> {
    prop_oneof![
        5 => "[A-Z][a-z]{2,6}[0-9]{0,1}".prop_map(|s| if needs_quote(&s) { format!("{}x", s) } else { s }),
        3 => prop::sample::select(vec!["My Sheet", "Q1 2024", "Sales Data", "a b c", " lead", "2024", "Jan-Feb", "A1", "TRUE", "P&L", "x(1)", "a,b", "a+b"]).prop_map(|s| s.to_string()),
        2 => crate::gen::text::sheet_name(),
        1 => prop::sample::select(vec!["It's", "a'b", "O'Neil's", "a!b", "x\"y", "日本", "Données", "a'b!c", "it's a sheet"]).prop_map(|s| s.to_string()),
    ]
    .boxed()
}

pub fn qual() -> BoxedStrategy<Qual> {
    let book = prop_oneof![
        12 => Just((None::<String>, None::<String>)),
        1 => prop::sample::select(vec!["1", "2", "12"]).prop_map(|b| (Some(b.to_string()), None)),
        1 => prop::sample::select(vec!["Book1.xlsx", "My Book.xlsx", "data-2024.xlsm"]).prop_map(|b| (Some(b.to_string()), None)),
        1 => prop::sample::select(vec!["C:\\Users\\me\\", "/home/u/", "\\\\srv\\share\\"]).prop_map(|p| (Some("Book1.xlsx".to_string()), Some(p.to_string()))),
    ];
    let second = prop_oneof![14 => Just(None::<String>), 1 => qual_sheet_name().prop_map(Some)];
    (any::<u16>(), qual_sheet_name(), book, prop::bool::weighted(0.05), second)
        .prop_map(|(pick, sheet, (book, path), force_quote, sheet2)| {
            // a 3-D reference names two sheets of this book
            let sheet2 = if book.is_some() { None } else { sheet2 };
            Qual { pick, sheet, book, path, force_quote, sheet2 }
        })
        .boxed()
}

pub fn opt_qual() -> BoxedStrategy<Option<Qual>> {
    prop_oneof![3 => Just(None), 2 => qual().prop_map(Some)].boxed()
}

pub fn ref_node() -> BoxedStrategy<RefNode> {
    (opt_qual(), area(), prop::bool::weighted(0.06)).prop_map(|(qual, area, lower)| RefNode { qual, area, lower }).boxed()
}

pub fn num_text() -> BoxedStrategy<String> {
    prop_oneof![
        4 => (0u32..1000).prop_map(|n| n.to_string()),
        1 => prop::sample::select(vec!["0", "1", "10", "100", "1048576", "16384", "123456789012345678", "4294967296"]).prop_map(|s| s.to_string()),
        3 => (0u32..1000, 0u32..1000).prop_map(|(a, b)| format!("{}.{}", a, b)),
        1 => prop::sample::select(vec![".5", "0.1", "5.", "3.14159", "0.30000000000000004"]).prop_map(|s| s.to_string()),
        2 => (1u32..10, 0u32..30).prop_map(|(a, e)| format!("{}E{}", a, e)),
        2 => (1u32..100, 0u32..10, prop::sample::select(vec!["+", "-"]), 1u32..30).prop_map(|(a, b, s, e)| format!("{}.{}E{}{}", a, b, s, e)),
        1 => (1u32..10, prop::sample::select(vec!["+", "-"]), 1u32..300).prop_map(|(a, s, e)| format!("{}E{}{}", a, s, e)),
    ]
    .boxed()
}

pub fn str_content() -> BoxedStrategy<String> {
    let ch = prop_oneof![
        10 => prop::char::range('a', 'z'),
        3 => prop::char::range('A', 'Z'),
        3 => prop::char::range('0', '9'),
        3 => Just(' '),
        4 => Just('"'),
        2 => Just('\''),
        5 => prop::sample::select(vec![',', ';', ':', '!', '#', '(', ')', '{', '}', '[', ']', '+', '-', '*', '/', '&', '=', '<', '>', '%', '$', '@', '.']),
        2 => prop::sample::select(vec!['é', '日', 'Ж', '😀', 'ß']),
    ];
    prop_oneof![
        6 => prop::collection::vec(ch, 0..=12).prop_map(|v| v.into_iter().collect::<String>()),
        2 => prop::sample::select(vec!["", "A1", "#REF!", "TRUE", "a\"b", "\"", "\"\"", "it's", "x,y", " ", "'My Sheet'!A1", "Sheet1!$A$1", "say \"hi\"", "{1,2}", "[x]", "1E+5", " trailing ", "yyyy-mm-dd", "0.00%"]).prop_map(|s| s.to_string()),
    ]
    .boxed()
}

pub fn name_text() -> BoxedStrategy<String> {
    prop_oneof![
        4 => "[a-z][a-z_]{2,8}".prop_map(|s| s),
        3 => "[A-Z][a-z]{3,8}".prop_map(|s| s),
        2 => "[A-Z]{4,8}".prop_map(|s| s),
        2 => "[A-Z]{1,3}[0-9]{1,4}[A-Z]{2,5}".prop_map(|s| s),
        2 => "[A-Z][a-z]{3,6}[0-9]{1,4}".prop_map(|s| s),
        1 => "_[a-z]{2,6}".prop_map(|s| s),
        1 => "[a-z]{2,5}\\.[a-z]{2,5}".prop_map(|s| s),
        // names that END like the mantissa of a scientific number: CO2E, Scope3E, Mass2.5E
        2 => sci_name(),
        // legal names that BEGIN like a cell: Q1.Sales, FY24.Rate, A1_total, h2.mass
        2 => "[A-Z]{1,3}[0-9]{1,4}\\.[A-Za-z]{2,6}".prop_map(|s| s),
        1 => "[A-Z]{1,3}[0-9]{1,4}_[a-z]{2,6}".prop_map(|s| s),
        1 => prop::sample::select(vec!["Q1.Sales", "FY24.Rate", "H2.Mass", "h2.mass", "A1_total", "XFD1048576.x", "B2.c3"]).prop_map(|s| s.to_string()),
        1 => prop::sample::select(vec!["_xlnm.Print_Area", "_xlnm._FilterDatabase", "税率", "Größe", "my_name_1", "Rate.2024", "x_1"]).prop_map(|s| s.to_string()),
    ]
    .prop_map(|s| {
        let up = s.to_uppercase();
        if up == "TRUE" || up == "FALSE" || parse_area(&up).is_some() {
            format!("{}_n", s)
        } else {
            s
        }
    })
    .boxed()
}

pub fn sci_name() -> BoxedStrategy<String> {
    prop_oneof![
        3 => "[A-Z][a-z]{2,6}[1-9]E".prop_map(|s| s),
        2 => "[A-Z]{2}[1-9]E".prop_map(|s| s),
        2 => "[A-Z][a-z]{2,5}[1-9]\\.[0-9]{1,2}E".prop_map(|s| s),
        3 => prop::sample::select(vec!["CO2E", "Scope3E", "Q4E", "Rate1E", "Mass2.5E", "N1E", "X9.99E"]).prop_map(|s| s.to_string()),
        2 => prop::sample::select(vec!["co2e", "Scope3e", "rate1e", "mass2.5e"]).prop_map(|s| s.to_string()),
    ]
    .boxed()
}

/// `<name ending like a mantissa> +/- <relative reference>` and `<scientific number> +/-
/// <relative reference>`: the two must stay distinguished
fn sci_neighbours() -> BoxedStrategy<Expr> {
    let rel = (opt_qual(), area()).prop_map(|(qual, area)| Expr::Ref(RefNode { qual, area: area.relative(), lower: false }));
    let left = prop_oneof![
        5 => (prop_oneof![4 => Just(None), 1 => qual().prop_map(Some)], sci_name()).prop_map(|(qual, name)| Expr::Name { qual, name }),
        2 => prop::sample::select(vec!["1E+5", "2.5E-3", "1E3", "9E", "1.5E+10"]).prop_map(|s| Expr::Num(if s == "9E" { "9E1".to_string() } else { s.to_string() })),
    ];
    (left, prop::sample::select(vec!["+", "-"]), rel, prop_oneof![3 => Just(None), 1 => prop::sample::select(vec!["1E+5", "2.5E-3", "1E3"]).prop_map(Some)])
        .prop_map(|(l, op, r, tail)| {
            let b = Expr::Binary { op: op.to_string(), l: Box::new(l), r: Box::new(r) };
            match tail {
                None => b,
                Some(n) => Expr::Binary { op: "+".into(), l: Box::new(b), r: Box::new(Expr::Num(n.to_string())) },
            }
        })
        .boxed()
}

fn err_text() -> BoxedStrategy<String> {
    prop_oneof![
        12 => prop::sample::select(CLASSIC_ERRORS.to_vec()).prop_map(|s| s.to_string()),
        1 => prop::sample::select(vec!["#SPILL!", "#CALC!", "#GETTING_DATA"]).prop_map(|s| s.to_string()),
    ]
    .boxed()
}

fn structured() -> BoxedStrategy<Expr> {
    (
        prop_oneof![
            4 => "[A-Z][a-z]{3,6}[0-9]{0,1}".prop_map(|s| s),
            1 => Just(String::new()),
            // table names that look like a cell
            2 => prop::sample::select(vec!["Tbl1", "T1", "AB12", "Tab2", "tbl1"]).prop_map(|s| s.to_string()),
        ],
        prop::sample::select(vec![
            "[Col]", "[#All]", "[#Headers]", "[#Data]", "[@Col]", "[Col A]", "[Amount2024]", "[@[Col A]]", "[[#This Row],[Col]]", "[[#All],[Col A]]",
            "[[Col1]:[Col2]]", "[[#Headers],[#Data],[Pct]]",
        ]),
    )
        .prop_map(|(table, spec)| Expr::Structured { table, spec: spec.to_string() })
        .boxed()
}

fn leaf() -> BoxedStrategy<Expr> {
    prop_oneof![
        5 => num_text().prop_map(Expr::Num),
        4 => str_content().prop_map(Expr::Str),
        1 => any::<bool>().prop_map(Expr::Bool),
        2 => err_text().prop_map(|text| Expr::Err { qual: None, text }),
        1 => qual().prop_map(|q| Expr::Err { qual: Some(q), text: "#REF!".into() }),
        14 => ref_node().prop_map(Expr::Ref),
        4 => (prop_oneof![5 => Just(None), 1 => qual().prop_map(Some)], name_text()).prop_map(|(qual, name)| Expr::Name { qual, name }),
        2 => structured(),
        2 => sci_neighbours(),
        1 => array(),
        1 => prop::sample::select(vec!["NOW", "PI", "RAND", "TODAY", "NA"]).prop_map(|n| Expr::Func { name: n.to_string(), args: vec![] }),
    ]
    .boxed()
}

fn array() -> BoxedStrategy<Expr> {
    let elem = prop_oneof![
        4 => num_text().prop_map(Expr::Num),
        1 => num_text().prop_map(|n| Expr::Unary { op: '-', e: Box::new(Expr::Num(n)) }),
        2 => str_content().prop_map(Expr::Str),
        1 => any::<bool>().prop_map(Expr::Bool),
        1 => prop::sample::select(CLASSIC_ERRORS.to_vec()).prop_map(|s| Expr::Err { qual: None, text: s.to_string() }),
    ];
    (1usize..=3, 1usize..=3, prop::collection::vec(elem, 9))
        .prop_map(|(w, h, pool)| {
            let mut rows = Vec::new();
            for r in 0..h {
                rows.push((0..w).map(|c| pool[r * 3 + c].clone()).collect::<Vec<_>>());
            }
            Expr::Array(rows)
        })
        .boxed()
}

const FUNCS: &[&str] = &[
    "SUM", "IF", "INDEX", "OFFSET", "MAX", "VLOOKUP", "LOG10", "ATAN2", "_xlfn.XLOOKUP", "_xlfn.STDEV.S", "IFERROR", "TEXT", "N", "T", "COUNTIF",
    "SUMPRODUCT", "DAYS360", "AND", "CONCATENATE", "ROUND",
];
const OPS: &[&str] = &["+", "-", "*", "/", "^", "&", "=", "<", ">", "<=", ">=", "<>"];

/// reference-valued expressions (operands of union / intersection)
fn ref_like(inner: BoxedStrategy<Expr>) -> BoxedStrategy<Expr> {
    prop_oneof![
        8 => ref_node().prop_map(Expr::Ref),
        1 => name_text().prop_map(|name| Expr::Name { qual: None, name }),
        1 => ref_node().prop_map(|r| Expr::Paren(Box::new(Expr::Ref(r)))),
        1 => (ref_node(), 0u32..5, 0u32..5).prop_map(|(r, a, b)| Expr::Func {
            name: "OFFSET".into(),
            args: vec![Expr::Ref(r), Expr::Num(a.to_string()), Expr::Num(b.to_string())]
        }),
        1 => (ref_node(), inner).prop_map(|(r, i)| Expr::Func { name: "INDEX".into(), args: vec![Expr::Ref(r), i] }),
    ]
    .boxed()
}

/// The full expression grammar, depth <= 6.
pub fn expr() -> BoxedStrategy<Expr> {
    leaf()
        .prop_recursive(5, 40, 4, |inner| {
            let arg = prop_oneof![12 => inner.clone(), 1 => Just(Expr::Missing), 1 => prop::collection::vec(ref_like(inner.clone()), 2..=3).prop_map(Expr::Union)];
            prop_oneof![
                6 => (prop::sample::select(FUNCS.to_vec()), prop::collection::vec(arg, 1..=4)).prop_map(|(n, args)| Expr::Func { name: n.to_string(), args }),
                6 => (prop::sample::select(OPS.to_vec()), inner.clone(), inner.clone()).prop_map(|(op, l, r)| Expr::Binary { op: op.to_string(), l: Box::new(l), r: Box::new(r) }),
                2 => inner.clone().prop_map(|e| Expr::Unary { op: '-', e: Box::new(e) }),
                1 => inner.clone().prop_map(|e| Expr::Unary { op: '+', e: Box::new(e) }),
                1 => inner.clone().prop_map(|e| Expr::Percent(Box::new(e))),
                3 => inner.clone().prop_map(|e| Expr::Paren(Box::new(e))),
                1 => prop::collection::vec(ref_like(inner.clone()), 2..=3).prop_map(Expr::Union),
                2 => (ref_like(inner.clone()), ref_like(inner.clone())).prop_map(|(l, r)| Expr::Intersect(Box::new(l), Box::new(r))),
                1 => (prop::sample::select(vec!["SUM", "INDEX", "_xlfn.SINGLE"]), inner.clone()).prop_map(|(n, e)| Expr::At(Box::new(Expr::Func { name: n.to_string(), args: vec![e] }))),
            ]
        })
        .prop_map(fix_wellformed)
        .boxed()
}

/// Repairs the few shapes the free recursion can produce that are not well-formed:
/// `Percent`/`Unary` around nothing printable cannot occur (Missing only as argument), but a
/// `Percent` whose operand ends in a prefix-only text is fine; an `Intersect` operand never
/// ends/starts with an operator by construction.  What remains: a postfix `%` directly after
/// a unary-only operand is fine, `Missing` never escapes function arguments.
fn fix_wellformed(e: Expr) -> Expr {
    e
}

/// decorative blank plan
pub fn blank_plan() -> BoxedStrategy<Vec<u8>> {
    prop_oneof![
        3 => Just(Vec::new()),
        2 => prop::collection::vec(prop_oneof![3 => Just(0u8), 2 => Just(1u8), 1 => Just(2u8)], 0..24),
        1 => prop::collection::vec(prop_oneof![4 => Just(0u8), 2 => Just(1u8), 2 => Just(3u8), 1 => Just(4u8), 1 => Just(5u8)], 0..24),
        2 => prop::collection::vec(prop_oneof![3 => Just(0u8), 1 => Just(1u8), 1 => 3u8..=5, 4 => 6u8..=255], 0..24),
    ]
    .boxed()
}

/// `formula_text()` style strategy for other properties: well-formed formula text (without `=`)
/// restricted to the forms that survive the tokenizer unchanged (no `@`).
pub fn formula_text() -> BoxedStrategy<String> {
    (expr(), blank_plan())
        .prop_map(|(e, b)| {
            let e = e.map(&mut |x| match x {
                Expr::At(inner) => *inner,
                Expr::Err { qual: None, text } if !CLASSIC_ERRORS.contains(&text.as_str()) => Expr::Err { qual: None, text: "#N/A".into() },
                o => o,
            });
            // other properties save and reload this text: keep to blanks an XML text node
            // returns unchanged (no CR)
            let b: Vec<u8> = b.into_iter().map(|c| if c >= 3 { 1 } else { c }).collect();
            render(&e, &b)
        })
        .boxed()
}

#[cfg(test)]
mod tests {
    use super::*;
    #[test]
    fn lexer_basics() {
        let t = lex("SUM('My Sheet'!$A$1:B2,\"a\"\"b\")+1.5E+10%").unwrap();
        assert_eq!(toks_text(&t), "Func:SUM Ref:'My Sheet'!$A$1:B2 Comma:, Str:\"a\"\"b\" Close:) Op:+ Num:1.5E+10 Postfix:%");
        let t = lex("A1:B2 B1:C3").unwrap();
        assert_eq!(t.len(), 3);
        assert_eq!(t[1].kind, Kind::Intersect);
    }
}
