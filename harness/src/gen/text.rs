//! Text alphabets (DESIGN 3.2).
use proptest::prelude::*;
use proptest::strategy::BoxedStrategy;

/// Characters legal in XML 1.0 and interesting for a spreadsheet.
pub fn xml_char() -> BoxedStrategy<char> {
    prop_oneof![
        30 => prop::char::range(' ', '~'),
        6 => prop::sample::select(vec!['<', '>', '&', '"', '\'']),
        3 => prop::sample::select(vec![' ', '\t', '\n', '\r']),
        3 => prop::sample::select(vec!['é', 'ß', 'Ω', 'Ж', 'א', '日', '本', '한', '\u{3000}', '\u{a0}']),
        2 => prop::sample::select(vec!['😀', '𠀋', '🧪', '\u{1F600}', '\u{2000B}']),
        1 => prop::sample::select(vec!['e', '\u{301}', '\u{200d}', '\u{feff}']),
        1 => prop::char::range('\u{a1}', '\u{d7ff}'),
    ]
    .boxed()
}

/// Text without characters that XML 1.0 cannot carry and without a lone CR
/// (CR / C0 controls form their own stratum: see `tricky_text`).
pub fn plain_text(max: usize) -> BoxedStrategy<String> {
    prop_oneof![
        6 => prop::collection::vec(xml_char(), 0..=max).prop_map(|v| v.into_iter().collect::<String>()),
        2 => "[a-z]{1,8}".prop_map(|s| s),
        1 => special_strings(),
        1 => (edge_blank(), "[A-Za-z0-9 ]{0,10}", edge_blank()).prop_map(|(a, b, c)| format!("{}{}{}", a, b, c)),
    ]
    .boxed()
}

pub fn edge_blank() -> BoxedStrategy<String> {
    prop::sample::select(vec!["", " ", "  ", "\t", "\n", " \n ", "\u{3000}", "\u{a0}"])
        .prop_map(|s| s.to_string())
        .boxed()
}

/// Strings that look like other kinds or like markup/escapes.
pub fn special_strings() -> BoxedStrategy<String> {
    prop::sample::select(vec![
        "123", "TRUE", "FALSE", "true", "#N/A", "#DIV/0!", "#VALUE!", "1e5", "1E5", "=A1", "-0", "0.10", " 12 ", "+1",
        "&amp;", "&lt;", "&#65;", "]]>", "<!--", "<t>", "</v>", "<![CDATA[x]]>", "_x0041_", "_x000D_", "_x005F_", "_xHHHH_",
        "'", "\"", "''", "\"\"", "a\"b", "a'b", "a,b", "a;b", " ", "  ", "\n", "a\nb", "a\n\nb", "\t", "NaN", "inf", "Infinity",
        "1.7976931348623157E308", "0x10", "１２３", "", "a", "😀", "é", "\u{feff}x", "x\u{200b}",
    ])
    .prop_map(|s| s.to_string())
    .boxed()
}

/// Non-empty variant.
pub fn nonempty_text(max: usize) -> BoxedStrategy<String> {
    plain_text(max)
        .prop_map(|s| if s.is_empty() { "x".to_string() } else { s })
        .boxed()
}

/// Legal Excel sheet names: 1..31 chars, none of []:*?/\ , not starting/ending with '.
pub fn sheet_name() -> BoxedStrategy<String> {
    let ch = prop_oneof![
        20 => prop::char::range('a', 'z'),
        6 => prop::char::range('A', 'Z'),
        6 => prop::char::range('0', '9'),
        4 => Just(' '),
        6 => prop::sample::select(vec!['!', '\'', '"', '&', '<', '>', '-', '.', '(', ')', '+', ',', '=', '#', '$', '%', '_']),
        3 => prop::sample::select(vec!['é', '日', '本', 'Ж', '😀']),
    ];
    prop_oneof![
        3 => "[A-Za-z][A-Za-z0-9]{0,8}".prop_map(|s| s),
        5 => prop::collection::vec(ch, 1..=31).prop_map(|v| v.into_iter().collect::<String>()),
        1 => prop::sample::select(vec!["A1", "XFD1048576", "R1C1", "TRUE", "1", "1x", "a b", "it's", "a!b", "x\"y", "A&B", "<s>", "Sheet 1", "日本", "a'b!c", "RC", "C", "R"]).prop_map(|s| s.to_string()),
    ]
    .prop_map(|s| sanitize_sheet_name(&s))
    .boxed()
}

pub fn sanitize_sheet_name(s: &str) -> String {
    let mut v: Vec<char> = s.chars().filter(|c| !"[]:*?/\\".contains(*c)).collect();
    // 31 UTF-16 units
    let mut units = 0;
    let mut keep = 0;
    for c in &v {
        units += c.len_utf16();
        if units > 31 {
            break;
        }
        keep += 1;
    }
    v.truncate(keep);
    // not starting/ending with an apostrophe (Excel rule); edge blanks are legal in Excel
    // but several producers trim them: keep names blank-free at the edges
    loop {
        let n = v.len();
        while v.first().map_or(false, |c| *c == '\'' || c.is_whitespace()) {
            v.remove(0);
        }
        while v.last().map_or(false, |c| *c == '\'' || c.is_whitespace()) {
            v.pop();
        }
        if v.len() == n {
            break;
        }
    }
    if v.is_empty() {
        return "S".to_string();
    }
    v.into_iter().collect()
}

/// Distinct (case-insensitively) sheet names.
pub fn sheet_names(min: usize, max: usize) -> BoxedStrategy<Vec<String>> {
    prop::collection::vec(sheet_name(), min..=max)
        .prop_map(|v| {
            let mut out: Vec<String> = Vec::new();
            for (i, n) in v.into_iter().enumerate() {
                let low = n.to_lowercase();
                if out.iter().any(|o| o.to_lowercase() == low) {
                    let mut m: String = n.chars().take(27).collect();
                    m.push_str(&format!("_{}", i));
                    out.push(sanitize_sheet_name(&m));
                } else {
                    out.push(n);
                }
            }
            out
        })
        .boxed()
}

pub fn needs_xml_escape(s: &str) -> bool {
    s.contains(|c| matches!(c, '<' | '>' | '&' | '"' | '\''))
}
pub fn has_edge_blank(s: &str) -> bool {
    s.starts_with(char::is_whitespace) || s.ends_with(char::is_whitespace)
}
pub fn has_non_bmp(s: &str) -> bool {
    s.chars().any(|c| (c as u32) > 0xFFFF)
}

/// Own stratum: carriage returns (ECMA-376 writes them as _x000D_; a raw CR is normalised to
/// LF by every conforming XML parser) and characters XML 1.0 cannot carry at all.
pub fn cr_text() -> BoxedStrategy<String> {
    ("[a-z]{0,3}", prop::sample::select(vec!["\r", "\r\n", "\n\r", "a\rb"]), "[a-z]{0,3}")
        .prop_map(|(a, b, c)| format!("{}{}{}", a, b, c))
        .boxed()
}
pub fn c0_text() -> BoxedStrategy<String> {
    ("[a-z]{0,3}", prop::sample::select(vec!['\u{1}', '\u{8}', '\u{b}', '\u{c}', '\u{1f}', '\u{0}', '\u{fffe}', '\u{ffff}']), "[a-z]{0,3}")
        .prop_map(|(a, b, c)| format!("{}{}{}", a, b, c))
        .boxed()
}
